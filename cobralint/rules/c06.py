"""C06 - deletion analyses report the optimum of each knocked-out model (structural clauses)."""
from __future__ import annotations

import ast

from .. import AnalysisError, SkipClause
from ..cfg import describe_path, no_exc
from ..program import FuncInfo, ancestors, enclosing_stmt, norm, walk_local
from . import c09, delform, fa
from .common import check_none_defaults

EXPLANATION = (
    "Decided structurally: (tasks) the task collection is the set of frozensets over the full product of the "
    "element lists (one task per unordered combination), results are rows carrying their own ids; (scope) each "
    "worker enters a `with model` per task, knocks out every id of its task through knock_out() of the object "
    "looked up in the model (so the genes' functional flags and the rules decide), measures growth inside that "
    "context and returns its own ids; (status) _get_growth returns the status read after the solve whose value it "
    "returns and uses slim_optimize's NaN default; (keyed/chunk) see C14; (nonedefault) thresholds and list "
    "arguments are defaulted only when None. NOT decided: growth values, rule evaluation (C07), MOMA/ROOM numerics."
)
ASSUMPTIONS = ["knock_out() semantics are those decided under C07", "context restoration is decided under C03/C13"]

WORKERS = [("cobra.flux_analysis.deletion", "_reaction_deletion", "reactions"), ("cobra.flux_analysis.deletion", "_gene_deletion", "genes")]


def check_tasks(ctx) -> None:
    prog = ctx.prog
    fn = prog.func("cobra.flux_analysis.deletion", "_multi_deletion")
    # the collection handed to the workers
    task_names = set()
    for n in walk_local(fn.node):
        if isinstance(n, ast.Call) and isinstance(n.func, ast.Attribute) and n.func.attr in ("imap_unordered", "imap", "map") and len(n.args) >= 2 and isinstance(n.args[1], ast.Name):
            task_names.add(n.args[1].id)
        if isinstance(n, ast.Call) and isinstance(n.func, ast.Name) and n.func.id == "map" and len(n.args) >= 2 and isinstance(n.args[1], ast.Name):
            task_names.add(n.args[1].id)
    if len(task_names) != 1:
        raise SkipClause(f"_multi_deletion: task collection not identified ({sorted(task_names)}) (rows are decided by C06.formulation)")
    tname = next(iter(task_names))
    owner, defs = ctx.inf.lookup_name(fn, tname)
    if not defs:
        raise SkipClause("_multi_deletion: the task collection is never assigned in a familiar spelling (rows are decided by C06.formulation)")
    for d in defs:
        c = d.value if d.kind == "assign" else None
        ok = False
        if isinstance(c, ast.SetComp):
            gen = c.generators[0]
            it = gen.iter
            ok = (
                isinstance(c.elt, ast.Call) and norm(c.elt.func) == "frozenset"
                and isinstance(it, ast.Call) and norm(it.func) == "product"
                and len(it.args) == 1 and isinstance(it.args[0], ast.Starred) and norm(it.args[0].value) == "element_lists"
                and not gen.ifs and len(c.generators) == 1
            )
        if ok:
            ctx.ok("C06.tasks", fn, c, "one task per unordered combination: set of frozensets over the full product of all element lists")
        else:
            ctx.bad("C06.tasks", fn, d.node, "the task collection is not (always) the set of frozensets over product(*element_lists): requested combinations are missing or duplicated")
    ex = fn.nested.get("extract_knockout_results")
    if ex is None:
        ctx.bad("C06.tasks", fn, fn.node, "result rows are no longer built by extract_knockout_results")
    else:
        rb = fa.row_builder(ex)
        if rb is not None and rb[2] and {"ids", "growth", "status"} <= set(rb[3]):
            ctx.ok("C06.tasks", ex, rb[1], "exactly one row (ids, growth, status) per task result")
        else:
            ctx.bad("C06.tasks", ex, ex.node, "result rows are filtered or do not carry (ids, growth, status)")
    el = prog.func("cobra.flux_analysis.deletion", "_element_lists")
    rets = [n for n in walk_local(el.node) if isinstance(n, ast.Return)]
    ctx.ok("C06.tasks", el, rets[0] if rets else None, "element lists normalised to ids", nontrivial=False)


def check_scope(ctx) -> None:
    prog = ctx.prog
    for mod, short, lst in WORKERS:
        fn = prog.func(mod, short)
        g = ctx.flow.cfg(fn)
        params = fn.pos_params
        model_p, ids_p = params[0], params[1]
        withs = [n for n in fn.node.body if isinstance(n, ast.With) and any(norm(i.context_expr) == model_p for i in n.items)]
        if len(withs) != 1:
            ctx.bad("C06.scope", fn, fn.node, "the worker does not open exactly one `with model` context per task")
            continue
        w = withs[0]
        loops = [n for n in w.body if isinstance(n, ast.For) and norm(n.iter) == ids_p]
        if not loops:
            ctx.bad("C06.scope", fn, w, "the worker does not visit every id of its task inside the context")
            continue
        lp = loops[0]
        var = lp.target.id
        calls = [n for n in ast.walk(lp) if isinstance(n, ast.Call) and isinstance(n.func, ast.Attribute) and n.func.attr == "knock_out"]
        good = [c for c in calls if norm(c.func.value) == f"{model_p}.{lst}.get_by_id({var})" or _looked_up(ctx, fn, c.func.value, model_p, lst, var)]
        if not good:
            ctx.bad("C06.scope", fn, lp, f"the ids of a task are not knocked out through knock_out() of the object found in model.{lst}: knock-outs that are already in effect (functional flags) and the rules are bypassed")
            continue
        cn = set()
        for c in good:
            cn |= {x for x in g.node_containing(c) if x.kind != "with_exit"}
        first = {x for st in lp.body[:1] for x in g.node_containing(st) if x.kind != "with_exit"}
        seen = g.reach(list(first), avoid=lambda n: n in cn, edge_ok=no_exc, include_start=True)
        early = [x for x in ast.walk(lp) if isinstance(x, (ast.Break, ast.Return))]
        if any(h in seen for h in g.nodes_for(lp)):
            ctx.bad("C06.scope", fn, lp, "an id of the task can be skipped without being knocked out")
        elif early:
            ctx.bad("C06.scope", fn, early[0], "the loop over the ids of a task can stop early: later ids are not knocked out")
        else:
            ctx.ok("C06.scope", fn, good[0], "every id of the task is knocked out through knock_out() inside the per-task context")
        # growth measured inside the context, after the loop
        growth = [n for n in w.body if isinstance(n, ast.Assign) and isinstance(n.value, ast.Call) and norm(n.value.func) == "_get_growth"]
        if growth and w.body.index(growth[0]) > w.body.index(lp):
            ctx.ok("C06.scope", fn, growth[0], "growth is measured inside the context, after all knock-outs")
        else:
            ctx.bad("C06.scope", fn, w, "growth is not measured inside the knock-out context after the knock-outs")
        rets = [n for n in walk_local(fn.node) if isinstance(n, ast.Return)]
        if rets and all(isinstance(r.value, ast.Tuple) and norm(r.value.elts[0]) == ids_p for r in rets):
            ctx.ok("C06.scope", fn, rets[0], "the worker returns its own task ids with the result")
        else:
            ctx.bad("C06.scope", fn, rets[0] if rets else fn.node, "the worker does not return its own task ids")


def _looked_up(ctx, fn: FuncInfo, recv: ast.AST, model_p: str, lst: str, var: str) -> bool:
    if isinstance(recv, ast.Name):
        owner, defs = ctx.inf.lookup_name(fn, recv.id)
        return any(d.kind == "assign" and isinstance(d.value, ast.AST) and norm(d.value) == f"{model_p}.{lst}.get_by_id({var})" for d in defs)
    return False


def check_status(ctx) -> None:
    prog = ctx.prog
    fn = prog.func("cobra.flux_analysis.deletion", "_get_growth")
    g = ctx.flow.cfg(fn)
    solves = [n for n in walk_local(fn.node) if isinstance(n, ast.Call) and isinstance(n.func, ast.Attribute) and n.func.attr == "slim_optimize"]
    rets = [n for n in walk_local(fn.node) if isinstance(n, ast.Return)]
    if not solves or not rets:
        raise SkipClause("_get_growth: solve / return not in a familiar spelling (values and statuses are decided by C06.formulation)")
    for s in solves:
        if s.args or any(k.arg == "error_value" for k in s.keywords):
            ctx.bad("C06.status", fn, s, "slim_optimize is not called with its NaN default: a failed solve no longer yields not-a-number growth")
        else:
            ctx.ok("C06.status", fn, s, "failed solves yield NaN (default error_value)")
    status_reads = [n for r in rets for n in ast.walk(r) if isinstance(n, ast.Attribute) and n.attr == "status"]
    if not status_reads:
        # a local that holds the status: it must have been read after the solve (C13.fresh decides that for every read of
        # solver results; the value/status pairing itself is decided by C06.formulation)
        reads = [n for n in walk_local(fn.node) if isinstance(n, ast.Attribute) and n.attr == "status" and norm(n.value).endswith("solver")]
        snodes = set()
        for s in solves:
            snodes |= {x for x in g.node_containing(s) if x.kind != "with_exit"}
        late = [r for r in reads if g.reaches_without([x for x in g.node_containing(r)], lambda n: n in snodes, edge_ok=no_exc) is None]
        if reads and len(late) == len(reads):
            ctx.ok("C06.status", fn, rets[0], "the status is read after the solve (through a local)")
        elif reads:
            ctx.bad("C06.status", fn, rets[0], "the status can be read before the solve whose value is returned")
        else:
            ctx.ok("C06.status", fn, rets[0], "no familiar spelling of the status read; decided by C06.formulation", nontrivial=False)
    else:
        snodes = set()
        for s in solves:
            snodes |= {x for x in g.node_containing(s) if x.kind != "with_exit"}
        w = g.reaches_without([x for r in rets for x in g.node_containing(r)], lambda n: n in snodes, edge_ok=no_exc)
        if w is not None:
            ctx.bad("C06.status", fn, rets[0], "the status can be returned without a solve having been made on this path", path=describe_path(w))
        else:
            ctx.ok("C06.status", fn, rets[0], "status is read after the solve whose value is returned")


def run(ctx) -> None:
    ctx.rule("C06.tasks", "one task per unordered combination; one row per task", floor=3, hard=0)
    ctx.rule("C06.scope", "T2: every knock-out of a task happens through knock_out() inside the per-task context", floor=6)
    ctx.rule("C06.status", "T6: status read after the solve; NaN default", floor=3)
    ctx.rule("C06.keyed", "T5: unordered pool results are order-free", floor=1)
    ctx.rule("C06.chunk", "T6: chunk size >= 1", floor=1)
    ctx.rule("C06.nonedefault", "T5: optional arguments are defaulted only when None", floor=3)
    ctx.rule("C06.formulation", "oracle evaluation: one row per combination, values of the model with exactly the implied reactions at zero", floor=6)
    n0 = len(ctx.findings)
    try:
        delform.check_deletions(ctx, "C06.formulation")
    except AnalysisError as exc:
        ctx.defer(str(exc))
    formulation_failed = len(ctx.findings) > n0 or bool(ctx.deferred)
    # the linear MOMA problem itself (shared with C09): the reported growth is only meaningful if it is posed as documented
    ctx.rule("C09.moma", "formulation: linear MOMA poses the documented problem (shared with C09)", floor=6)
    try:
        c09.check_moma(ctx)
    except AnalysisError as exc:
        ctx.defer(str(exc))
    # a gene deletion row is the model with the genes knocked out *through Gene.knock_out*: that it zeroes exactly the
    # reactions whose rule became false - whatever the flags were before - is C07 (shared)
    from . import c07

    ctx.rule("C07.guard", "T5: Gene.knock_out zeroes a reaction iff reaction.functional is false, for every reaction of the gene (shared with C07)", floor=5)
    ctx.rule("C07.eval", "truth-table evaluation of the rule evaluator (shared with C07)", floor=8)
    c07.check_guard(ctx)
    c07.check_eval(ctx)
    # the reading of how the task set is spelled explains; the rows themselves are decided by the evaluated formulation
    ctx.explain(formulation_failed, check_tasks, ctx)
    check_scope(ctx)
    ctx.guard(check_status, ctx)
    fa.check_keyed(ctx, "C06.keyed", [("cobra.flux_analysis.deletion", "_multi_deletion")])
    fa.check_chunk(ctx, "C06.chunk", [("cobra.flux_analysis.deletion", "_multi_deletion")])
    p = ctx.prog
    fns = [p.func("cobra.flux_analysis.variability", "find_essential_genes"), p.func("cobra.flux_analysis.variability", "find_essential_reactions"),
           p.func("cobra.flux_analysis.deletion", "_multi_deletion")]
    check_none_defaults(ctx, "C06.nonedefault", fns)
