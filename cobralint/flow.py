"""Per-function flow graphs with interprocedural explicit-raise summaries (DESIGN.md 1.4)."""
from __future__ import annotations

import ast
from typing import Callable, Dict, List, Optional, Set

from .cfg import ANY_EXC, CFG, Node
from .infer import Infer
from .program import ClassInfo, FuncInfo, Program, walk_local

# implicit raises the repository itself relies on to signal "missing identifier"
IMPLICIT_RAISES = {
    "DictList.get_by_id": {"KeyError"},
    # replays arbitrary recorded callables: any of them may raise
    "HistoryManager.reset": {"*"},
}


class Flow:
    def __init__(self, prog: Program, inf: Infer):
        self.prog = prog
        self.inf = inf
        self._cfg: Dict[int, CFG] = {}
        self._raises: Dict[int, Set[str]] = {}
        self._busy: Set[int] = set()

    def exc_parent(self, name: str) -> Optional[str]:
        ci = self.prog.classes.get(name)
        if ci is None:
            return None
        for b in ci.bases:
            if isinstance(b, ClassInfo):
                return b.name
            if isinstance(b, str):
                return b.split(".")[-1]
        return None

    def cfg(self, fn: FuncInfo) -> CFG:
        g = self._cfg.get(id(fn))
        if g is None:
            g = CFG(fn.node, raise_types=lambda n, fn=fn: self.node_raise_types(fn, n), exc_parent=self.exc_parent)
            self._cfg[id(fn)] = g
        return g

    def node_raise_types(self, fn: FuncInfo, node: ast.AST) -> Set[str]:
        """Exception classes that evaluating ``node`` may raise through package calls."""
        out: Set[str] = set()
        if isinstance(node, (ast.FunctionDef, ast.AsyncFunctionDef, ast.ClassDef, ast.Lambda)):
            return out
        todo = [node]
        while todo:
            n = todo.pop()
            if isinstance(n, (ast.FunctionDef, ast.AsyncFunctionDef, ast.Lambda, ast.ClassDef)) and n is not node:
                continue
            if isinstance(n, ast.Call):
                for callee, _ in self.inf.call_targets(fn, n):
                    out |= self.func_raises(callee)
            elif isinstance(n, ast.Attribute) and isinstance(n.ctx, ast.Store):
                setter = self.inf.property_target(fn, n, "setter")
                if setter is not None:
                    out |= self.func_raises(setter)
            elif isinstance(n, ast.AugAssign) and isinstance(n.target, ast.Name):
                for t in self.inf.type_of(fn, n.target):
                    if t[0] == "cls":
                        opm = {ast.Add: "__iadd__", ast.Sub: "__isub__", ast.Mult: "__imul__"}.get(type(n.op))
                        for m in self.prog.find_method(t[1], opm) if opm else []:
                            out |= self.func_raises(m)
            todo.extend(ast.iter_child_nodes(n))
        return out

    def func_raises(self, fn: FuncInfo) -> Set[str]:
        got = self._raises.get(id(fn))
        if got is not None:
            return got
        if id(fn) in self._busy:
            return set()
        self._busy.add(id(fn))
        try:
            g = self.cfg(fn)
            types: Set[str] = set(IMPLICIT_RAISES.get(fn.short, ()))
            live = g.live_nodes()
            for n in g.nodes:
                if n not in live:
                    continue
                for m, lab in g.succ[n]:
                    if m is g.rexit and lab == "exc":
                        types |= self._types_at(fn, g, n)
        finally:
            self._busy.discard(id(fn))
        self._raises[id(fn)] = types
        return types

    def _types_at(self, fn: FuncInfo, g: CFG, n: Node) -> Set[str]:
        """Exception types leaving the function from node n (approximation: the node's own types)."""
        out: Set[str] = set()
        a = n.ast
        if isinstance(a, ast.Raise):
            if a.exc is None:
                out.add(ANY_EXC)
            else:
                e = a.exc.func if isinstance(a.exc, ast.Call) else a.exc
                name = ast.unparse(e).split(".")[-1]
                out.add(name if (isinstance(a.exc, ast.Call) or name[:1].isupper()) else ANY_EXC)
        elif a is not None:
            if n.kind == "with_enter":
                for item in a.items:
                    out |= self.node_raise_types(fn, item.context_expr)
            elif n.kind in ("with_exit", "join", "except"):
                out.add(ANY_EXC)
            else:
                out |= self.node_raise_types(fn, a)
                if isinstance(a, ast.Assert):
                    out.add("AssertionError")
        else:
            out.add(ANY_EXC)
        return out or {ANY_EXC}
