#!/bin/sh
# Maintenance helper (not used by the checks): confirm one seeded change in a scratch worktree.
# usage: confirm_seed.sh <dir with patch.diff and demo.py>   -> writes <dir>/confirm.json
# Needs /tmp/seed_clean_pass.txt (sorted ids of tests that pass on the clean tree; built on first use).
D="$1"; N=$(echo "$D" | tr '/' '_'); WT=/tmp/confirmwt/$N
mkdir -p /tmp/confirmwt
HEAD=$(git -C /repo rev-parse --short HEAD)
ids() { /venv/bin/python - "$1" <<'P'
import sys, xml.etree.ElementTree as ET
for tc in ET.parse(sys.argv[1]).getroot().iter('testcase'):
    if not any(c.tag in ('failure','error','skipped') for c in tc):
        print(tc.get('classname')+'::'+tc.get('name'))
P
}
if [ ! -s /tmp/seed_clean_pass.$HEAD.txt ]; then
  ( flock 9
    if [ ! -s /tmp/seed_clean_pass.$HEAD.txt ]; then
      git -C /repo worktree add --detach /tmp/confirmwt/clean HEAD >/dev/null 2>&1
      (cd /tmp/confirmwt/clean && PYTHONPATH=/tmp/confirmwt/clean/src /venv/bin/python -m pytest -q -p no:cacheprovider --timeout=900 --continue-on-collection-errors --junitxml=/tmp/confirmwt/clean.xml tests >/dev/null 2>&1)
      ids /tmp/confirmwt/clean.xml | sort > /tmp/seed_clean_pass.$HEAD.txt
      git -C /repo worktree remove --force /tmp/confirmwt/clean
    fi ) 9>/tmp/seed_clean.lock
fi
git -C /repo worktree remove --force "$WT" >/dev/null 2>&1
git -C /repo worktree add --detach "$WT" HEAD >/dev/null 2>&1 || { echo "worktree failed"; exit 2; }
cd "$WT"
PYTHONPATH=$WT/src timeout 900 /venv/bin/python "$D/demo.py" >"$D/demo_clean.log" 2>&1; C=$?
if git apply "$D/patch.diff" 2>"$D/apply.log"; then A=true; else A=false; fi
M=-1; X=-1
if $A; then
  PYTHONPATH=$WT/src timeout 900 /venv/bin/python "$D/demo.py" >"$D/demo_changed.log" 2>&1; X=$?
  PYTHONPATH=$WT/src /venv/bin/python -m pytest -q -p no:cacheprovider --timeout=900 --continue-on-collection-errors --junitxml="$D/changed.xml" tests >"$D/tests.log" 2>&1
  ids "$D/changed.xml" | sort > "$D/changed_pass.txt"
  comm -23 /tmp/seed_clean_pass.$HEAD.txt "$D/changed_pass.txt" > "$D/missing.txt"
  # the sbml file has a known race on a shared file: re-run missing tests of that file serially
  if grep -q test_sbml "$D/missing.txt"; then
     PYTHONPATH=$WT/src /venv/bin/python -m pytest -q -p no:cacheprovider --timeout=900 --junitxml="$D/changed2.xml" tests/test_io/test_sbml.py >>"$D/tests.log" 2>&1
     ids "$D/changed2.xml" | sort > "$D/changed2_pass.txt"
     sort -u "$D/changed_pass.txt" "$D/changed2_pass.txt" > "$D/changed_pass_all.txt"
     comm -23 /tmp/seed_clean_pass.$HEAD.txt "$D/changed_pass_all.txt" > "$D/missing.txt"
  fi
  M=$(wc -l < "$D/missing.txt")
fi
cd /; git -C /repo worktree remove --force "$WT" >/dev/null 2>&1
rm -f "$D/changed.xml" "$D/changed2.xml" "$D/changed_pass.txt" "$D/changed2_pass.txt" "$D/changed_pass_all.txt"
printf '{"applies": %s, "demo_exit_clean": %s, "demo_exit_with_change": %s, "baseline_tests_missing_with_change": %s, "head": "%s"}\n' $A $C $X $M $HEAD > "$D/confirm.json"
echo "$D $(cat $D/confirm.json)"
