"""Evaluation of set_objective (dict form) over the symbolic LP model: what ends up in the solver's objective."""
from __future__ import annotations

from typing import Any, Dict

from .. import AnalysisError
from ..absint import EvalRaise, Unknown
from ..interp import Interp
from ..lpmodel import Cons, Container, Formulation, Lin, ModelLP, Obj, Problem, ReactionList, RxnLP, SolutionLP, SolverStub, Unsupported, Var

NATIVE = (Lin, Var, Cons, Obj, Problem, Container, SolverStub, RxnLP, ReactionList, SolutionLP, ModelLP, Formulation)


def _model(direction):
    rxns = [RxnLP("R_a", -11.0, 17.0), RxnLP("R_b", 0.0, 23.0), RxnLP("R_c", -29.0, 0.0), RxnLP("R_d", -5.0, 5.0)]
    m = ModelLP(rxns, {"R_b": 1.0, "R_a": 0.25}, direction)
    m.solver.objective.is_Linear = True
    return m


def check_set_objective(ctx, rule: str) -> None:
    prog = ctx.prog
    fn = prog.func("cobra.util.solver", "set_objective")
    problems = []
    n = 0
    for direction in ("max", "min"):
        for additive in (False, True):
            for given in ({"R_c": 2.0}, {"R_b": 0}, {"R_b": 0.0, "R_d": -1.5}, {"R_a": -0.75, "R_c": 0}, {}):
                model = _model(direction)
                # Obj objects created through the interface must say they are linear as well
                Obj.is_Linear = True
                it = Interp(prog, NATIVE, [], {"cobra.util.context.get_context": lambda it_, ev, c, a, k: None}, globals_={"Zero": Lin()})
                value = {model.reactions.get_by_id(k): v for k, v in given.items()}
                what = f"set_objective({given}, additive={additive}) on a {direction} objective 1.0 R_b + 0.25 R_a"
                try:
                    try:
                        it.call(fn, [model, value], {"additive": additive})
                    except Unknown as exc:
                        raise AnalysisError(f"C04: {what} cannot be evaluated: {exc}")
                    except Unsupported as exc:
                        raise AnalysisError(f"C04: {what} is outside the LP model: {exc}")
                except EvalRaise as exc:
                    problems.append(f"{what} raises {exc.exc_type}")
                    continue
                n += 1
                want = {} if not additive else {"R_b": 1.0, "R_a": 0.25}
                for k, v in given.items():
                    want[k] = float(v)
                want = {k: v for k, v in want.items() if v != 0}
                got = {}
                obj = model.solver.objective
                for r in model.reactions:
                    f = obj.expression.terms.get(r.forward_variable, 0.0)
                    b = obj.expression.terms.get(r.reverse_variable, 0.0)
                    if f != -b:
                        problems.append(f"{what}: forward and reverse coefficient of {r.id} are {f} and {b}")
                    if f:
                        got[r.id] = f
                if got != want:
                    problems.append(f"{what} leaves the objective {got}, expected {want}" + (" (assigning 0 clears the term)" if any(v == 0 for v in given.values()) else ""))
                if obj.direction != direction:
                    problems.append(f"{what} changes the direction to {obj.direction}")
    if problems:
        ctx.bad(rule, fn, "objective coefficients", "; ".join(problems[:2]))
    else:
        ctx.ok(rule, fn, "objective coefficients", f"{n} scenarios: the objective holds exactly the given coefficients (additive: on top of the others; an explicit 0 clears a term), forward = -reverse, direction kept")
