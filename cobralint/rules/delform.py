"""Oracle evaluation of the deletion analyses (C06): which model is solved for each requested combination and
which numbers end up in its row."""
from __future__ import annotations

from typing import Any, Dict, FrozenSet, List, Optional, Tuple

from .. import AnalysisError
from ..absint import EvalRaise, Unknown
from ..framemodel import Frame, Index, Ser, _At, _Loc
from ..framemodel import Unsupported as FUnsupported
from ..interp import Interp
from ..lpmodel import Cons, Container, Formulation, GeneLP, Lin, ModelLP, Obj, Problem, ReactionList, RxnLP, SolutionLP, SolverStub, Unsupported, Var

NATIVE = (Lin, Var, Cons, Obj, Problem, Container, SolverStub, RxnLP, ReactionList, SolutionLP, ModelLP, Formulation, GeneLP, Frame, Ser, Index, _At, _Loc)
FOLLOW = [
    "cobra.flux_analysis.deletion.single_reaction_deletion",
    "cobra.flux_analysis.deletion.double_reaction_deletion",
    "cobra.flux_analysis.deletion.single_gene_deletion",
    "cobra.flux_analysis.deletion.double_gene_deletion",
    "cobra.flux_analysis.deletion._multi_deletion",
    "cobra.flux_analysis.deletion._element_lists",
    "cobra.flux_analysis.deletion._entities_ids",
    "cobra.flux_analysis.deletion._reaction_deletion",
    "cobra.flux_analysis.deletion._gene_deletion",
    "cobra.flux_analysis.deletion._get_growth",
    "cobra.flux_analysis.deletion._init_worker",
    "cobra.flux_analysis.deletion._reaction_deletion_worker",
    "cobra.flux_analysis.deletion._gene_deletion_worker",
    "cobra.flux_analysis.moma.add_moma",
    "cobra.util.solver.add_absolute_expression",
    "cobra.flux_analysis.variability.find_essential_genes",
    "cobra.flux_analysis.variability.find_essential_reactions",
]
NAN = float("nan")
WILD = 0.875
# growth of the model in which exactly this set of reactions is forced to zero: (value, status); None = infeasible
GROWTH: Dict[FrozenSet[str], Optional[float]] = {
    frozenset(): WILD,
    frozenset({"R1"}): 0.25, frozenset({"R2"}): 0.875, frozenset({"R3"}): None, frozenset({"R4"}): 0.0, frozenset({"R5"}): 0.004,
    frozenset({"R1", "R2"}): 0.25, frozenset({"R1", "R3"}): None, frozenset({"R1", "R4"}): 0.0, frozenset({"R1", "R5"}): 0.125,
    frozenset({"R2", "R3"}): None, frozenset({"R2", "R4"}): 0.0, frozenset({"R2", "R5"}): 0.75, frozenset({"R3", "R4"}): None,
    frozenset({"R3", "R5"}): None, frozenset({"R4", "R5"}): None,
    frozenset({"R1", "R2", "R5"}): 0.0625, frozenset({"R1", "R2", "R4"}): 0.0, frozenset({"R2", "R4", "R5"}): None, frozenset({"R1", "R2", "R4", "R5"}): None,
    frozenset({"R1", "R4", "R5"}): None, frozenset({"R1", "R2", "R3"}): None,
}
# gene rules: R1: gA and gB; R2: gA or gC; R4: gC; R5: gB or (gC and gD); R3 has no rule
RULES = {
    "R1": lambda f: f["gA"] and f["gB"],
    "R2": lambda f: f["gA"] or f["gC"],
    "R4": lambda f: f["gC"],
    "R5": lambda f: f["gB"] or (f["gC"] and f["gD"]),
}
GENES = ["gA", "gB", "gC", "gD"]


def _value(ko: FrozenSet[str]) -> Tuple[float, str]:
    if ko not in GROWTH:
        raise AnalysisError(f"C06: the oracle has no entry for the knock-out set {sorted(ko)}")
    g = GROWTH[ko]
    return (NAN, "infeasible") if g is None else (g, "optimal")


def _implied(genes: FrozenSet[str]) -> FrozenSet[str]:
    flags = {g: g not in genes for g in GENES}
    return frozenset(r for r, rule in RULES.items() if not rule(flags))


class _Oracle:
    def __init__(self):
        self.log: List[Tuple[FrozenSet[str], str, Formulation]] = []

    def __call__(self, model: ModelLP, f: Formulation):
        ko = frozenset(rid for rid, b in f.bounds.items() if b == (0.0, 0.0))
        odd = [rid for rid, b in f.bounds.items() if b != (0.0, 0.0) and b != model.original_bounds[rid]]
        if odd:
            kind = "odd-bounds"
        elif any(v.name == "moma_old_objective" for v in f.variables):
            kind = "moma"
        elif f.objective_name == "original_objective":
            kind = "fba"
        else:
            kind = "other"
        self.log.append((ko, kind, f))
        val, status = _value(ko)
        for v in model.solver.variables.items:
            if v.name == "moma_old_objective":
                v.primal = None if status != "optimal" else val  # growth at the minimal-adjustment solution
        # a flux distribution that is consistent with the table: everything that is not switched off carries flux,
        # except R2, whose deletion changes nothing (a shortcut that looks at one solution must still be right)
        fluxes = {r.id: (0.0 if (r.id in ko or r.id == "R2" or status != "optimal") else 1.0) for r in model.reactions}
        if kind == "moma":
            # the LP objective of MOMA is the distance, not the growth
            return (NAN if status != "optimal" else 100.0 + len(ko)), fluxes, status
        return val, fluxes, status


def _model() -> ModelLP:
    rxns = [RxnLP("R1", 0.0, 10.0), RxnLP("R2", -10.0, 10.0), RxnLP("R3", 0.0, 10.0), RxnLP("R4", -10.0, 0.0), RxnLP("R5", 0.0, 5.0)]
    m = ModelLP(rxns, {"R3": 1.0})
    m.original_bounds = {r.id: (r.lower_bound, r.upper_bound) for r in rxns}
    m.rules = RULES
    m.genes = ReactionList(GeneLP(g, m) for g in GENES)
    m.script = _Oracle()
    return m


def _interface_to_str(it, ev, c, args, kwargs):
    return "glpk"


DECOY = 9.0


def _pfba_decoy(it, ev, c, args, kwargs):
    """pfba(model) as a reference of its own: a solution whose fluxes are all DECOY - distinguishable from the reference
    the scenarios hand in (a MOMA problem built around it was not built around the given solution)."""
    model = args[0] if args else kwargs["model"]
    return SolutionLP(Formulation(model), list(model.reactions), WILD, {r.id: DECOY for r in model.reactions})


def _get_solution(it, ev, c, args, kwargs):
    from .fvaform import _get_solution as g

    return g(it, ev, c, args, kwargs)


STUBS = {"cobra.core.solution.get_solution": _get_solution, "cobra.core.get_solution": _get_solution,
         "cobra.util.solver.interface_to_str": _interface_to_str,
         "cobra.flux_analysis.parsimonious.pfba": _pfba_decoy, "cobra.flux_analysis.pfba": _pfba_decoy,
         "cobra.util.solver.add_cons_vars_to_problem": lambda it, ev, c, a, k: a[0].add_cons_vars(a[1]),
         "cobra.util.solver.remove_cons_vars_from_problem": lambda it, ev, c, a, k: a[0].remove_cons_vars(a[1])}


def _run(what: str, thunk):
    try:
        return thunk()
    except Unknown as exc:
        raise AnalysisError(f"C06: {what} cannot be evaluated: {exc}")
    except (Unsupported, FUnsupported) as exc:
        raise AnalysisError(f"C06: {what} is outside the LP/frame model: {exc}")


def _interp(ctx) -> Interp:
    it = Interp(ctx.prog, NATIVE, FOLLOW, STUBS, globals_={"Zero": Lin()}, max_depth=12)
    return it


def _as(kind: str, model: ModelLP, ids: Optional[List[str]], objects: bool):
    if ids is None:
        return None
    if not objects:
        return list(ids)
    src = model.reactions if kind == "reaction" else model.genes
    return [src.get_by_id(i) for i in ids]


def check_deletions(ctx, rule: str) -> None:
    prog = ctx.prog
    multi = prog.func("cobra.flux_analysis.deletion", "_multi_deletion")
    problems: Dict[str, str] = {}
    n = 0
    scenarios = []
    for method in ("fba", "linear moma"):
        for objects in (False, True):
            scenarios.append(("single_reaction_deletion", "reaction", method, objects, [None]))
            scenarios.append(("single_reaction_deletion", "reaction", method, objects, [["R5", "R3", "R1"]]))
            scenarios.append(("single_gene_deletion", "gene", method, objects, [None]))
            scenarios.append(("single_gene_deletion", "gene", method, objects, [["gC", "gA"]]))
            scenarios.append(("double_reaction_deletion", "reaction", method, objects, [["R1", "R2"], ["R2", "R4", "R5", "R1"]]))
            scenarios.append(("double_reaction_deletion", "reaction", method, objects, [["R5", "R1"], None]))
            scenarios.append(("double_reaction_deletion", "reaction", method, objects, [None, ["R2", "R5"]]))
            scenarios.append(("double_gene_deletion", "gene", method, objects, [None, ["gD", "gA"]]))
            scenarios.append(("double_gene_deletion", "gene", method, objects, [None, None]))
            scenarios.append(("double_gene_deletion", "gene", method, objects, [["gA", "gB"], ["gB", "gD", "gA"]]))
    # an explicitly empty list requests nothing (it is not the same as an omitted one)
    # the same ids in both lists, in a different order: every unordered pair and every single is requested
    scenarios.append(("double_reaction_deletion", "reaction", "fba", False, [["R1", "R2", "R4"], ["R4", "R1", "R2"]]))
    scenarios.append(("double_gene_deletion", "gene", "fba", False, [["gA", "gB", "gD"], ["gD", "gA", "gB"]]))
    scenarios.append(("single_reaction_deletion", "reaction", "fba", False, [[]]))
    scenarios.append(("single_gene_deletion", "gene", "fba", False, [[]]))
    scenarios.append(("double_reaction_deletion", "reaction", "fba", False, [["R1", "R2"], []]))
    scenarios.append(("double_gene_deletion", "gene", "fba", True, [[], ["gA"]]))
    # the same through the worker pool (stand-in pool: initializer, tasks one after the other, unordered results)
    pooled = {len(scenarios): 2, len(scenarios) + 1: 3, len(scenarios) + 2: 2, len(scenarios) + 3: 2}
    scenarios.append(("single_gene_deletion", "gene", "linear moma", False, [None]))
    scenarios.append(("double_reaction_deletion", "reaction", "fba", True, [["R1", "R2"], ["R2", "R4", "R5", "R1"]]))
    scenarios.append(("single_reaction_deletion", "reaction", "linear moma", False, [["R5", "R3", "R1"]]))
    scenarios.append(("double_gene_deletion", "gene", "fba", False, [None, ["gD", "gA"]]))
    # ... and with the tasks taken in the opposite order (a task set has no order of its own)
    from ..interp import PoolStub

    backwards = {len(scenarios), len(scenarios) + 1}
    pooled.update({len(scenarios): 2, len(scenarios) + 1: 2})
    scenarios.append(("double_gene_deletion", "gene", "fba", False, [None, ["gD", "gA"]]))
    scenarios.append(("double_reaction_deletion", "reaction", "fba", True, [["R1", "R2"], ["R2", "R4", "R5", "R1"]]))
    for s_idx, (fname, kind, method, objects, lists) in enumerate(scenarios):
        PoolStub.reverse_tasks = s_idx in backwards
        model = _model()
        oracle: _Oracle = model.script
        it = _interp(ctx)
        fn = prog.func("cobra.flux_analysis.deletion", fname)
        args = [_as(kind, model, l, objects) for l in lists]
        kwargs: Dict[str, Any] = {"method": method, "processes": pooled.get(s_idx, 1)}
        if len(lists) == 2 and lists[0] is None and lists[1] is not None:
            kwargs[("reaction" if kind == "reaction" else "gene") + "_list2"] = args[1]
            args = []
        if method != "fba":
            ref = SolutionLP(Formulation(model), list(model.reactions), WILD, {"R1": 1.5, "R2": -2.25, "R3": 0.875, "R4": -0.5, "R5": 0.0})
            kwargs["solution"] = ref
        what = f"{fname}({', '.join('None' if l is None else str(l) for l in lists)}, as {'objects' if objects else 'ids'}, method={method!r}{', processes=' + str(kwargs['processes']) if kwargs['processes'] > 1 else ''})" + (" with the tasks taken in the opposite order" if s_idx in backwards else "")
        try:
            out = _run(what, lambda: it.call(fn, [model] + args, kwargs))
        except EvalRaise as exc:
            problems.setdefault("raise", f"{what} raises {exc.exc_type}")
            continue
        n += 1
        if not isinstance(out, Frame) or not {"ids", "growth", "status"} <= set(out.cols):
            raise AnalysisError(f"C06: {what} did not return a deletion table")
        universe = [r.id for r in model.reactions] if kind == "reaction" else list(GENES)
        l1 = lists[0] if lists[0] is not None else universe
        if len(lists) == 1:
            want = {frozenset({a}) for a in l1}
        else:
            # documented defaults: list1 None = all entities, list2 None = list1
            l2 = lists[1] if lists[1] is not None else l1
            want = {frozenset({a, b}) for a in l1 for b in l2}
        got = [frozenset(x) for x in out.cols["ids"]]
        if sorted(map(sorted, got)) != sorted(map(sorted, want)):
            dup = sorted(sorted(x) for x in set(got) if got.count(x) > 1)
            miss = sorted(sorted(x) for x in want - set(got))
            extra = sorted(sorted(x) for x in set(got) - want)
            problems.setdefault("rows", f"{what}: " + "; ".join(t for t in (f"missing {miss[:3]}" if miss else "", f"repeated {dup[:3]}" if dup else "", f"not requested {extra[:3]}" if extra else "") if t))
            continue
        for ids, growth, status in zip(got, out.cols["growth"], out.cols["status"]):
            ko = ids if kind == "reaction" else _implied(ids)
            val, st = _value(ko)
            same = (growth != growth and val != val) or growth == val
            if method != "fba" and st != "optimal":
                same = True  # the statement fixes the MOMA growth only where a minimal-adjustment solution exists
            if not same or status != st:
                problems.setdefault("values", f"{what}: the row of {sorted(ids)} reports growth {growth!r} / {status!r}; the model with {sorted(ko) or 'nothing'} forced to zero gives {val!r} / {st!r}" + (" (for MOMA the growth is the old objective's value at the minimal-adjustment solution, not the distance)" if method != "fba" else ""))
                break
        # what was solved
        for ko, k, f in oracle.log:
            if k == "odd-bounds":
                problems.setdefault("solved", f"{what}: a model with bounds other than the original ones or (0, 0) is solved")
            if method == "fba" and k != "fba":
                problems.setdefault("solved", f"{what}: a problem with objective {f.objective_name} is solved")
            if method != "fba" and k != "moma":
                problems.setdefault("solved", f"{what}: a problem without the MOMA set-up is solved")
        if method != "fba":
            for ko, k, f in oracle.log:
                if k == "moma" and any(isinstance(b, (int, float)) and abs(abs(b) - DECOY) < 1e-12 for c_ in f.constraints for b in (c_.lb, c_.ub)):
                    problems.setdefault("solved", f"{what}: the minimal-adjustment problem is built around a reference the function computed itself (pFBA of the model), not around the solution it was given: the reported growth values are adjustments to the wrong flux distribution")
                    break
        solved = [ko for ko, k, f in oracle.log]
        need = {(ids if kind == "reaction" else _implied(ids)) for ids in want}
        if not need <= set(solved):
            problems.setdefault("solved", f"{what}: no model with exactly {sorted(sorted(x) for x in need - set(solved))[0]} forced to zero is solved")
        # restored
        if model._stack or any((r.lower_bound, r.upper_bound) != model.original_bounds[r.id] for r in model.reactions) or any(not g.functional for g in model.genes) or model.solver.objective.name != "original_objective" or model.solver.constraints.items:
            problems.setdefault("restore", f"{what}: the model is left modified")
    for clause, text in (("rows", "exactly one row per requested unordered combination"), ("values", "growth/status are those of the model with exactly the implied reactions forced to zero (NaN when infeasible; MOMA: the old objective's value)"),
                         ("solved", "every solve is the original (or MOMA) problem with exactly the implied reactions at (0, 0)"), ("restore", "model, bounds and gene flags restored"), ("raise", "no scenario raises")):
        if clause in problems:
            ctx.bad(rule, multi, f"deletion {clause}", problems[clause])
        else:
            ctx.ok(rule, multi, f"deletion {clause}", f"{n} scenarios: {text}")
    PoolStub.reverse_tasks = False
    # essential genes / reactions
    bad = None
    m_n = 0
    for fname, kind in (("find_essential_reactions", "reaction"), ("find_essential_genes", "gene")):
        for threshold, neutral, stale in ((None, True, False), (0.3, True, False), (0.0, True, False), (None, False, False), (1.5, True, False), (0.3, True, True), (None, True, True), (0.0, False, True)):   # 1.5: above the wild-type optimum - every entity is essential
            # `neutral=False`: a fully reduced network - no single deletion leaves the growth untouched
            saved = dict(GROWTH)
            if not neutral:
                GROWTH[frozenset({"R2"})] = 0.6
                GROWTH[frozenset({"R5"})] = 0.007
                GROWTH[frozenset({"R1", "R2"})] = 0.2
            try:
                model = _model()
                if stale:
                    # the solver still holds the (optimal) solution of an earlier optimisation under other conditions,
                    # in which nothing carried flux: what the model's reactions report as their flux says nothing
                    # about the problem that is asked about now
                    model.last_fluxes = {r.id: 0.0 for r in model.reactions}
                    model.solver.status = "optimal"
                it = _interp(ctx)
                fn = prog.func("cobra.flux_analysis.variability", fname)
                what = f"{fname}(threshold={threshold})" + ("" if neutral else " on a network without a neutral deletion") + (" on a model whose solver holds the solution of an earlier optimisation" if stale else "")
                try:
                    out = _run(what, lambda: it.call(fn, [model], {"threshold": threshold, "processes": 1}))
                except EvalRaise as exc:
                    bad = f"{what} raises {exc.exc_type}"
                    break
                m_n += 1
                thr = WILD * 1e-2 if threshold is None else threshold
                universe = [r.id for r in model.reactions] if kind == "reaction" else list(GENES)
                want = set()
                for x in universe:
                    val, st = _value(frozenset({x}) if kind == "reaction" else _implied(frozenset({x})))
                    if st != "optimal" or val < thr:
                        want.add(x)
                got = {getattr(o, "id", o) for o in (out or [])}
                if got != want:
                    bad = f"{what} returns {sorted(got)}; the entities whose deletion drops growth below {thr:g} (1% of the wild-type optimum {WILD:g} by default) or makes the model infeasible are {sorted(want)}"
                    break
            finally:
                GROWTH.clear()
                GROWTH.update(saved)
        if bad:
            break
    ess = prog.func("cobra.flux_analysis.variability", "find_essential_genes")
    if bad:
        ctx.bad(rule, ess, "essential entities", bad)
    else:
        ctx.ok(rule, ess, "essential entities", f"{m_n} scenarios: exactly the entities whose single deletion gives growth below the threshold or no optimum (explicit threshold 0 honoured)")
