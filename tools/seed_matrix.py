#!/usr/bin/env python3
"""Maintenance helper: print the seeded-change detection matrix (markdown) from /verif/seeded/*/meta.json."""
import glob, json, os
rows = []
first = later = miss = 0
for d in sorted(glob.glob('/verif/seeded/*')):
    mp = os.path.join(d, 'meta.json')
    if not os.path.exists(mp):
        continue
    m = json.load(open(mp))
    det = m.get('detected_by', {})
    title = m.get('title', '').split(' - ', 1)[-1].replace('|', '/')
    caught = ', '.join(f"{r} (check {p})" if p != m['property'] else r for p, r in det.items()) or '**not caught** - ' + m.get('why_missed', 'see text')
    hist = m.get('history', '')
    if isinstance(hist, list):
        hist = ' / '.join(hist)
    as_stood = (not hist) or hist.startswith(('reported by the rule set as it stood', 'reported by C0', 'reported by C1', 'not reported under')) and 'now' not in hist
    if not det:
        miss += 1
    elif not as_stood:
        later += 1
    else:
        first += 1
    rows.append(f"| {os.path.basename(d)} | {title[:100]} | {caught} | {hist.replace('|', '/') if hist else 'reported by the rule set as it stood'} |")
print("| seed | change | reported by | history |\n|------|--------|-------------|---------|")
print("\n".join(rows))
n = len(rows)
print(f"\n{n} confirmed seeded changes: {first} reported by the rule sets as they stood when the change arrived, {later} reported after a clause was added or a stand-in model extended (see history), {miss} not reported.")
