"""Formulation-level check of minimal_medium (C18): the problem posed, and how the answer becomes a medium."""
from __future__ import annotations

from typing import Any, Dict, List, Optional, Tuple

from .. import AnalysisError
from ..absint import EvalRaise, Unknown
from ..framemodel import Frame, Index, Ser
from ..framemodel import Unsupported as FUnsupported
from ..interp import Interp
from ..lpmodel import Cons, Container, Formulation, Lin, ModelLP, Obj, Problem, ReactionList, RxnLP, SolutionLP, SolverStub, Unsupported, Var
from .fvaform import _canon

NATIVE = (Lin, Var, Cons, Obj, Problem, Container, SolverStub, RxnLP, ReactionList, SolutionLP, ModelLP, Formulation, Frame, Ser, Index)
FOLLOW = ["cobra.medium.minimal_medium.minimal_medium", "cobra.medium.minimal_medium.add_linear_obj", "cobra.medium.minimal_medium.add_mip_obj", "cobra.medium.minimal_medium._as_medium"]
TOL = 1e-7
# id: (written as `met <=>`?, bounds, flux in the solver's answer)
EX = {
    "EX_a": (True, (-10.0, 1000.0), -2.5),     # imports 2.5
    "EX_b": (False, (-1000.0, 20.0), 3.0),     # written the other way round: imports 3
    "EX_c": (True, (0.0, 1000.0), 4.0),        # exports 4
    "EX_d": (True, (-5.0, 0.0), -3e-9),        # below the tolerance
    "EX_e": (False, (-50.0, 0.5), -6.0),       # written the other way round: exports 6
    "EX_f": (True, (-2000.0, 30.0), 0.0),
}
OBJECTIVE = {"BIO": 1.0}


class _Tol:
    class tolerances:
        feasibility = TOL


class _Met:
    def __init__(self, mid):
        self.id = mid


NATIVE = NATIVE + (_Tol, _Tol.tolerances, _Met)


def _model(feasible: bool) -> ModelLP:
    rxns = [RxnLP("BIO", 0.0, 1000.0), RxnLP("INT", -1000.0, 1000.0)]
    for rid, (as_reactant, b, _) in EX.items():
        r = RxnLP(rid, *b)
        r.boundary = True
        r.reactants = [_Met(rid[3:])] if as_reactant else []
        r.products = [] if as_reactant else [_Met(rid[3:])]
        rxns.append(r)
    for r in rxns[:2]:
        r.reactants, r.products = [_Met("x")], [_Met("y")]
    m = ModelLP(rxns, OBJECTIVE, "max")
    m.exchanges = [r for r in rxns if r.id.startswith("EX_")]
    m.original_bounds = {r.id: (r.lower_bound, r.upper_bound) for r in rxns}
    m.solver.configuration = _Tol
    m.solver.update = lambda: None
    log: List[Formulation] = []

    def script(model, f):
        log.append(f)
        fluxes = {"BIO": 0.4, "INT": 1.0}
        fluxes.update({rid: fl for rid, (_, _, fl) in EX.items()})
        return (5.5 if feasible else float("nan")), fluxes, ("optimal" if feasible else "infeasible")

    m.script = script
    m.log = log
    return m


def _run(what: str, thunk):
    try:
        return thunk()
    except Unknown as exc:
        raise AnalysisError(f"C18: {what} cannot be evaluated: {exc}")
    except (Unsupported, FUnsupported) as exc:
        raise AnalysisError(f"C18: {what} is outside the LP/frame model: {exc}")


def _import_var(model, rid):
    r = model.reactions.get_by_id(rid)
    return r.reverse_variable if EX[rid][0] else r.forward_variable


def _import_bound(bounds, rid):
    lb, ub = bounds
    return max(-lb, 0.0) if EX[rid][0] else max(ub, 0.0)


def check_minimal_medium(ctx, rule: str) -> None:
    prog = ctx.prog
    fn = prog.func("cobra.medium.minimal_medium", "minimal_medium")
    lin = prog.func("cobra.medium.minimal_medium", "add_linear_obj")
    mip = prog.func("cobra.medium.minimal_medium", "add_mip_obj")
    asm = prog.func("cobra.medium.minimal_medium", "_as_medium")
    problems: Dict[str, str] = {}
    n = 0
    for feasible in (True, False):
        for components in (False, True):
            for exports in (False, True):
                for open_ex in (False, True, 500, 0.5):
                    model = _model(feasible)
                    it = Interp(prog, NATIVE, FOLLOW, {"cobra.medium.boundary_types.find_boundary_types": lambda it_, ev, c, a, k: list(a[0].exchanges)}, globals_={"Zero": Lin(), "OPTIMAL": "optimal"})
                    kwargs = {"min_objective_value": 0.25, "exports": exports, "minimize_components": components, "open_exchanges": open_ex}
                    what = f"minimal_medium(min_objective_value=0.25, exports={exports}, minimize_components={components}, open_exchanges={open_ex!r}) on a model whose solver reports {'an optimum' if feasible else 'infeasible'}"
                    try:
                        out = _run(what, lambda: it.call(fn, [model], kwargs))
                    except EvalRaise as exc:
                        problems.setdefault("raise", f"{what} raises {exc.exc_type}")
                        continue
                    n += 1
                    if not model.log:
                        problems.setdefault("problem", f"{what}: nothing is solved")
                        continue
                    f = model.log[-1]
                    # None exactly when there is no optimum
                    if feasible == (out is None):
                        problems.setdefault("none", f"{what} returns {'None' if out is None else 'a medium'}")
                        continue
                    # bounds in force
                    for rid, (as_reactant, b, _) in EX.items():
                        got = f.bounds[rid]
                        if open_ex is False:
                            want = b
                        else:
                            ob = 1000 if open_ex is True else open_ex
                            want = (-ob, ob)
                        if tuple(got) != tuple(want):
                            problems.setdefault("open", f"{what}: exchange {rid} is solved with bounds {got}, expected {want}")
                    for rid in ("BIO", "INT"):
                        if f.bounds[rid] != model.original_bounds[rid]:
                            problems.setdefault("open", f"{what}: the bounds of the non-exchange reaction {rid} are changed")
                    # growth constraint
                    bio = model.reactions.get_by_id("BIO")
                    hold = _canon({bio.forward_variable.name: 1.0, bio.reverse_variable.name: -1.0}, 0.25, None)
                    flux_names = {x.name for r in model.reactions for x in (r.forward_variable, r.reverse_variable)}
                    growth = []
                    indicator = {}
                    odd = []
                    for c in f.constraints:
                        terms = {v.name: k for v, k in c.expression.terms.items()}
                        if not terms:
                            if (c.lb is None or c.lb <= 0) and (c.ub is None or c.ub >= 0):
                                continue  # an empty placeholder row
                            odd.append(c)
                        elif set(terms) <= flux_names:
                            growth.append(_canon(terms, None if c.lb is None else c.lb - c.expression.const, None if c.ub is None else c.ub - c.expression.const))
                        else:
                            own = [x for x in terms if x not in flux_names]
                            rest = [x for x in terms if x in flux_names]
                            if len(own) == 1 and len(rest) == 1 and c.lb is None and c.ub is not None:
                                # k_v * v + k_i * ind <= ub
                                k_v, k_i = terms[rest[0]], terms[own[0]]
                                if k_v > 0 and k_i < 0 and c.ub - c.expression.const == 0:
                                    indicator[rest[0]] = (own[0], -k_i / k_v)
                                    continue
                            odd.append(c)
                    if growth != [hold]:
                        problems.setdefault("problem", f"{what}: the objective is not required to reach 0.25 (restrictions on the fluxes: {growth})")
                    if odd:
                        problems.setdefault("problem", f"{what}: constraint {odd[0].name} ({odd[0].lb} <= {odd[0].expression} <= {odd[0].ub}) is not part of the documented problem")
                    got_obj = {v.name: round(k, 9) for v, k in f.objective_terms.items() if k != 0}
                    if not components:
                        want_obj = {_import_var(model, rid).name: 1.0 for rid in EX}
                        if got_obj != want_obj or f.direction != "min" or indicator:
                            wrong = sorted(set(got_obj) ^ set(want_obj))
                            problems.setdefault("objective", f"{what}: the objective is {f.direction} {Lin(f.objective_terms)}; expected the minimised sum of the import variables (reverse variable of `met <=>`, forward variable of `<=> met` exchanges); differs in {wrong[:4]}")
                    else:
                        inds = {}
                        for rid in EX:
                            iv = _import_var(model, rid).name
                            if iv not in indicator:
                                problems.setdefault("objective", f"{what}: the import of {rid} is not tied to an indicator (import <= M x indicator)")
                                continue
                            ind, big_m = indicator[iv]
                            var = [v for v in f.variables if v.name == ind][0]
                            cap = _import_bound(f.bounds[rid], rid)
                            if big_m < cap:
                                problems.setdefault("bigm", f"{what}: the indicator of {rid} allows an import of at most {big_m:g} while its import bound is {cap:g}: the smallest medium may be cut off")
                            if var.type != "binary":
                                problems.setdefault("objective", f"{what}: the indicator of {rid} has type {var.type}")
                            inds[ind] = 1.0
                        extra = set(indicator) - {_import_var(model, rid).name for rid in EX}
                        if extra:
                            problems.setdefault("objective", f"{what}: indicators are attached to {sorted(extra)[:3]}, which are not import variables")
                        if "objective" not in problems and (got_obj != inds or f.direction != "min"):
                            problems.setdefault("objective", f"{what}: the objective is {f.direction} {Lin(f.objective_terms)}; expected the minimised number of indicators")
                    # the medium that is returned
                    if out is not None:
                        if not isinstance(out, Ser):
                            raise AnalysisError(f"C18: {what} returned {type(out).__name__}")
                        want_med = {}
                        for rid, (as_reactant, b, fl) in EX.items():
                            imp = -fl if as_reactant else fl
                            if abs(fl) < TOL:
                                continue
                            if imp > 0 or exports:
                                want_med[rid] = imp
                        got_med = dict(zip(out.index, out.values))
                        if got_med != want_med:
                            problems.setdefault("medium", f"{what}: returns {got_med}; the import fluxes of the solver's answer are {want_med}" + (" (exports as negative entries)" if exports else ""))
                    if model._stack or any((r.lower_bound, r.upper_bound) != model.original_bounds[r.id] for r in model.reactions) or model.solver.objective.name != "original_objective" or model.solver.constraints.items or model.solver.objective.direction != "max":
                        problems.setdefault("restore", f"{what}: the model is left modified")
    for clause, target, text in (("problem", fn, "the only restriction added is objective >= min_objective_value"), ("objective", lin, "linear: minimise the sum of the import variables; MIP: import <= M x binary indicator, minimise the number of indicators"),
                                 ("bigm", mip, "M is at least every import bound in force"), ("open", fn, "exchanges opened to +-bound only when asked (True = 1000, a number = that number), other reactions untouched"),
                                 ("medium", asm, "medium = import fluxes above the tolerance (exports negative when asked), by the orientation of each exchange"), ("none", fn, "None exactly when the solver reports no optimum"),
                                 ("restore", fn, "the model is restored"), ("raise", fn, "no scenario raises")):
        if clause in problems:
            ctx.bad(rule, target, f"minimal_medium {clause}", problems[clause])
        else:
            ctx.ok(rule, target, f"minimal_medium {clause}", f"{n} scenarios x {len(EX)} exchange classes: {text}")
