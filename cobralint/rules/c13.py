"""C13 - analyses leave the model exactly as they found it (scoping of effects)."""
from __future__ import annotations

import ast
from typing import Dict, List, Optional, Set, Tuple

from .. import AnalysisError
from ..cfg import describe_path, no_exc
from ..effects import CONST, FRESH, SELF, Eff
from ..program import ClassInfo, FuncInfo, Unit, ancestors, enclosing_stmt, norm, walk_local
from .common import analysis_owned_solver_object

EXPLANATION = (
    "Decided for every analysis entry point (the exported functions and classes of cobra.flux_analysis, "
    "cobra.medium, cobra.sampling, cobra.summary and Model.optimize/slim_optimize/summary, "
    "Reaction/Metabolite.summary, prune_unused_*): the interprocedural effect summary - every mutation of a "
    "model-owned cell (Python side or solver side) reachable through the call graph, with the provenance of "
    "the mutated object - must be empty once effects are discharged that are (i) made through a "
    "context-aware operation inside a `with <that model>` region, (ii) raw objective writes dominated by a "
    "reversible objective replacement in such a region, (iii) on objects created inside the call (private "
    "copies, new solver objects, same-name look-ups of objects just added), or (iv) a snapshot/restore pair "
    "whose restore post-dominates the write on normal AND exceptional exits. Also: result copies are taken "
    "outside temporary contexts; classes that keep a reference to the caller's model only touch it inside a "
    "context. NOT decided: equality of repeated results, solver basis/warm-start state, numerical effects."
)
ASSUMPTIONS = [
    "context-aware operations (functions that consult get_context, resettable setters) really are reversible: that is what the C03 rules decide",
    "effects executed in ProcessPool workers act on pickled copies of the model and cannot reach the caller's objects",
    "exceptional flow = explicit raise statements reachable through package calls (optlang/numpy failures are not modelled)",
]

ENTRY_PACKAGES = ["cobra.flux_analysis", "cobra.medium", "cobra.sampling", "cobra.summary"]
# exported names that are *documented* to modify the model they are given (not entry points)
DOCUMENTED_MODIFIERS = {
    "add_loopless": "documented to add the loopless constraints to the model",
    "add_moma": "documented to add the MOMA problem to the model",
    "add_room": "documented to add the ROOM problem to the model",
    "add_pfba": "documented to add the pFBA objective to the model",
}
EXTRA_ENTRIES = [
    ("cobra.core.model", "Model.optimize"),
    ("cobra.core.model", "Model.slim_optimize"),
    ("cobra.core.model", "Model.summary"),
    ("cobra.core.reaction", "Reaction.summary"),
    ("cobra.core.metabolite", "Metabolite.summary"),
    ("cobra.core.reaction", "Reaction.copy"),
    ("cobra.core.species", "Species.copy"),
    ("cobra.core.model", "Model.copy"),
    ("cobra.manipulation.delete", "prune_unused_metabolites"),
    ("cobra.manipulation.delete", "prune_unused_reactions"),
    ("cobra.flux_analysis.parsimonious", "pfba"),
    ("cobra.flux_analysis.reaction", "assess"),
    ("cobra.flux_analysis.reaction", "assess_component"),
    ("cobra.flux_analysis.reaction", "assess_precursors"),
    ("cobra.flux_analysis.reaction", "assess_products"),
    ("cobra.flux_analysis.gapfilling", "GapFiller"),
    ("cobra.flux_analysis.loopless", "loopless_fva_iter"),
    ("cobra.flux_analysis.phenotype_phase_plane", "production_envelope"),
    ("cobra.medium.boundary_types", "find_boundary_types"),
    ("cobra.medium.boundary_types", "find_external_compartment"),
    ("cobra.medium.boundary_types", "is_boundary_type"),
    ("cobra.util.solver", "linear_reaction_coefficients"),
    ("cobra.util.array", "create_stoichiometric_matrix"),
    ("cobra.util.array", "constraint_matrices"),
    ("cobra.core.solution", "get_solution"),
]
# one named construct each, with the reason (reproduced benign)
FROZEN_EXCEPTIONS: Dict[Tuple[str, str], str] = {}
MODEL_CELL_OWNERS = {"Model", "Reaction", "Metabolite", "Gene", "Species", "Group", "Object", "GPR", "DictList"}
SOLVER_CELL_PREFIXES = ("solver.", "var.", "cons.", "obj.", "config", "OModel", "OVar", "OCons", "OObj", "OConfig")


def is_model_cell(cell: str) -> bool:
    if cell.startswith(SOLVER_CELL_PREFIXES):
        return True
    owner = cell.split(".")[0]
    return owner in MODEL_CELL_OWNERS or owner == "?"


def _within_reaction_copy(ctx, e) -> bool:
    if e.fn.short == "Reaction.copy" or any(c[0].short == "Reaction.copy" for c in e.chain):
        return True
    # a private helper of Reaction that only Reaction.copy calls
    if e.fn.cls is not None and e.fn.cls.name == "Reaction" and e.fn.name.startswith("_") and not e.fn.name.startswith("__"):
        copy_fn = ctx.prog.func("cobra.core.reaction", "Reaction.copy")
        callers = [f for f in ctx.prog.all_funcs() if any(isinstance(n, ast.Call) and isinstance(n.func, ast.Attribute) and n.func.attr == e.fn.name for n in ast.walk(f.node)) and f is not e.fn]
        return bool(callers) and all(f is copy_fn for f in callers)
    return False


def _reaction_copy_holds(ctx) -> bool:
    if not hasattr(ctx, "_reaction_copy_holds"):
        from . import c12

        class _Probe:
            prog, eff, inf, flow = ctx.prog, ctx.eff, ctx.inf, ctx.flow

            def __init__(self):
                self.failed = False

            def bad(self, *a, **k):
                self.failed = True

            def ok(self, *a, **k):
                pass

            def note(self, *a, **k):
                pass

        pr = _Probe()
        try:
            c12.check_reaction_copy(pr)
            ctx._reaction_copy_holds = not pr.failed
        except Exception:  # noqa: BLE001 - not evaluable: the scope reading stays armed
            ctx._reaction_copy_holds = False
    return ctx._reaction_copy_holds


def entry_points(ctx) -> List[Tuple[FuncInfo, str]]:
    prog = ctx.prog
    out: List[Tuple[FuncInfo, str]] = []
    seen: Set[int] = set()

    def add_fn(fn: FuncInfo, why: str) -> None:
        if id(fn) in seen:
            return
        seen.add(id(fn))
        out.append((fn, why))

    def add_class(ci: ClassInfo, why: str) -> None:
        for c in prog.mro(ci):
            for name, ms in c.methods.items():
                for m in ms:
                    if name.startswith("_") and name not in ("__init__", "__call__"):
                        if not name.startswith("_" + c.name):  # name-mangled privates are helpers
                            continue
                        continue
                    add_fn(m, f"{why} (method of {ci.name})")

    for pkg in ENTRY_PACKAGES:
        unit = prog.unit(pkg)
        for local in sorted(unit.imports):
            sym = prog.resolve(unit, local)
            if isinstance(sym, FuncInfo):
                if local in DOCUMENTED_MODIFIERS:
                    continue
                add_fn(sym, f"exported by {pkg}")
            elif isinstance(sym, ClassInfo):
                add_class(sym, f"exported by {pkg}")
    for mod, short in EXTRA_ENTRIES:
        if short in prog.classes and prog.classes[short].unit.modname == mod:
            add_class(prog.classes[short], "listed entry")
            continue
        fn = prog.func(mod, short)
        add_fn(fn, "listed entry")
    return out


def run(ctx) -> None:
    prog, eff = ctx.prog, ctx.eff
    ctx.rule("C13.scope", "T2: every effect on a caller-visible model reachable from an analysis entry point is scoped (context / private copy / covered / restored on all exits)", floor=65)
    ctx.rule("C13.copyafter", "T6: a model copy handed out as a result is taken outside every temporary `with model` region", floor=3)
    ctx.rule("C13.private", "T8: analysis classes work on a private copy; a kept reference to the caller's model is only used inside a context", floor=2)
    ctx.rule("C13.helpers", "worker globals alias the initialiser's argument; documented modifiers are not analysis entry points", floor=2)

    # analyses that edit the caller's model inside a context of their own (gap filling adds reactions, deletions knock
    # out) rely on the context giving everything back: the replay oracle is a necessary condition here (shared with C03)
    from . import replayform

    ctx.rule("C03.replay", "bounded evaluation: reversible operations run inside a context on a stand-in model by the real methods; leaving the block gives everything back (shared with C03)", floor=1)
    ctx.guard(replayform.check_replay, ctx, "C03.replay", "restore")
    entries = entry_points(ctx)
    if len(entries) < 60:
        raise AnalysisError(f"only {len(entries)} analysis entry points found")
    reported: Dict[Tuple[str, str], List[str]] = {}
    origin_eff: Dict[Tuple[str, str], Eff] = {}
    for fn, why in entries:
        summ = eff.summary(fn)
        bad: List[Eff] = []
        for e in summ:
            if not is_model_cell(e.cell):
                continue
            roots = visible_roots(ctx, fn, e)
            if not roots:
                continue
            bad.append(e)
        if not bad:
            ctx.ok("C13.scope", fn, None, f"{why}: no unscoped effect on caller-visible state ({len(summ)} residual effect(s) on private objects)")
            continue
        any_new = False
        for e in bad:
            key = (e.fn.qualname.replace("cobra.", "", 1), norm(enclosing_stmt(e.node)))
            if key in FROZEN_EXCEPTIONS:
                continue
            if analysis_owned_solver_object(e.fn, e.recv):
                continue  # a row/column the analysis added itself (literal-prefixed name), inside its own context
            if e.cell.endswith("._model") and _within_reaction_copy(ctx, e) and _reaction_copy_holds(ctx):
                # Reaction.copy detaches itself and its species for the deep copy and re-attaches them: the evaluated
                # clause C12.detach (object graph: every model pointer back where it was) decides that, however the
                # save / restore is spelled or factored into helpers
                continue
            reported.setdefault(key, []).append(fn.short)
            origin_eff.setdefault(key, e)
            any_new = True
        if not any_new:
            ctx.ok("C13.scope", fn, None, f"{why}: only frozen exceptions remain")
    for key, entry_names in reported.items():
        e = origin_eff[key]
        kind = "is not reversible (raw write)" if e.kind == "RAW" else "is reversible but happens outside every `with model` region"
        via = " <- ".join(f"{c[0].short}@L{getattr(c[1], 'lineno', 0)}" for c in e.chain[:5])
        ctx.bad(
            "C13.scope",
            e.fn,
            enclosing_stmt(e.node),
            f"{e.op} of {e.cell} {kind}; reaches the caller's model from entry point(s) {sorted(set(entry_names))[:4]}",
            path=via,
        )
    for key, reason in FROZEN_EXCEPTIONS.items():
        fn_q, construct = key
        # the exception must still name existing code (otherwise drop it from the table)
        short = fn_q.split(".")[-1]
        found = any(norm(enclosing_stmt(n)) == construct for f in prog.by_short.get(short, []) for n in walk_local(f.node) if isinstance(n, ast.Call))
        ctx.note(f"frozen exception {'in use' if found else 'NOT MATCHED'}: {fn_q} `{construct}` - {reason}")

    check_copy_after(ctx)
    check_private(ctx)
    check_helpers(ctx)
    check_restore_in_finally(ctx)
    ctx.rule("C13.fresh", "T6: reads of solver results are dominated by a solve made in the same call (repeatability)", floor=15)
    check_fresh(ctx)
    # the analyses clean up through `with model:`; when they are called inside a user's context their undo entries
    # must not leak into it: the replay is isolated (evaluated) or every undo callable is inert (shared with C03)
    from . import c03

    ctx.rule("C03.stack", "entering/leaving a context pushes/pops exactly one history and replays it in isolation (shared with C03)", floor=15)
    ctx.rule("C03.inert", "T3: registered undo callables register nothing into an enclosing (the user's) context (shared with C03)", floor=40)
    c03.check_stack(ctx)
    c03.check_inert(ctx, c03.all_registrations(ctx))
    ctx.rule("C03.exact", "set_objective: replacement is atomic and always registers its reset inside a context (shared with C03)", floor=2)
    c03.check_objective_atomic(ctx)



# ---------------------------------------------------------------------------------------- fresh results
RESULT_MODULES = ("cobra.flux_analysis.", "cobra.medium.", "cobra.summary.", "cobra.sampling.")
SOLVE_METHODS = {"slim_optimize", "optimize"}


def _result_reads(fn: FuncInfo) -> List[ast.AST]:
    """Reads of what the last solve left in the solver: status, objective value, primal values, fluxes."""
    out = []
    for n in walk_local(fn.node):
        if not isinstance(n, ast.Attribute) or not isinstance(n.ctx, ast.Load):
            continue
        base = norm(n.value)
        if n.attr == "status" and base.endswith("solver"):
            out.append(n)
        elif n.attr == "value" and base.endswith("objective"):
            out.append(n)
        elif n.attr in ("primal", "dual"):
            out.append(n)
        elif n.attr in ("flux", "reduced_cost", "shadow_price") and isinstance(n.value, ast.Name):
            out.append(n)
    return out


def _solve_nodes(ctx, fn: FuncInfo, g, solving: Set[str]):
    nodes = set()
    for n in walk_local(fn.node):
        if not isinstance(n, ast.Call):
            continue
        hit = isinstance(n.func, ast.Attribute) and n.func.attr in SOLVE_METHODS
        if not hit:
            for callee, _ in ctx.inf.call_targets(fn, n):
                if callee.qualname in solving:
                    hit = True
        if hit:
            nodes |= {x for x in g.node_containing(n) if x.kind != "with_exit"}
    return nodes


def check_fresh(ctx) -> None:
    """Repeatability: an analysis must not read what an *earlier* solve left in the solver. Every read of the solver's
    status / objective value / primal values / fluxes is dominated by a solve made in the same call (or the function
    is only ever called right after one)."""
    prog = ctx.prog
    fns = [f for f in prog.all_funcs() if f.qualname.startswith(RESULT_MODULES) and isinstance(f.node, ast.FunctionDef)]
    # functions that solve on every path to a normal exit
    solving: Set[str] = set()
    changed = True
    while changed:
        changed = False
        for f in fns:
            if f.qualname in solving:
                continue
            g = ctx.flow.cfg(f)
            sn = _solve_nodes(ctx, f, g, solving)
            if not sn:
                continue
            exits = [x for x in g.nodes if x.kind == "exit"]
            if exits and g.reaches_without(exits, lambda x: x in sn, edge_ok=no_exc) is None:
                solving.add(f.qualname)
                changed = True
    # call sites
    sites: Dict[str, List[Tuple[FuncInfo, ast.Call]]] = {}
    for f in fns:
        for n in walk_local(f.node):
            if isinstance(n, ast.Call):
                for callee, _ in ctx.inf.call_targets(f, n):
                    sites.setdefault(callee.qualname, []).append((f, n))
                # functions handed to map / imap
                for a in n.args:
                    if isinstance(a, ast.Name):
                        sym = prog.resolve(f.unit, a.id)
                        if isinstance(sym, FuncInfo):
                            sites.setdefault(sym.qualname, []).append((f, n))
    memo: Dict[str, bool] = {}

    def entry_solved(f: FuncInfo, stack=()) -> bool:
        if f.qualname in memo:
            return memo[f.qualname]
        if f.qualname in stack:
            return False
        cs = sites.get(f.qualname, [])
        ok = bool(cs)
        for caller, call in cs:
            g = ctx.flow.cfg(caller)
            sn = _solve_nodes(ctx, caller, g, solving)
            at = {x for x in g.node_containing(call) if x.kind != "with_exit"}
            if g.reaches_without(at, lambda x: x in sn, edge_ok=no_exc) is None:
                continue
            if entry_solved(caller, stack + (f.qualname,)):
                continue
            ok = False
            break
        memo[f.qualname] = ok
        return ok

    for f in fns:
        reads = _result_reads(f)
        if not reads:
            continue
        g = ctx.flow.cfg(f)
        sn = _solve_nodes(ctx, f, g, solving)
        for r in reads:
            at = {x for x in g.node_containing(r) if x.kind != "with_exit"}
            if not at:
                continue
            at_solve = at & sn  # e.g. `x = model.optimize().status`
            w = None if at_solve else g.reaches_without(at, lambda x: x in sn, edge_ok=no_exc)
            if w is None:
                ctx.ok("C13.fresh", f, enclosing_stmt(r), f"`{norm(r)}` is read after a solve made in this call")
            elif entry_solved(f):
                ctx.ok("C13.fresh", f, enclosing_stmt(r), f"`{norm(r)}`: every call of {f.short} follows a solve in its caller")
            else:
                ctx.bad("C13.fresh", f, enclosing_stmt(r), f"`{norm(r)}` can be read before any solve of this call: it then holds whatever an earlier optimisation (under other bounds, another objective, a rolled-back context) left in the solver, so the same call on the same model gives different results", path=describe_path(w))


def check_restore_in_finally(ctx) -> None:
    """A temporary change that is put back by hand both in an `except <SomeError>` handler and after the try block is a
    `finally` written for one exception type only: any other exception (a KeyboardInterrupt, a warning turned into an
    error, a solver exception of another class) leaves the temporary state in the model."""
    prog = ctx.prog
    n = 0
    for fn in prog.all_funcs():
        if not fn.qualname.startswith(("cobra.core.model", "cobra.flux_analysis.", "cobra.medium.", "cobra.sampling.", "cobra.summary.", "cobra.util.solver")):
            continue
        for t in walk_local(fn.node):
            if not isinstance(t, ast.Try):
                continue
            n += 1
            blk = None
            p_ = getattr(t, "_parent", None)
            for field in ("body", "orelse", "finalbody"):
                b = getattr(p_, field, None)
                if isinstance(b, list) and t in b:
                    blk = b
            after = blk[blk.index(t) + 1:] if blk else []
            after_assigns = {norm(s_) for s_ in after[:3] if isinstance(s_, ast.Assign)}
            for h in t.handlers:
                names = [] if h.type is None else [norm(x).split(".")[-1] for x in (h.type.elts if isinstance(h.type, ast.Tuple) else [h.type])]
                if h.type is None or "BaseException" in names or "Exception" in names:
                    continue
                same = [s_ for s_ in h.body if isinstance(s_, ast.Assign) and norm(s_) in after_assigns and any(isinstance(x, ast.Raise) for x in h.body)]
                if same:
                    ctx.bad("C13.scope", fn, same[0], f"`{norm(same[0])}` restores the model in `except {', '.join(names)}` and again after the try block, but for no other exception: use `finally` - an exception of another type leaves the temporary state (objective direction, bounds ...) in the caller's model")
    ctx.ok("C13.scope", None, "try statements", f"{n} try statements in model/analysis code: no restore that is limited to particular exception types", nontrivial=False)


def visible_roots(ctx, fn: FuncInfo, e: Eff) -> Set[tuple]:
    """Roots of an effect through which the *caller* can observe it."""
    eff = ctx.eff
    top = eff._top(fn)
    out: Set[tuple] = set()
    for r in e.roots:
        if r in (FRESH, CONST):
            continue
        if r[0] == "param":
            out.add(r)
        elif r == SELF:
            if top.cls is not None and eff._is_object_like(top.cls):
                out.add(r)
            # state of an analysis object itself (sampler counters, summary frames) is not model state
            elif top.name == "__init__":
                continue
            elif is_model_cell(e.cell) and not e.cell.split(".")[0] in ("?",):
                # self of a non-model class mutating a model cell directly: via self attribute roots
                continue
        elif r[0] == "selfattr":
            prov = eff.class_attr_prov(top.cls, r[1]) if top.cls else frozenset()
            if any(x[0] == "ctor" for x in prov):
                out.add(r)
            elif any(x[0] in ("unknown", "global", "param") for x in prov):
                out.add(r)
        elif r[0] == "ctor":
            out.add(r)
        elif r[0] == "global":
            out.add(r)
        elif r[0] == "unknown":
            # an object of unknown origin: only counted when the cell is positively a model cell
            if e.cell.split(".")[0] in MODEL_CELL_OWNERS or e.cell.startswith(SOLVER_CELL_PREFIXES):
                out.add(r)
        elif r[0] == "nparam":
            continue
    return out


def check_copy_after(ctx) -> None:
    """fastcc / prune_* / merge(inplace=False): the returned copy is taken outside temporary contexts."""
    prog, inf, eff = ctx.prog, ctx.inf, ctx.eff
    targets = [
        ("cobra.flux_analysis.fastcc", "fastcc"),
        ("cobra.manipulation.delete", "prune_unused_metabolites"),
        ("cobra.manipulation.delete", "prune_unused_reactions"),
        ("cobra.core.model", "Model.merge"),
    ]
    for mod, short in targets:
        fn = prog.func(mod, short)
        copies = []
        for n in walk_local(fn.node):
            if isinstance(n, ast.Call) and isinstance(n.func, ast.Attribute) and n.func.attr == "copy" and inf.is_type(fn, n.func.value, "Model"):
                copies.append(n)
            elif isinstance(n, ast.Call) and isinstance(n.func, ast.Name) and n.func.id == "deepcopy" and n.args and inf.is_type(fn, n.args[0], "Model"):
                copies.append(n)
        if not copies:
            ctx.bad("C13.copyafter", fn, fn.node, "the function no longer builds its result from a copy of the model it was given")
            continue
        for c in copies:
            regions = eff.with_regions(fn, c)
            if regions:
                ctx.bad("C13.copyafter", fn, enclosing_stmt(c), "the result copy is taken inside a temporary `with model` region: it captures the temporary modifications (and shares the open context)")
            else:
                ctx.ok("C13.copyafter", fn, enclosing_stmt(c), "copy taken outside temporary contexts")


def check_private(ctx) -> None:
    prog, inf, eff = ctx.prog, ctx.inf, ctx.eff
    for cname, attr in (("HRSampler", "model"), ("GapFiller", "model"), ("GapFiller", "universal")):
        ci = prog.cls(cname)
        prov = eff.class_attr_prov(ci, attr)
        if not prov:
            raise AnalysisError(f"{cname}.{attr} is never assigned: anchor vanished")
        foreign = [r for r in prov if r not in (FRESH, CONST)]
        init = prog.find_method(ci, "__init__")[0]
        site = None
        for n in walk_local(init.node):
            if isinstance(n, ast.Assign) and any(isinstance(t, ast.Attribute) and t.attr == attr and norm(t.value) == init.self_name for t in n.targets):
                site = n
        if foreign:
            ctx.bad("C13.private", init, site, f"{cname}.{attr} aliases an object received from the caller ({sorted(foreign)}): everything the class does to it is done to the caller's model")
        else:
            ctx.ok("C13.private", init, site, f"{cname}.{attr} is a private copy")
    # a kept reference to the caller's model (GapFiller.original_model) is only *used* inside `with`
    gf = prog.cls("GapFiller")
    prov = eff.class_attr_prov(gf, "original_model")
    if prov:
        for ms in gf.methods.values():
            for m in ms:
                for n in walk_local(m.node):
                    if isinstance(n, ast.Attribute) and n.attr == "original_model" and isinstance(n.ctx, ast.Load):
                        st = enclosing_stmt(n)
                        in_with_item = any(isinstance(a, ast.withitem) for a in ancestors(n))
                        if in_with_item or eff.with_regions(m, n):
                            ctx.ok("C13.private", m, st, "caller's model used as/inside a context")
                        else:
                            # a plain read is harmless; flagged only when passed on or mutated
                            par = getattr(n, "_parent", None)
                            if isinstance(par, ast.Attribute) and isinstance(getattr(par, "_parent", None), ast.Call):
                                ctx.bad("C13.private", m, st, "the caller's model kept by the class is used outside a `with` region")


def check_helpers(ctx) -> None:
    prog, eff = ctx.prog, ctx.eff
    setters = eff.global_setters()
    for (mod, g), lst in sorted(setters.items()):
        for fn, p in lst:
            ctx.ok("C13.helpers", fn, f"global {g} = {p}", f"worker global {mod}.{g} aliases parameter '{p}' of {fn.short}", nontrivial=False)
    for name, reason in DOCUMENTED_MODIFIERS.items():
        fns = prog.by_short.get(name, [])
        if not fns:
            raise AnalysisError(f"documented modifier {name} not found")
        doc = ast.get_docstring(fns[0].node) or ""
        if "add" in doc.lower() or "modif" in doc.lower():
            ctx.ok("C13.helpers", fns[0], None, f"documented modifier: {reason}", nontrivial=False)
        else:
            ctx.bad("C13.helpers", fns[0], fns[0].node, "listed as a documented modifier but its docstring no longer says that it changes the model")
