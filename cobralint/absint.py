"""A small evaluator for guard expressions and straight-line fragments over finite domains.

It is *not* used to run the analysed program: rules hand it a fragment (a guard, the index
normalisation of one DictList method, the branches of ``update_variable_bounds``) together with
one representative per ordering class of the few quantities involved, and compare the outcome
with the table the rule states.  Anything outside the supported expression language makes the
instance "not analysable" (the rule then fails closed).
"""
from __future__ import annotations

import ast
import math
from typing import Any, Callable, Dict, List, Optional


class Unknown(Exception):
    """The fragment leaves the supported language (or depends on an opaque value)."""


class EvalRaise(Exception):
    def __init__(self, exc_type: str, node: Optional[ast.AST] = None):
        super().__init__(exc_type)
        self.exc_type = exc_type
        self.node = node


class EvalReturn(Exception):
    def __init__(self, value: Any):
        super().__init__("return")
        self.value = value


class Builtin:
    """A builtin function used as a value (`combine = any`)."""

    def __init__(self, name: str):
        self.name = name

    def __repr__(self):
        return f"<builtin {self.name}>"


class Opaque:
    """A value the evaluator knows nothing about."""

    def __init__(self, label: str = "?"):
        self.label = label

    def __repr__(self) -> str:
        return f"<opaque {self.label}>"


class LocalFunc:
    """A function defined inside the evaluated code (def or lambda); called with the evaluator's own semantics."""

    def __init__(self, node, env: Dict[str, Any]):
        self.node = node
        self.env = env  # the defining environment, by reference (closures see later assignments, as in Python)


class _Break(Exception):
    pass


class _Continue(Exception):
    pass


class Evaluator:
    def __init__(
        self,
        env: Dict[str, Any],
        on_call: Optional[Callable[["Evaluator", ast.Call], Any]] = None,
        on_attr: Optional[Callable[["Evaluator", ast.Attribute], Any]] = None,
        on_subscript: Optional[Callable[["Evaluator", ast.Subscript], Any]] = None,
        on_store: Optional[Callable[["Evaluator", ast.AST, Any], bool]] = None,
    ):
        self.env = dict(env)
        self.inplace_ops = False  # opt-in: `x -= y` calls x.__isub__ when x defines it
        self.strict_calls = False  # opt-in: a call nothing models is an analysis error instead of an opaque value
        self.on_call = on_call
        self.on_attr = on_attr
        self.on_subscript = on_subscript
        self.on_store = on_store
        self.trace: List[Any] = []
        self.globals_env: Optional[Dict[str, Any]] = None  # module-level names (interpreters that follow calls)
        self.global_names: set = set()
        self.on_name: Optional[Callable[["Evaluator", ast.Name], Any]] = None
        self.on_def: Optional[Callable[["Evaluator", ast.FunctionDef], Any]] = None
        self.loops = False  # interpret for-loops over concrete iterables (opt-in)
        self.with_binds_value = False  # interpret ``with X as m`` as ``m = X`` (opt-in)

    # ------------------------------------------------------------ expressions
    def eval(self, e: ast.AST) -> Any:
        m = getattr(self, "_e_" + e.__class__.__name__, None)
        if m is None:
            raise Unknown(f"unsupported expression {e.__class__.__name__}: {ast.unparse(e)[:60]}")
        return m(e)

    def truth(self, e: ast.AST) -> bool:
        v = self.eval(e)
        if isinstance(v, Opaque):
            raise Unknown(f"guard depends on {v!r}: {ast.unparse(e)[:60]}")
        return bool(v)

    def _e_Constant(self, e):
        return e.value

    def _e_Name(self, e):
        if e.id in self.global_names and self.globals_env is not None and e.id in self.globals_env:
            return self.globals_env[e.id]
        if e.id in self.env:
            return self.env[e.id]
        if self.globals_env is not None and e.id in self.globals_env:
            return self.globals_env[e.id]
        if self.on_name is not None:
            v = self.on_name(self, e)
            if v is not NotImplemented:
                return v
        if e.id in ("True", "False", "None"):
            return {"True": True, "False": False, "None": None}[e.id]
        if e.id in ("any", "all"):
            return Builtin(e.id)
        return Opaque(e.id)

    def _e_Tuple(self, e):
        return tuple(self.eval(x) for x in e.elts)

    def _e_List(self, e):
        return [self.eval(x) for x in e.elts]

    def _e_Dict(self, e):
        out = {}
        for k, v in zip(e.keys, e.values):
            if k is None:
                raise Unknown("dict unpacking")
            kk = self.eval(k)
            try:
                out[kk] = self.eval(v)
            except TypeError:
                raise Unknown("unhashable key")
        return out

    def _e_UnaryOp(self, e):
        v = self.eval(e.operand)
        if isinstance(e.op, ast.Not):
            if isinstance(v, Opaque):
                raise Unknown(f"not {v!r}")
            return not v
        if isinstance(v, Opaque):
            return Opaque(f"-{v.label}")
        if isinstance(e.op, ast.USub):
            return -v
        if isinstance(e.op, ast.UAdd):
            return +v
        if isinstance(e.op, ast.Invert):
            return ~v
        raise Unknown("unary op")

    def _e_BinOp(self, e):
        l = self.eval(e.left)
        r = self.eval(e.right)
        if isinstance(l, Opaque) or isinstance(r, Opaque):
            return Opaque(ast.unparse(e)[:30])
        try:
            if isinstance(e.op, ast.Add):
                return l + r
            if isinstance(e.op, ast.Sub):
                return l - r
            if isinstance(e.op, ast.Mult):
                return l * r
            if isinstance(e.op, ast.Div):
                return l / r
            if isinstance(e.op, ast.FloorDiv):
                return l // r
            if isinstance(e.op, ast.Mod):
                return l % r
            if isinstance(e.op, ast.BitOr):
                return l | r
            if isinstance(e.op, ast.BitAnd):
                return l & r
        except ZeroDivisionError:
            raise EvalRaise("ZeroDivisionError", e)
        except ValueError:
            # stand-ins raise what the library they model raises (numpy: operands could not be broadcast)
            raise EvalRaise("ValueError", e)
        except TypeError:
            raise Unknown(f"binop on incompatible values: {ast.unparse(e)[:80]}")
        raise Unknown("binary op")

    def _e_BoolOp(self, e):
        if isinstance(e.op, ast.And):
            v = True
            for x in e.values:
                v = self.eval(x)
                if isinstance(v, Opaque):
                    raise Unknown(f"and over {v!r}")
                if not v:
                    return v
            return v
        v = False
        for x in e.values:
            v = self.eval(x)
            if isinstance(v, Opaque):
                raise Unknown(f"or over {v!r}")
            if v:
                return v
        return v

    def _e_Compare(self, e):
        left = self.eval(e.left)
        for op, right_e in zip(e.ops, e.comparators):
            right = self.eval(right_e)
            if isinstance(op, (ast.Is, ast.IsNot)):
                if isinstance(left, Opaque) or isinstance(right, Opaque):
                    # ``x is None`` for an opaque x: unknown
                    raise Unknown(f"identity test on opaque value: {ast.unparse(e)[:60]}")
                res = (left is right) if isinstance(op, ast.Is) else (left is not right)
            else:
                if isinstance(left, Opaque) or isinstance(right, Opaque):
                    raise Unknown(f"comparison on opaque value: {ast.unparse(e)[:60]}")
                try:
                    if isinstance(op, ast.Eq):
                        res = left == right
                    elif isinstance(op, ast.NotEq):
                        res = left != right
                    elif isinstance(op, ast.Lt):
                        res = left < right
                    elif isinstance(op, ast.LtE):
                        res = left <= right
                    elif isinstance(op, ast.Gt):
                        res = left > right
                    elif isinstance(op, ast.GtE):
                        res = left >= right
                    elif isinstance(op, ast.In):
                        res = left in right
                    elif isinstance(op, ast.NotIn):
                        res = left not in right
                    else:
                        raise Unknown("comparison operator")
                except TypeError:
                    raise EvalRaise("TypeError", e)
            if getattr(res, "_absint_elementwise", False):
                if len(e.ops) != 1:
                    raise Unknown("chained comparison on an elementwise value")
                return res
            if not res:
                return False
            left = right
        return True

    def _e_IfExp(self, e):
        return self.eval(e.body) if self.truth(e.test) else self.eval(e.orelse)

    def _e_Attribute(self, e):
        if self.on_attr is not None:
            v = self.on_attr(self, e)
            if v is not NotImplemented:
                return v
        return Opaque(ast.unparse(e)[:40])

    def _e_Subscript(self, e):
        if self.on_subscript is not None:
            v = self.on_subscript(self, e)
            if v is not NotImplemented:
                return v
        base = self.eval(e.value)
        if isinstance(base, Opaque):
            return Opaque(ast.unparse(e)[:40])
        if isinstance(e.slice, ast.Slice):
            lo = self.eval(e.slice.lower) if e.slice.lower else None
            hi = self.eval(e.slice.upper) if e.slice.upper else None
            if isinstance(lo, Opaque) or isinstance(hi, Opaque):
                return Opaque("slice")
            return base[lo:hi]
        idx = self.eval(e.slice)
        if isinstance(idx, Opaque):
            return Opaque(ast.unparse(e)[:40])
        try:
            return base[idx]
        except IndexError:
            raise EvalRaise("IndexError", e)
        except KeyError:
            raise EvalRaise("KeyError", e)
        except TypeError:
            raise Unknown("subscript on unsupported value")

    def _e_Slice(self, e):
        parts = [self.eval(x) if x is not None else None for x in (e.lower, e.upper, e.step)]
        if any(isinstance(x, Opaque) for x in parts):
            return Opaque("slice")
        return slice(*parts)

    def _e_JoinedStr(self, e):
        parts: Optional[List[str]] = []
        for v in e.values:
            if isinstance(v, ast.Constant):
                if parts is not None:
                    parts.append(str(v.value))
                continue
            plain = isinstance(v, ast.FormattedValue) and v.conversion == -1 and v.format_spec is None
            try:
                # embedded expressions are evaluated even when the text is not needed: they may raise
                x = self.eval(v.value) if isinstance(v, ast.FormattedValue) else Opaque("fstring")
            except Unknown:
                x = Opaque("fstring")
            if isinstance(x, Opaque) or not isinstance(x, (str, int, float, bool, type(None))):
                parts = None
            elif not plain:
                # conversion (!r / !s) and format spec on a concrete value: what Python does
                spec = self.eval(v.format_spec) if v.format_spec is not None else ""
                if not isinstance(spec, str):
                    parts = None
                    continue
                if v.conversion == ord("r"):
                    x = repr(x)
                elif v.conversion == ord("s"):
                    x = str(x)
                elif v.conversion == ord("a"):
                    x = ascii(x)
                try:
                    text = format(x, spec)
                except (ValueError, TypeError) as exc:
                    raise EvalRaise(type(exc).__name__, e)
                if parts is not None:
                    parts.append(text)
            elif parts is not None:
                parts.append(str(x))
        return Opaque("fstring") if parts is None else "".join(parts)

    # comprehensions over concrete (finite) iterables
    def _comp(self, generators, emit):
        out = []

        def rec(i):
            if i == len(generators):
                out.append(emit())
                return
            g = generators[i]
            it = self.eval(g.iter)
            if isinstance(it, Opaque):
                raise Unknown("comprehension over an opaque iterable")
            try:
                items = list(it)
            except TypeError:
                raise Unknown("comprehension over a non-iterable")
            saved = dict(self.env)
            for x in items:
                self.assign(g.target, x)
                if all(self.truth(c) for c in g.ifs):
                    rec(i + 1)
            # restore in place: the environment object is shared (module-level evaluation, closures)
            self.env.clear()
            self.env.update(saved)

        rec(0)
        return out

    def _e_ListComp(self, e):
        return self._comp(e.generators, lambda: self.eval(e.elt))

    def _e_GeneratorExp(self, e):
        return self._comp(e.generators, lambda: self.eval(e.elt))

    def _e_SetComp(self, e):
        return set(self._comp(e.generators, lambda: self.eval(e.elt)))

    def _e_DictComp(self, e):
        return dict(self._comp(e.generators, lambda: (self.eval(e.key), self.eval(e.value))))

    def _e_Set(self, e):
        return {self.eval(x) for x in e.elts}

    def _e_Call(self, e):
        if self.on_call is not None:
            v = self.on_call(self, e)
            if v is not NotImplemented:
                return v
        f = e.func
        if isinstance(f, ast.Name) and isinstance(self.env.get(f.id), LocalFunc):
            return self._call_local(self.env[f.id], e)
        if isinstance(f, ast.Name) and f.id == "isinstance" and len(e.args) == 2:
            v = self.eval(e.args[0])
            table = {"bool": bool, "int": int, "float": float, "str": str, "list": list, "dict": dict, "tuple": tuple, "set": set}
            names = [x.id for x in (e.args[1].elts if isinstance(e.args[1], ast.Tuple) else [e.args[1]]) if isinstance(x, ast.Name)]
            if not isinstance(v, Opaque) and names and all(n in table for n in names) and (v is None or type(v) in table.values()):
                return isinstance(v, tuple(table[n] for n in names))
            raise Unknown("isinstance on a value outside the finite domain")
        if isinstance(f, ast.Name) and isinstance(self.env.get(f.id), Builtin):
            f = ast.copy_location(ast.Name(id=self.env[f.id].name, ctx=ast.Load()), f)
        if isinstance(f, ast.Name) and f.id in ("any", "all") and len(e.args) == 1 and not e.keywords:
            items = self.eval(e.args[0])
            if isinstance(items, Opaque):
                return Opaque(f.id)
            items = list(items)
            if not all(isinstance(x, (bool, int, float, str, type(None))) for x in items):
                return Opaque(f.id)
            return any(items) if f.id == "any" else all(items)
        if isinstance(f, ast.Name):
            args = [self.eval(a) for a in e.args]
            if any(isinstance(a, Opaque) for a in args):
                if f.id in ("isinstance", "hasattr"):
                    raise Unknown(f"{f.id} on opaque value")
                return Opaque(f.id)
            try:
                if f.id == "min":
                    return min(*args) if len(args) > 1 else min(args[0])
                if f.id == "max":
                    return max(*args) if len(args) > 1 else max(args[0])
                if f.id == "abs":
                    return abs(args[0])
                if f.id == "len":
                    return len(args[0])
                if f.id == "isinf":
                    return math.isinf(args[0])
                if f.id == "float":
                    return float(args[0])
                if f.id == "int":
                    return int(args[0])
                if f.id == "bool":
                    return bool(args[0])
                if f.id == "range":
                    return range(*args)
                if f.id == "slice":
                    return slice(*args)
                if f.id == "isinstance":
                    raise Unknown("isinstance")
                if f.id == "sum":
                    return sum(args[0])
                if f.id == "sorted" and len(args) == 1:
                    return sorted(args[0])
                if f.id == "reversed" and len(args) == 1:
                    return list(reversed(args[0]))
                if f.id in ("list", "tuple", "set", "dict", "OrderedDict", "frozenset"):
                    return {"list": list, "tuple": tuple, "set": set, "dict": dict, "OrderedDict": dict, "frozenset": frozenset}[f.id](*args)
                if f.id == "str":
                    return str(args[0])
                if f.id == "type" and f.id not in self.env and len(args) == 1 and not e.keywords:
                    return type(args[0])
                if f.id == "format" and f.id not in self.env and not e.keywords and args and all(type(a) in (str, int, float, bool) for a in args):
                    try:
                        return format(*args)
                    except (ValueError, TypeError) as exc:
                        raise EvalRaise(type(exc).__name__, e)
                if f.id in ("ord", "chr", "hex", "oct", "bin", "repr", "round", "divmod", "pow") and f.id not in self.env and not e.keywords:
                    if f.id == "repr" and not isinstance(args[0], (str, int, float, bool, type(None), tuple, list)):
                        raise Unknown("repr of a value outside the finite domain")
                    return {"ord": ord, "chr": chr, "hex": hex, "oct": oct, "bin": bin, "repr": repr, "round": round, "divmod": divmod, "pow": pow}[f.id](*args)
                if f.id == "iter" and len(args) == 1 and "iter" not in self.env:
                    return iter(list(args[0]))
                if f.id == "next" and args and "next" not in self.env and not e.keywords:
                    src = args[0]
                    if isinstance(e.args[0], ast.GeneratorExp) and isinstance(src, list):
                        src = iter(src)  # generator expressions are evaluated eagerly: a one-shot use sees the first item
                    if not hasattr(src, "__next__"):
                        raise EvalRaise("TypeError", e)
                    try:
                        return next(src)
                    except StopIteration:
                        if len(args) > 1:
                            return args[1]
                        raise EvalRaise("StopIteration", e)
                if f.id == "zip":
                    return list(zip(*args))
                if f.id == "enumerate":
                    return list(enumerate(*args))
            except (TypeError, ValueError):
                raise Unknown(f"call {f.id} on unsupported values")
        if isinstance(f, ast.Attribute) and isinstance(f.value, ast.Name) and f.value.id == "math" and f.attr == "isinf":
            a = self.eval(e.args[0])
            if isinstance(a, Opaque):
                return Opaque("isinf")
            return math.isinf(a)
        if self.strict_calls:
            root = f
            while isinstance(root, (ast.Attribute, ast.Call, ast.Subscript)):
                root = root.func if isinstance(root, ast.Call) else root.value
            if isinstance(root, ast.Name) and root.id.lower() in ("logger", "logging", "log", "warnings"):
                for a_ in e.args:
                    self.eval(a_)
                return None  # logging has no effect on the model
            raise Unknown(f"call `{ast.unparse(e)[:70]}` is not modelled")
        return Opaque(ast.unparse(e)[:40])

    def _call_local(self, lf: "LocalFunc", e: ast.Call):
        a = lf.node.args
        if a.vararg or a.kwarg or a.posonlyargs:
            raise Unknown("local function with *args/**kwargs")
        names = [x.arg for x in a.args]
        env = dict(lf.env)
        defaults = dict(zip(names[len(names) - len(a.defaults):], a.defaults))
        for x, d in zip(a.kwonlyargs, a.kw_defaults):
            names.append(x.arg)
            if d is not None:
                defaults[x.arg] = d
        bound: Dict[str, Any] = {}
        if len(e.args) > len(a.args):
            raise EvalRaise("TypeError", e)
        for n, arg in zip([x.arg for x in a.args], e.args):
            if isinstance(arg, ast.Starred):
                raise Unknown("starred argument")
            bound[n] = self.eval(arg)
        for k in e.keywords:
            if k.arg is None or k.arg not in names or k.arg in bound:
                raise Unknown("keyword argument of a local function")
            bound[k.arg] = self.eval(k.value)
        early = getattr(lf, "early_defaults", None)
        for n in names:
            if n not in bound:
                if early is not None and n in early:
                    bound[n] = early[n]
                    continue
                if n not in defaults:
                    raise EvalRaise("TypeError", e)
                bound[n] = Evaluator(lf.env, self.on_call, self.on_attr, self.on_subscript, self.on_store).eval(defaults[n])
        env.update(bound)
        sub = Evaluator(env, self.on_call, self.on_attr, self.on_subscript, self.on_store)
        sub.loops, sub.with_binds_value, sub.globals_env, sub.on_name, sub.on_def = self.loops, self.with_binds_value, self.globals_env, self.on_name, self.on_def
        sub.inplace_ops = self.inplace_ops
        sub.strict_calls = self.strict_calls
        sub.trace = self.trace
        if hasattr(self, "fn"):
            sub.fn = self.fn  # type: ignore[attr-defined]
        if isinstance(lf.node, ast.Lambda):
            return sub.eval(lf.node.body)
        try:
            sub.run([st for st in lf.node.body if not (isinstance(st, ast.Expr) and isinstance(st.value, ast.Constant))])
        except EvalReturn as r:
            return r.value
        return None

    def apply_local(self, lf: "LocalFunc", args=(), kwargs=None):
        """Call a local function with already evaluated arguments."""
        names = {}
        call = ast.Call(func=ast.Name(id="<local>", ctx=ast.Load()), args=[], keywords=[])
        saved = dict(self.env)
        try:
            for i, v in enumerate(args):
                names[f"__arg{i}"] = v
                call.args.append(ast.Name(id=f"__arg{i}", ctx=ast.Load()))
            for k, v in (kwargs or {}).items():
                names[f"__kw_{k}"] = v
                call.keywords.append(ast.keyword(arg=k, value=ast.Name(id=f"__kw_{k}", ctx=ast.Load())))
            self.env.update(names)
            return self._call_local(lf, call)
        finally:
            for k in names:
                if k in saved:
                    self.env[k] = saved[k]
                else:
                    self.env.pop(k, None)

    def _e_Lambda(self, e):
        lf = LocalFunc(e, self.env)
        # default values are evaluated when the lambda is created (lambda gene=g: ... binds the gene of this round)
        a = e.args
        names = [x.arg for x in a.posonlyargs + a.args]
        early = {}
        for n, d in zip(names[len(names) - len(a.defaults):], a.defaults):
            early[n] = self.eval(d)
        for x, d in zip(a.kwonlyargs, a.kw_defaults):
            if d is not None:
                early[x.arg] = self.eval(d)
        lf.early_defaults = early
        return lf

    # ------------------------------------------------------------- statements
    def run(self, stmts: List[ast.stmt]) -> None:
        for s in stmts:
            self.stmt(s)

    def assign(self, target: ast.AST, value: Any) -> None:
        if self.on_store is not None and self.on_store(self, target, value):
            return
        if isinstance(target, ast.Name):
            if target.id in self.global_names and self.globals_env is not None:
                self.globals_env[target.id] = value
            else:
                self.env[target.id] = value
        elif isinstance(target, (ast.Tuple, ast.List)):
            if isinstance(value, Opaque):
                for t in target.elts:
                    self.assign(t, Opaque("unpacked"))
            else:
                try:
                    vals = list(value)
                except TypeError:
                    raise Unknown("unpacking a non-sequence")
                stars = [i for i, t in enumerate(target.elts) if isinstance(t, ast.Starred)]
                if len(stars) == 1:
                    # head, *rest, tail = values
                    i, after = stars[0], len(target.elts) - stars[0] - 1
                    if len(vals) < len(target.elts) - 1:
                        raise EvalRaise("ValueError", target)
                    for t, v in zip(target.elts[:i], vals[:i]):
                        self.assign(t, v)
                    self.assign(target.elts[i].value, vals[i:len(vals) - after])
                    for t, v in zip(target.elts[i + 1:], vals[len(vals) - after:]):
                        self.assign(t, v)
                    return
                if len(vals) != len(target.elts):
                    raise EvalRaise("ValueError", target)
                for t, v in zip(target.elts, vals):
                    self.assign(t, v)
        else:
            # attribute / subscript stores are recorded, not interpreted
            self.trace.append(("store", target, value))

    def stmt(self, s: ast.stmt) -> None:
        if isinstance(s, ast.Assign):
            v = self.eval(s.value)
            for t in s.targets:
                self.assign(t, v)
        elif isinstance(s, ast.AnnAssign):
            if s.value is not None:
                self.assign(s.target, self.eval(s.value))
        elif isinstance(s, ast.AugAssign):
            iname = {ast.Add: "__iadd__", ast.Sub: "__isub__", ast.Mult: "__imul__", ast.BitOr: "__ior__", ast.BitAnd: "__iand__"}.get(type(s.op))
            if iname and self.inplace_ops:
                # an object that defines the in-place operator is changed in place (lists, sets, stand-ins with __isub__)
                left = self.eval(_as_load(s.target))
                if not isinstance(left, (Opaque, int, float, str, tuple, bool, type(None))):
                    try:
                        meth = getattr(left, iname)
                    except AttributeError:
                        meth = None
                    if meth is not None:
                        right = self.eval(s.value)
                        if isinstance(right, Opaque):
                            raise Unknown("in-place operation with an opaque operand")
                        try:
                            res = meth(right)
                        except ValueError:
                            raise EvalRaise("ValueError", s)
                        except KeyError:
                            raise EvalRaise("KeyError", s)
                        if res is not NotImplemented:
                            self.assign(s.target, res)
                            return
            fake = ast.BinOp(left=_as_load(s.target), op=s.op, right=s.value)
            self.assign(s.target, self.eval(fake))
        elif isinstance(s, ast.Expr):
            self.eval(s.value)
        elif isinstance(s, ast.If):
            if self.truth(s.test):
                self.run(s.body)
            else:
                self.run(s.orelse)
        elif isinstance(s, ast.Return):
            raise EvalReturn(self.eval(s.value) if s.value is not None else None)
        elif isinstance(s, ast.Raise):
            name = "Exception"
            if s.exc is not None:
                e = s.exc.func if isinstance(s.exc, ast.Call) else s.exc
                name = ast.unparse(e).split(".")[-1]
                if isinstance(e, ast.Name) and e.id in self.env and hasattr(self.env[e.id], "exc_name"):
                    # the class was looked up first: `cls = TABLE.get(status, Default)` ... `raise cls(..)`
                    name = self.env[e.id].exc_name
            raise EvalRaise(name, s)
        elif isinstance(s, ast.Pass):
            pass
        elif isinstance(s, ast.FunctionDef) and self.on_def is not None:
            self.env[s.name] = self.on_def(self, s)
        elif isinstance(s, ast.FunctionDef) and not s.decorator_list:
            self.env[s.name] = LocalFunc(s, self.env)
        elif isinstance(s, ast.Global) and self.globals_env is not None:
            self.global_names.update(s.names)
        elif isinstance(s, ast.For) and self.loops:
            it = self.eval(s.iter)
            if isinstance(it, Opaque):
                raise Unknown(f"loop over an opaque iterable: {ast.unparse(s.iter)[:60]}")
            # Python's own iterator protocol: a list that is changed while it is iterated shifts under the loop (elements
            # are skipped or seen twice), a dict or set that changes size raises - as in the evaluated program
            try:
                iterator = iter(it)
            except TypeError:
                raise Unknown("loop over a non-iterable")
            broke = False
            while True:
                try:
                    x = next(iterator)
                except StopIteration:
                    break
                except RuntimeError:
                    raise EvalRaise("RuntimeError", s)
                self.assign(s.target, x)
                try:
                    self.run(s.body)
                except _Break:
                    broke = True
                    break
                except _Continue:
                    continue
            if not broke:
                self.run(s.orelse)
        elif isinstance(s, ast.Try) and self.loops:
            try:
                try:
                    self.run(s.body)
                except EvalRaise as exc:
                    for h in s.handlers:
                        names = []
                        if h.type is not None:
                            names = [ast.unparse(t).split(".")[-1] for t in (h.type.elts if isinstance(h.type, ast.Tuple) else [h.type])]
                        if h.type is None or exc.exc_type in names or "Exception" in names or "BaseException" in names:
                            if h.name:
                                self.env[h.name] = Opaque("exception")
                            self.run(h.body)
                            break
                    else:
                        raise
                else:
                    self.run(s.orelse)
            finally:
                self.run(s.finalbody)
        elif isinstance(s, ast.While) and self.loops:
            rounds = 0
            broke = False
            while self.truth(s.test):
                rounds += 1
                if rounds > 64:
                    raise Unknown("while loop does not terminate within 64 rounds in the model")
                try:
                    self.run(s.body)
                except _Break:
                    broke = True
                    break
                except _Continue:
                    continue
            if not broke:
                self.run(s.orelse)
        elif isinstance(s, ast.Break) and self.loops:
            raise _Break()
        elif isinstance(s, ast.Continue) and self.loops:
            raise _Continue()
        elif isinstance(s, ast.With) and self.with_binds_value:
            # ``with X as m`` binds m to X itself (true for cobra.Model, whose __enter__ returns self);
            # only interpreters that model the context object enable this
            entered = []
            try:
                for item in s.items:
                    v = self.eval(item.context_expr)
                    if getattr(v, "_absint_context", False):
                        v = v._absint_enter()
                        entered.append(v)
                    if item.optional_vars is not None:
                        self.assign(item.optional_vars, v)
                self.run(s.body)
            finally:
                for v in reversed(entered):
                    v._absint_exit()
        else:
            raise Unknown(f"unsupported statement {s.__class__.__name__}")


def _as_load(t: ast.AST) -> ast.AST:
    if isinstance(t, ast.Name):
        return ast.Name(id=t.id, ctx=ast.Load())
    if isinstance(t, ast.Attribute):
        return ast.Attribute(value=t.value, attr=t.attr, ctx=ast.Load())
    if isinstance(t, ast.Subscript):
        return ast.Subscript(value=t.value, slice=t.slice, ctx=ast.Load())
    raise Unknown("augmented assignment target")


def eval_guard(test: ast.AST, env: Dict[str, Any], **hooks) -> Optional[bool]:
    """Truth value of a guard under ``env`` or None when it cannot be decided."""
    try:
        return Evaluator(env, **hooks).truth(test)
    except (Unknown, EvalRaise):
        return None
