"""Helpers shared by the rule sets."""
from __future__ import annotations

import ast
from typing import Callable, Iterable, Iterator, List, Optional, Sequence, Set, Tuple

from .. import AnalysisError
from ..cfg import CFG, Node, describe_path, no_exc
from ..program import FuncInfo, enclosing_stmt, norm, parent, walk_local


def calls_in(node: ast.AST) -> Iterator[ast.Call]:
    """Call nodes inside ``node`` without entering nested defs/lambdas."""
    stack = [node]
    while stack:
        n = stack.pop()
        if isinstance(n, ast.Call):
            yield n
        for c in ast.iter_child_nodes(n):
            if isinstance(c, (ast.FunctionDef, ast.AsyncFunctionDef, ast.Lambda, ast.ClassDef)):
                continue
            stack.append(c)


def sub_nodes(node: ast.AST) -> Iterator[ast.AST]:
    stack = [node]
    while stack:
        n = stack.pop()
        yield n
        for c in ast.iter_child_nodes(n):
            if isinstance(c, (ast.FunctionDef, ast.AsyncFunctionDef, ast.Lambda, ast.ClassDef)):
                continue
            stack.append(c)


def node_part(g_node: Node) -> Optional[ast.AST]:
    """The AST fragment a CFG node evaluates (header expression for compound statements)."""
    return g_node.ast


def nodes_where(g: CFG, pred: Callable[[ast.AST], bool], kinds=("stmt", "test", "loop", "with_enter")) -> List[Node]:
    """CFG nodes whose own fragment contains an AST node satisfying ``pred``."""
    out = []
    for n in g.nodes:
        if n.kind not in kinds or n.ast is None:
            continue
        frag = n.ast
        if n.kind == "with_enter":
            frags = [i.context_expr for i in frag.items]
        else:
            frags = [frag]
        hit = False
        for f in frags:
            for sub in sub_nodes(f):
                if pred(sub):
                    hit = True
                    break
            if hit:
                break
        if hit:
            out.append(n)
    return out


def passes_on_all_paths(
    g: CFG,
    anchors: Sequence[Node],
    blockers: Set[Node],
    exits: Sequence[Node],
    edge_ok=lambda a, b, l: True,
    before_ok: bool = True,
) -> Optional[List[Node]]:
    """T1: every entry->exit path through an anchor passes a blocker (before or after it).

    Returns a witness path (list of nodes) violating this, or None."""
    for a in anchors:
        if a in blockers:
            continue
        after = g.escapes([a], lambda n: n in blockers, exits, edge_ok=edge_ok)
        if after is None:
            continue
        if before_ok:
            before = g.reaches_without([a], lambda n: n in blockers, edge_ok=edge_ok)
            if before is None:
                continue
            return before + after[1:] if after and before and after[0] is before[-1] else before + after
        return [a] + after
    return None


def is_name(e: ast.AST, name: str) -> bool:
    return isinstance(e, ast.Name) and e.id == name


def attr_chain(e: ast.AST) -> List[str]:
    out = []
    while isinstance(e, ast.Attribute):
        out.append(e.attr)
        e = e.value
    if isinstance(e, ast.Name):
        out.append(e.id)
    else:
        out.append("<expr>")
    return list(reversed(out))


def const_str(e: ast.AST) -> Optional[str]:
    if isinstance(e, ast.Constant) and isinstance(e.value, str):
        return e.value
    return None


def find_assigns(fn: FuncInfo, name: str) -> List[ast.AST]:
    out = []
    for n in walk_local(fn.node):
        if isinstance(n, ast.Assign):
            for t in n.targets:
                if isinstance(t, ast.Name) and t.id == name:
                    out.append(n)
    return out
