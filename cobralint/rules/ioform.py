"""C11 - the dict form (and with it JSON and YAML, which serialise exactly this dict) evaluated as a round trip.

`model_to_dict` and `model_from_dict` (with every helper they call) are evaluated by the analyser's interpreter on a
stand-in model that covers the attributes the property lists: identifiers, stoichiometry, bounds (infinite, zero, above
the default), objective coefficients of either sign, gene rules, compartments, names, formulas, charges (0 is not
"no charge"), subsystems, notes and annotations with nested values, an unnamed model. Checked: the dict consists of
JSON types only (no sets, no non-finite floats - the JSON writer uses allow_nan=False), loading does not change the
dict it is given, the loaded model says what the saved one said (list order kept, or sorted by id when asked), and a
second round trip reproduces the dict. No shape of the code is prescribed. Not covered here: the objective direction
(known finding K6, read separately), the pickle path (C12.state), YAML/JSON framing (C11.variants).
"""
from __future__ import annotations

import ast
import copy as _copy
from typing import Any, Dict, List, Optional

from .. import AnalysisError
from ..absint import EvalRaise, Unknown
from ..interp import Interp
from ..program import norm

MOD = "cobra.io.dict"
INF = float("inf")


class S:
    pass


class DL(S, list):
    def get_by_id(self, i):
        for x in self:
            if x.id == i:
                return x
        raise KeyError(i)

    def has_id(self, i):
        return any(x.id == i for x in self)

    def __contains__(self, x):
        return any(y is x or y.id == x for y in self)

    def extend(self, xs):
        for x in list(xs):
            self.append(x)

    def append(self, x):
        if any(y.id == x.id for y in self):
            raise ValueError("duplicate id")
        list.append(self, x)

    def __iadd__(self, xs):
        self.extend(xs)
        return self


class Base(S):
    def __hash__(self):
        return id(self)

    def __eq__(self, o):
        return self is o

    def __ne__(self, o):
        return self is not o

    def __str__(self):
        return str(self.id)

    def __repr__(self):
        return f"<{type(self).__name__} {self.id}>"


class Met(Base):
    def __init__(self, id=None, formula=None, name="", charge=None, compartment=None):
        self.id, self.formula, self.name, self.charge, self.compartment = id, formula, name, charge, compartment
        self._bound = 0.0
        self.notes: Dict = {}
        self.annotation: Dict = {}
        self._model = None
        self._reaction = set()


class Gene(Base):
    def __init__(self, id=None, name="", functional=True):
        self.id, self.name, self.functional = id, name, functional
        self.notes: Dict = {}
        self.annotation: Dict = {}
        self._model = None
        self._reaction = set()


class Rule(S):
    """A parsed rule: a mutable object (rename_genes / remove_genes edit it in place) that says its text."""

    def __init__(self, text=""):
        self.text = text

    def to_string(self, names=None):
        return self.text

    def __str__(self):
        return self.text

    def copy(self):
        return Rule(self.text)


class Rxn(Base):
    def __init__(self, id=None, name="", subsystem="", lower_bound=0.0, upper_bound=None):
        self.id, self.name, self.subsystem = id, name, subsystem
        self._lower_bound, self._upper_bound = lower_bound, 1000.0 if upper_bound is None else upper_bound
        self._metabolites: Dict = {}
        self._rule = Rule("")
        self.notes: Dict = {}
        self.annotation: Dict = {}
        self._model = None

    @staticmethod
    def _check(lb, ub):
        if lb > ub:
            raise ValueError(f"The lower bound must be less than or equal to the upper bound ({lb} <= {ub}).")

    @property
    def lower_bound(self):
        return self._lower_bound

    @lower_bound.setter
    def lower_bound(self, v):
        self._check(v, self._upper_bound)
        self._lower_bound = v

    @property
    def upper_bound(self):
        return self._upper_bound

    @upper_bound.setter
    def upper_bound(self, v):
        self._check(self._lower_bound, v)
        self._upper_bound = v

    @property
    def bounds(self):
        return (self._lower_bound, self._upper_bound)

    @bounds.setter
    def bounds(self, v):
        lb, ub = v
        self._check(lb, ub)
        self._lower_bound, self._upper_bound = lb, ub

    @property
    def metabolites(self):
        return dict(self._metabolites)

    def add_metabolites(self, mets, combine=True, reversibly=True):
        for m, c in dict(mets).items():
            if not isinstance(m, Met):
                if self._model is None:
                    raise KeyError(m)
                m = self._model.metabolites.get_by_id(str(m))
            self._metabolites[m] = (self._metabolites.get(m, 0) + c) if combine else c
            m._reaction.add(self)

    @property
    def _gpr(self):
        return self._rule.text

    @_gpr.setter
    def _gpr(self, v):
        self._rule = v if isinstance(v, Rule) else Rule(v)

    @property
    def gpr(self):
        return self._rule

    @gpr.setter
    def gpr(self, v):
        if not isinstance(v, Rule):
            raise TypeError("gpr must be a rule object")
        self._rule = v

    @property
    def gene_reaction_rule(self):
        return self._rule.text

    @gene_reaction_rule.setter
    def gene_reaction_rule(self, v):
        if not isinstance(v, str):
            raise TypeError("rule must be a string")
        self._rule = Rule(v)

    @property
    def genes(self):
        import re

        return frozenset(t for t in re.findall(r"[^\s()]+", self._gpr) if t not in ("and", "or"))

    @property
    def objective_coefficient(self):
        if self._model is None:
            return 0
        return self._model._objective.get(self.id, 0)

    @objective_coefficient.setter
    def objective_coefficient(self, v):
        if self._model is None:
            raise AttributeError("cannot assign objective to a missing model")
        self._model._objective[self.id] = v

    @property
    def reversibility(self):
        return self._lower_bound < 0 < self._upper_bound

    @property
    def reaction(self):
        return "<equation>"


class Model(Base):
    def __init__(self, id_or_model=None, name=None):
        self.id, self.name = id_or_model, name
        self.metabolites, self.reactions, self.genes, self.groups = DL(), DL(), DL(), DL()
        self._compartments: Dict = {}
        self.notes: Dict = {}
        self.annotation: Dict = {}
        self._objective: Dict[str, float] = {}
        self._contexts: List = []

    @property
    def compartments(self):
        out = {m.compartment: self._compartments.get(m.compartment, "") for m in self.metabolites if m.compartment is not None}
        out.update({k: v for k, v in self._compartments.items() if k in out})
        return out

    @compartments.setter
    def compartments(self, v):
        self._compartments.update(dict(v))

    def add_metabolites(self, mets):
        mets = mets if isinstance(mets, (list, tuple, set)) else [mets]
        for m in mets:
            if not isinstance(m.id, str) or not m.id:
                raise ValueError("invalid identifier")
            if not self.metabolites.has_id(m.id):
                m._model = self
                self.metabolites.append(m)

    def add_reactions(self, rxns):
        for r in list(rxns):
            if self.reactions.has_id(r.id):
                continue
            r._model = self
            for m in list(r._metabolites):
                if not self.metabolites.has_id(m.id):
                    self.add_metabolites([m])
            for gid in sorted(r.genes):
                if not self.genes.has_id(gid):
                    g = Gene(gid)
                    g._model = self
                    self.genes.append(g)
            self.reactions.append(r)


def _set_objective(it_, ev, c, args, kwargs):
    model, value = args[0], args[1]
    additive = kwargs.get("additive", args[2] if len(args) > 2 else False)
    if not additive:
        model._objective = {}
    for r, k in dict(value).items():
        if r._model is not model:
            raise EvalRaise("ValueError", c)
        model._objective[r.id] = model._objective.get(r.id, 0) + k


def build(named: bool = True, objective: bool = True) -> Model:
    m = Model("iJO_demo" if named else None, name="demo model" if named else None)
    glc = Met("glc__D_e", formula="C6H12O6", name="D-Glucose", charge=0, compartment="e")
    g6p = Met("g6p_c", formula="C6H11O9P", name="Glucose 6-phosphate", charge=-2, compartment="c")
    h = Met("h_c", formula="H", name="", charge=0.5, compartment="c")
    x = Met("x_c", compartment="c")
    nowhere = Met("y")   # a metabolite as the constructor leaves it: no compartment
    g6p.notes = {"curated": True, "refs": ["PMID:1", "PMID:2"]}
    g6p.annotation = {"chebi": ["CHEBI:4170", "CHEBI:10"], "kegg.compound": "C00092"}
    glc.annotation = {"sbo": "SBO:0000247"}
    m.add_metabolites([g6p, glc, h, x, nowhere])      # deliberately not in id order
    g1, g2 = Gene("b0002", name="thrA"), Gene("b0001")
    g1.annotation = {"ncbigene": ["945803"]}
    g2.notes = {"n": 1}
    for g in (g1, g2):
        g._model = m
        m.genes.append(g)
    specs = [
        ("PTS", "glucose transport", {glc: -1.0, g6p: 1.0}, (-INF, INF), "b0001 and b0002", "Transport", 1.0),
        ("HEX", "", {g6p: -1.0, h: 2.0, x: -0.5}, (0.0, 1000.0), "", "", 0),
        ("BACK", "runs backwards only", {x: 1.0}, (-5.0, 0.0), "b0002", "", -0.5),
        ("FORCED", "forced high", {h: -1.0}, (2000.0, 3000.0), "b0001 or b0002", "Other", 0),
        ("FIXED0", "closed", {x: -1.0, h: 1.0, nowhere: 1.0}, (0.0, 0.0), "", "", 0),
        ("UP", "only upper open", {glc: 1.0}, (0.0, INF), "", "", 0),
        ("DOWN", "only lower open", {glc: -1.0}, (-INF, 0.0), "", "", 0),
        ("HALF", "lower open, upper finite", {h: 1.0}, (-INF, 12.5), "", "", 0),
    ]
    for rid, name, st, (lb, ub), rule, subsystem, coef in specs:
        r = Rxn(rid, name=name, subsystem=subsystem)
        r.bounds = (lb, ub)
        r._metabolites = dict(st)
        r._gpr = rule
        if rid == "PTS":
            r.notes = {"confidence": 3, "evidence": {"level": "high", "sources": ["a", "b"], "reviewer": None}, "flags": [None, 1, True]}
            r.annotation = {"rhea": ["RHEA:1", "RHEA:2"], "ec-code": "2.7.1.199"}
        m.add_reactions([r])
        if coef and objective:
            m._objective[rid] = coef
    m._compartments = {"c": "cytosol", "e": ""}
    m.notes = {"created": "2020", "tags": ["a", "b"]}
    m.annotation = {"taxonomy": "511145"}
    return m


def say(m: Model, sort: bool) -> Dict[str, Any]:
    """What a model says, by identifiers."""
    def order(xs):
        return sorted(xs, key=lambda o: o.id) if sort else list(xs)

    out: Dict[str, Any] = {"model.id": m.id, "model.name": m.name, "model.compartments": dict(m.compartments), "model.notes": m.notes, "model.annotation": m.annotation}
    out["metabolites"] = [x.id for x in order(m.metabolites)]
    out["genes"] = [x.id for x in order(m.genes)]
    out["reactions"] = [x.id for x in order(m.reactions)]
    for x in m.metabolites:
        out[f"metabolite {x.id}"] = {"name": x.name, "compartment": x.compartment, "charge": x.charge, "formula": x.formula, "notes": x.notes, "annotation": x.annotation, "model": x._model is m}
    for x in m.genes:
        out[f"gene {x.id}"] = {"name": x.name, "notes": x.notes, "annotation": x.annotation, "model": x._model is m}
    for x in m.reactions:
        out[f"reaction {x.id}"] = {"name": x.name, "stoichiometry": {k.id: v for k, v in x._metabolites.items()}, "own metabolites": all(k._model is m and m.metabolites.get_by_id(k.id) is k for k in x._metabolites),
                                    "bounds": x.bounds, "rule": x._gpr, "subsystem": x.subsystem, "notes": x.notes, "annotation": x.annotation, "objective coefficient": m._objective.get(x.id, 0), "model": x._model is m}
    return out


def _json_problem(v, path="dict") -> Optional[str]:
    if v is None or isinstance(v, (str, bool, int)):
        return None
    if isinstance(v, float):
        return None if v == v and v not in (INF, -INF) else f"{path} is the float {v!r} (the JSON writer runs with allow_nan=False)"
    if isinstance(v, dict):
        for k, x in v.items():
            if not isinstance(k, str):
                return f"{path} has the key {k!r}, which is no string"
            p = _json_problem(x, f"{path}[{k!r}]")
            if p:
                return p
        return None
    if isinstance(v, (list, tuple)):
        for i, x in enumerate(v):
            p = _json_problem(x, f"{path}[{i}]")
            if p:
                return p
        return None
    if type(v).__name__ == "Opaque":
        # a value the evaluation lost track of is no finding about the code
        raise AnalysisError(f"C11.roundtrip: {path} could not be evaluated ({v!r})")
    return f"{path} is a {type(v).__name__} ({v!r}), which JSON and YAML cannot represent"


def _through_json(v):
    """What a JSON document gives back: dicts, lists, str, numbers, bool, None."""
    if isinstance(v, dict):
        return {str(k): _through_json(x) for k, x in v.items()}
    if isinstance(v, (list, tuple)):
        return [_through_json(x) for x in v]
    return v


def check_roundtrip(ctx, rule: str) -> None:
    prog = ctx.prog
    to_d = prog.func(MOD, "model_to_dict")
    from_d = prog.func(MOD, "model_from_dict")
    follow = [f.qualname for f in prog.all_funcs() if f.unit.modname == MOD and f.parent is None]
    mk = lambda cls_: (lambda it_, ev, c, a, k: cls_(*a, **k))  # noqa: E731
    stubs = {"cobra.util.solver.set_objective": _set_objective, "cobra.util.set_objective": _set_objective,
             "operator.itemgetter": lambda it_, ev, c, a, k: __import__("operator").itemgetter(*a)}
    for n, cls_ in (("Model", Model), ("Metabolite", Met), ("Gene", Gene), ("Reaction", Rxn)):
        for mod in ("cobra.core", "cobra", f"cobra.core.{n.lower()}"):
            stubs[f"{mod}.{n}"] = mk(cls_)

    def _isinstance(it_, ev, c, args, kwargs):
        names = [norm(y).split(".")[-1] for y in (c.args[1].elts if isinstance(c.args[1], ast.Tuple) else [c.args[1]])]
        table = {"str": str, "int": int, "float": float, "bool": bool, "list": list, "dict": dict, "tuple": tuple, "set": set, "frozenset": frozenset, "OrderedDict": dict,
                 "Model": Model, "Metabolite": Met, "Gene": Gene, "Reaction": Rxn, "Number": (int, float), "Real": (int, float)}
        types = tuple(t for n in names if n in table for t in (table[n] if isinstance(table[n], tuple) else (table[n],)))
        return isinstance(args[0], types) if types else False

    stubs["isinstance"] = _isinstance
    for mod in ("cobra.core.gene", "cobra.core", "cobra"):
        stubs[f"{mod}.GPR.from_string"] = lambda it_, ev, c, a, k: Rule(a[0]) if isinstance(a[0], str) else (_ for _ in ()).throw(EvalRaise("TypeError", c))
        stubs[f"{mod}.GPR"] = lambda it_, ev, c, a, k: Rule("")

    def interp():
        it = Interp(prog, (S,), follow, stubs, globals_={"str": str, "float": float, "bool": bool, "list": list}, max_depth=10)
        it.missing_attr_raises = True
        return it

    def run(what, fn, args, kwargs=None):
        try:
            return ("value", interp().call(fn, args, kwargs or {}))
        except EvalRaise as exc:
            return ("raise", exc.exc_type)
        except Unknown as exc:
            raise AnalysisError(f"{rule}: {what} cannot be evaluated: {exc}")

    problems: List[str] = []
    aspects: Dict[str, str] = {}
    n_sc = 0
    for named, objective in ((True, True), (False, True), (True, False)):
        for sort in (False, True):
            what = f"{'a named' if named else 'an unnamed'} model{'' if objective else ' without objective'}, sort={sort}"
            m = build(named, objective)
            before = say(m, False)
            got = run(f"model_to_dict({what})", to_d, [m], {"sort": sort})
            if got[0] == "raise" or not isinstance(got[1], dict):
                problems.append(f"model_to_dict of {what} {'raises ' + str(got[1]) if got[0] == 'raise' else 'returns no dict'}")
                continue
            d = got[1]
            if say(m, False) != before:
                problems.append(f"model_to_dict changes the model it writes ({what})")
            p = _json_problem(d)
            if p:
                problems.append(f"model_to_dict of {what}: {p}")
                continue
            doc = _through_json(d)
            pristine = _copy.deepcopy(doc)
            back = run(f"model_from_dict of the dict of {what}", from_d, [doc])
            if back[0] == "raise" or not isinstance(back[1], Model):
                problems.append(f"model_from_dict of the saved dict of {what} {'raises ' + str(back[1]) if back[0] == 'raise' else 'returns no model'}: a model that could be saved cannot be loaded")
                continue
            m2 = back[1]
            if doc != pristine:
                k = next((k for k in pristine if doc.get(k) != pristine[k]), "?")
                problems.append(f"model_from_dict changes the dict it is given (entry {k!r}): loading the same dict again, or saving it afterwards, gives something else ({what})")
            want, have = say(m, sort), say(m2, False)
            diff = [k for k in want if want[k] != have.get(k)] + [k for k in have if k not in want]
            if diff:
                # one report per aspect (kind of object . attribute: old -> new), so that a listed finding about one
                # attribute does not hide a different one
                for k in diff:
                    w_, h_ = want.get(k), have.get(k)
                    kind = k.split(" ")[0]
                    if isinstance(w_, dict) and isinstance(h_, dict) and " " in k:
                        for attr in [a for a in w_ if w_[a] != h_.get(a)] + [a for a in h_ if a not in w_]:
                            aspects.setdefault(f"{kind}.{attr}: {w_.get(attr)!r} -> {h_.get(attr)!r}", f"after dict round trip of {what}, {attr} of {k} is {h_.get(attr)!r}; it was {w_.get(attr)!r}")
                    else:
                        aspects.setdefault(f"{k}: {w_!r} -> {h_!r}"[:120], f"after dict round trip of {what}, {k} is {h_!r}; it was {w_!r}")
                continue
            again = run("second model_to_dict", to_d, [m2], {"sort": sort})
            if again[0] != "value" or _through_json(again[1]) != pristine:
                kk = next((k for k in pristine if not isinstance(again[1], dict) or _through_json(again[1]).get(k) != pristine[k]), "?") if again[0] == "value" else "?"
                problems.append(f"a second round trip of {what} does not reproduce the saved dict (entry {kk!r})")
                continue
            # loading the same document twice (in one session: one interpreter, module-level objects live on) gives
            # two models that share nothing mutable, and no two objects of one model share a container
            it2 = interp()
            try:
                a = it2.call(from_d, [_copy.deepcopy(pristine)], {})
                b = it2.call(from_d, [_copy.deepcopy(pristine)], {})
            except (EvalRaise, Unknown):
                a = b = None
            if isinstance(a, Model) and isinstance(b, Model):
                objs_a = list(a.metabolites) + list(a.genes) + list(a.reactions) + [a]
                objs_b = list(b.metabolites) + list(b.genes) + list(b.reactions) + [b]
                seen: Dict[int, str] = {}
                shared = None
                for tag, objs in (("first", objs_a), ("second", objs_b)):
                    for x in objs:
                        for attr in ("notes", "annotation"):
                            v = getattr(x, attr)
                            if isinstance(v, (dict, list, set)):
                                if id(v) in seen and shared is None:
                                    shared = f"{attr} of {x!r} ({tag} load) is the very object that is {seen[id(v)]}"
                                seen.setdefault(id(v), f"{attr} of {x!r} ({tag} load)")
                rules_seen: Dict[int, str] = {}
                for tag, mm in (("first", a), ("second", b)):
                    for x in mm.reactions:
                        if id(x._rule) in rules_seen and shared is None:
                            shared = f"the rule object of {x!r} ({tag} load) is the very object that is {rules_seen[id(x._rule)]}"
                            attr = "rule"
                        rules_seen.setdefault(id(x._rule), f"the rule of {x!r} ({tag} load)")
                if shared:
                    problems.append(f"loaded objects share a mutable container: {shared} - one object handed out by reference to several owners (a module-level default, a cache); editing one object's {attr} edits the others ({what})")
            n_sc += 1
    for aspect, text in list(aspects.items())[:8]:
        ctx.bad(rule, from_d, f"dict round trip: {aspect}", text)
    if problems:
        ctx.bad(rule, from_d if any("model_from_dict" in p or "round trip" in p for p in problems[:1]) else to_d, "dict round trip", problems[0] + (f" (+{len(problems) - 1} more)" if len(problems) > 1 else ""))
    elif not aspects:
        ctx.ok(rule, to_d, "dict round trip", f"{n_sc} scenarios (named/unnamed, sort on/off): the dict is JSON-representable, loading leaves it unchanged, the loaded model says what the saved one said (infinite / zero / above-default bounds, charge 0, objective coefficients of both signs, nested notes and annotations, list order), a second round trip reproduces the dict (evaluated)")


# ---------------------------------------------------------------------------------------- construction
def check_construct(ctx, rule: str) -> None:
    """The readers build every reaction as `Reaction(...)` with default bounds and assign the stored bounds afterwards:
    the real constructor (evaluated here with the real methods of the class) has to succeed for every admissible
    setting of the configured default bounds - also one whose upper default is negative - and for explicit bounds; it
    takes its defaults from the configuration *at the time of the call*."""
    from ..interp import RealMethods, _BoundReal, real_methods_class

    prog = ctx.prog
    cls = prog.units["cobra.core.reaction"].classes.get("Reaction")
    init = prog.func("cobra.core.reaction", "Reaction.__init__")

    class _G(S):
        def __init__(self, *a, **k):
            self.body = None

    problems = []
    n = 0
    for cfg in ((-1000.0, 1000.0), (-10.0, 10.0), (100.0, 10000.0), (-50.0, -1.0), (-5.0, 0.0)):
        for kwargs, want in (({}, (0.0, cfg[1])), ({"lower_bound": -3.0, "upper_bound": 7.0}, (-3.0, 7.0)), ({"lower_bound": None, "upper_bound": None}, cfg), ({"lower_bound": 2000.0, "upper_bound": 3000.0}, (2000.0, 3000.0))):
            n += 1
            stubs = {"isinstance": lambda it_, ev, c, a, k: isinstance(a[0], str) if norm(c.args[1]).split(".")[-1] == "str" else False}
            for mod in ("cobra.core.gene", "cobra.core", "cobra"):
                stubs[f"{mod}.GPR"] = lambda it_, ev, c, a, k: _G()
            it = Interp(prog, (S, RealMethods, _BoundReal), [f.qualname for f in prog.all_funcs() if f.qualname.startswith(("cobra.core.reaction.Reaction.", "cobra.core.object.Object."))], stubs, globals_={})
            it.config.lower_bound, it.config.upper_bound = cfg
            RxS = real_methods_class("ReactionStandIn", prog, cls, it, bases=(S,), skip=("__setstate__", "__getstate__"))
            r = RxS()
            what = f"Reaction('R1'{''.join(f', {k}={v!r}' for k, v in kwargs.items())}) with the configured default bounds {cfg}"
            try:
                it.call(init, ["R1"], dict(kwargs), selfobj=r)
            except EvalRaise as exc:
                problems.append(f"{what} raises {exc.exc_type}: a reader builds the reaction first and assigns the stored bounds afterwards, so no model can be loaded under this configuration")
                continue
            except Unknown as exc:
                raise AnalysisError(f"C11.construct: {what} cannot be evaluated: {exc}")
            got = (object.__getattribute__(r, "__dict__").get("_lower_bound"), object.__getattribute__(r, "__dict__").get("_upper_bound"))
            if got != want:
                problems.append(f"{what} has bounds {got}, expected {want}")
    if problems:
        ctx.bad(rule, init, "Reaction construction", "; ".join(list(dict.fromkeys(problems))[:2]))
    else:
        ctx.ok(rule, init, "Reaction construction", f"{n} cases (5 settings of the configured default bounds incl. a negative upper default x default / explicit / None / above-default bounds): the constructor succeeds and takes missing bounds from the configuration in force")
