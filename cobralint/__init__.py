"""cobralint - repository-specific static analysis of opencobra/cobrapy.

Pure standard library.  Nothing from the analysed repository is imported or run:
every rule works on syntax trees, per-function flow graphs, a receiver-typing
pass and effect summaries built from ``<src>/cobra/**/*.py`` as found on disk
(or from an in-memory overlay used by the self-validation).
"""

__all__ = ["AnalysisError"]


class AnalysisError(Exception):
    """The analysis itself cannot give a verdict (exit code 2, never a violation)."""


class SkipClause(AnalysisError):
    """A structural clause did not find the spelling it knows, and an evaluated clause of the same property decides the
    function in question: the structural clause is skipped with a note (recognise-or-skip), the run goes on."""

