"""A small stand-in for numpy arrays (1-D and 2-D, concrete values) for the analyser's interpreter.

Only what the evaluated library code uses is modelled; anything else raises ``Unsupported`` (an analysis error, never
a verdict). Broadcasting follows numpy's rule (align from the last axis; sizes must be equal or 1) and a mismatch is
the ValueError numpy raises - evaluated code that would not broadcast is reported as raising.
"""
from __future__ import annotations

from typing import Any, Callable, List, Sequence, Tuple


class Unsupported(Exception):
    pass


def _shape(data) -> Tuple[int, ...]:
    if isinstance(data, (list, tuple)):
        if not data:
            return (0,)
        inner = _shape(data[0])
        for x in data[1:]:
            if _shape(x) != inner:
                raise Unsupported("ragged array")
        return (len(data),) + inner
    return ()


def _tolist(data):
    if isinstance(data, NA):
        return data.tolist()
    if isinstance(data, (list, tuple)):
        return [_tolist(x) for x in data]
    return data


def _div(x, y):
    """numpy's floating division: a zero divisor gives +-inf (nan for 0/0) instead of raising."""
    try:
        return x / y
    except ZeroDivisionError:
        if x == 0 or x != x:
            return float("nan")
        return float("inf") if (x > 0) == (str(float(y))[0] != "-") else float("-inf")


class NA:
    _absint_elementwise = True

    def __init__(self, data):
        data = _tolist(data)
        self.shape = _shape(data)
        if len(self.shape) > 2:
            raise Unsupported("arrays of more than two dimensions")
        if len(self.shape) == 0:
            data = [data]
            self.shape = (1,)
        self.data = data

    # ------------------------------------------------------------------ helpers
    @property
    def ndim(self):
        return len(self.shape)

    def tolist(self):
        return [list(r) for r in self.data] if self.ndim == 2 else list(self.data)

    def __len__(self):
        return self.shape[0]

    def __iter__(self):
        if self.ndim == 1:
            return iter(self.data)
        return iter([NA(r) for r in self.data])

    def __repr__(self):
        return f"NA({self.data!r})"

    def __hash__(self):
        return id(self)

    @property
    def T(self):
        if self.ndim == 1:
            return NA(self.data)
        return NA([[self.data[i][j] for i in range(self.shape[0])] for j in range(self.shape[1])]) if self.shape[0] and self.shape[1] else _empty((self.shape[1], self.shape[0]))

    def transpose(self):
        return self.T

    def copy(self):
        return NA(self.tolist())

    def conj(self):
        return self

    def astype(self, *a, **k):
        return self.copy()

    @property
    def size(self):
        n = 1
        for s in self.shape:
            n *= s
        return n

    # ------------------------------------------------------------------ elementwise
    def _bin(self, o, fn: Callable[[Any, Any], Any], reflected=False) -> "NA":
        a, b = (self, o)
        if not isinstance(b, NA):
            if isinstance(b, (list, tuple)):
                b = NA(b)
            else:
                return self._map(lambda x: fn(b, x) if reflected else fn(x, b))
        if reflected:
            a, b = b, a
        sa, sb = a.shape, b.shape
        nd = max(len(sa), len(sb))
        pa, pb = (1,) * (nd - len(sa)) + sa, (1,) * (nd - len(sb)) + sb
        out_shape = []
        for x, y in zip(pa, pb):
            if x != y and 1 not in (x, y):
                raise ValueError(f"operands could not be broadcast together with shapes {sa} {sb}")
            out_shape.append(max(x, y) if 0 not in (x, y) else 0)

        def get(arr: "NA", padded, idx):
            idx = [0 if padded[k] == 1 else idx[k] for k in range(nd)][nd - arr.ndim:]
            v = arr.data
            for i in idx:
                v = v[i]
            return v

        if nd == 1:
            return NA([fn(get(a, pa, [i]), get(b, pb, [i])) for i in range(out_shape[0])]) if out_shape[0] else _empty((0,))
        if 0 in out_shape:
            return _empty(tuple(out_shape))
        return NA([[fn(get(a, pa, [i, j]), get(b, pb, [i, j])) for j in range(out_shape[1])] for i in range(out_shape[0])])

    def _map(self, fn) -> "NA":
        if self.ndim == 1:
            return NA([fn(x) for x in self.data]) if self.data else _empty((0,))
        if 0 in self.shape:
            return _empty(self.shape)
        return NA([[fn(x) for x in r] for r in self.data])

    def __add__(self, o):
        return self._bin(o, lambda x, y: x + y)

    def __radd__(self, o):
        return self._bin(o, lambda x, y: x + y, True)

    def __sub__(self, o):
        return self._bin(o, lambda x, y: x - y)

    def __rsub__(self, o):
        return self._bin(o, lambda x, y: x - y, True)

    def __mul__(self, o):
        return self._bin(o, lambda x, y: x * y)

    def __rmul__(self, o):
        return self._bin(o, lambda x, y: x * y, True)

    def __truediv__(self, o):
        return self._bin(o, _div)

    def __rtruediv__(self, o):
        return self._bin(o, _div, True)

    def __neg__(self):
        return self._map(lambda x: -x)

    def __abs__(self):
        return self._map(abs)

    def __lt__(self, o):
        return self._bin(o, lambda x, y: x < y)

    def __le__(self, o):
        return self._bin(o, lambda x, y: x <= y)

    def __gt__(self, o):
        return self._bin(o, lambda x, y: x > y)

    def __ge__(self, o):
        return self._bin(o, lambda x, y: x >= y)

    def __eq__(self, o):  # type: ignore[override]
        return self._bin(o, lambda x, y: x == y)

    def __ne__(self, o):  # type: ignore[override]
        return self._bin(o, lambda x, y: x != y)

    def __and__(self, o):
        return self._bin(o, lambda x, y: bool(x) and bool(y))

    def __or__(self, o):
        return self._bin(o, lambda x, y: bool(x) or bool(y))

    def __invert__(self):
        return self._map(lambda x: not x)

    def __bool__(self):
        if self.size == 1:
            return bool(self.data[0] if self.ndim == 1 else self.data[0][0])
        raise ValueError("The truth value of an array with more than one element is ambiguous")

    # ------------------------------------------------------------------ reductions / products
    def _reduce(self, fn, axis=None):
        if axis is None:
            flat = self.data if self.ndim == 1 else [x for r in self.data for x in r]
            if not flat:
                raise ValueError("zero-size array to reduction operation which has no identity")
            return fn(flat)
        if self.ndim == 1:
            if axis not in (0, -1):
                raise ValueError(f"axis {axis} is out of bounds for array of dimension 1")
            return self._reduce(fn)
        if axis in (1, -1):
            if self.shape[1] == 0:
                raise ValueError("zero-size array to reduction operation which has no identity")
            return NA([fn(r) for r in self.data]) if self.shape[0] else _empty((0,))
        if axis == 0:
            if self.shape[0] == 0:
                raise ValueError("zero-size array to reduction operation which has no identity")
            return NA([fn([self.data[i][j] for i in range(self.shape[0])]) for j in range(self.shape[1])])
        raise ValueError(f"axis {axis} is out of bounds for array of dimension 2")

    def max(self, axis=None):
        return self._reduce(max, axis)

    def min(self, axis=None):
        return self._reduce(min, axis)

    def sum(self, axis=None):
        if self.size == 0 and axis is None:
            return 0
        return self._reduce(sum, axis)

    def mean(self, axis=None):
        if axis is None:
            flat = self.data if self.ndim == 1 else [x for r in self.data for x in r]
            return sum(flat) / len(flat) if flat else float("nan")
        n = self.shape[axis if self.ndim == 2 else 0]
        return self._reduce(lambda xs: sum(xs) / len(xs), axis) if n else _empty((0,))

    def flatten(self):
        if self.ndim == 1:
            return NA(list(self.data)) if self.data else _empty((0,))
        flat = [x for r in self.data for x in r]
        return NA(flat) if flat else _empty((0,))

    ravel = flatten

    def all(self, axis=None):
        return self._reduce(all, axis) if self.size else True

    def any(self, axis=None):
        return self._reduce(any, axis) if self.size else False

    def dot(self, o):
        if not isinstance(o, NA):
            o = NA(o)
        if self.ndim == 2 and o.ndim == 2:
            if self.shape[1] != o.shape[0]:
                raise ValueError(f"shapes {self.shape} and {o.shape} not aligned")
            if 0 in (self.shape[0], o.shape[1]):
                return _empty((self.shape[0], o.shape[1]))
            return NA([[sum(self.data[i][k] * o.data[k][j] for k in range(self.shape[1])) for j in range(o.shape[1])] for i in range(self.shape[0])])
        if self.ndim == 2 and o.ndim == 1:
            if self.shape[1] != o.shape[0]:
                raise ValueError(f"shapes {self.shape} and {o.shape} not aligned")
            return NA([sum(self.data[i][k] * o.data[k] for k in range(self.shape[1])) for i in range(self.shape[0])])
        if self.ndim == 1 and o.ndim == 2:
            if self.shape[0] != o.shape[0]:
                raise ValueError(f"shapes {self.shape} and {o.shape} not aligned")
            return NA([sum(self.data[k] * o.data[k][j] for k in range(self.shape[0])) for j in range(o.shape[1])])
        if self.shape != o.shape:
            raise ValueError(f"shapes {self.shape} and {o.shape} not aligned")
        return sum(x * y for x, y in zip(self.data, o.data))

    def __matmul__(self, o):
        return self.dot(o)

    # ------------------------------------------------------------------ indexing
    def __getitem__(self, key):
        if isinstance(key, NA):
            if key.shape != self.shape[: key.ndim]:
                raise IndexError(f"boolean index did not match indexed array: {self.shape} vs {key.shape}")
            if key.ndim == 1:
                sel = [x for x, k in zip(self.data, key.data) if k]
                return NA(sel) if sel else _empty((0,) + self.shape[1:])
            raise Unsupported("two-dimensional masks")
        if isinstance(key, tuple):
            if len(key) == 1:
                return self[key[0]]
            if len(key) == 2 and self.ndim == 2:
                i, j = key
                rows = self.data[i] if isinstance(i, slice) else ([self.data[i]] if isinstance(i, int) else [])
                if isinstance(i, (list, NA)):
                    # rows picked by an array of integer positions: a[idx, :]
                    ridx = list(i.data) if isinstance(i, NA) else list(i)
                    if ridx and all(isinstance(c, bool) for c in ridx):
                        # a[mask, :]
                        if len(ridx) != self.shape[0]:
                            raise IndexError(f"boolean index did not match indexed array along dimension 0; dimension is {self.shape[0]} but corresponding boolean dimension is {len(ridx)}")
                        ridx = [k for k, c in enumerate(ridx) if c]
                    if not all(isinstance(c, int) and not isinstance(c, bool) for c in ridx) or not (isinstance(j, slice) and j == slice(None)):
                        raise Unsupported("row selection by something other than integer positions with all columns")
                    picked = [list(self.data[c]) for c in ridx]
                    return NA(picked) if picked else _empty((0, self.shape[1]))
                if isinstance(j, (list, NA)):
                    cols = list(j.data) if isinstance(j, NA) else list(j)
                    if cols and all(isinstance(c, bool) for c in cols):
                        if len(cols) != self.shape[1]:
                            raise IndexError(f"boolean index did not match indexed array along dimension 1; dimension is {self.shape[1]} but corresponding boolean dimension is {len(cols)}")
                        cols = [k for k, c in enumerate(cols) if c]
                        if not cols:
                            return _empty((len(rows), 0)) if not isinstance(i, int) else _empty((0,))
                    if not all(isinstance(c, int) and not isinstance(c, bool) for c in cols):
                        raise Unsupported("column selection by something other than integer positions or a boolean mask")
                    out = [[r[c] for c in cols] for r in rows]
                else:
                    out = [r[j] for r in rows]
                if isinstance(i, int):
                    out = out[0]
                    return NA(out) if isinstance(out, list) else out
                return NA(out) if out else _empty((0,))
            raise Unsupported("index expression")
        if isinstance(key, slice):
            sel = self.data[key]
            return NA(sel) if sel else _empty((0,) + self.shape[1:])
        if isinstance(key, int):
            v = self.data[key]
            return NA(v) if isinstance(v, list) else v
        raise Unsupported(f"index of type {type(key).__name__}")

    def __setitem__(self, key, value):
        if isinstance(key, NA):
            if key.shape != self.shape or self.ndim != 1:
                raise IndexError(f"boolean index did not match indexed array: {self.shape} vs {key.shape}")
            idx = [i for i, k in enumerate(key.data) if k]
            if isinstance(value, NA):
                if value.shape != (len(idx),):
                    raise ValueError(f"NumPy boolean array indexing assignment cannot assign {value.shape[0]} input values to the {len(idx)} output values where the mask is true")
                for i, v in zip(idx, value.data):
                    self.data[i] = v
            else:
                for i in idx:
                    self.data[i] = value
            return
        if isinstance(key, int) and self.ndim == 1:
            self.data[key] = value
            return
        if isinstance(key, tuple) and len(key) == 2 and self.ndim == 2 and not isinstance(value, NA):
            # a[rows, cols] = scalar with two index sequences of equal length (cols as np.where hands it out: a tuple
            # holding one index array): element-wise pairs
            def seq(k):
                if isinstance(k, tuple) and len(k) == 1:
                    k = k[0]
                if isinstance(k, NA) and k.ndim == 1:
                    return [int(x) for x in k.data]
                if isinstance(k, (range, list)):
                    return [int(x) for x in k]
                return None

            r, c = seq(key[0]), seq(key[1])
            if r is not None and c is not None and len(r) == len(c):
                for i, j in zip(r, c):
                    self.data[i][j] = value
                return
        raise Unsupported("item assignment")


def _empty(shape) -> NA:
    a = NA.__new__(NA)
    a.shape = tuple(shape)
    a.data = [[] for _ in range(shape[0])] if len(shape) == 2 else []
    return a


# ---------------------------------------------------------------------------------------- numpy functions
def np_array(x, *a, **k):
    if type(x).__name__ == "Ser" and isinstance(getattr(x, "values", None), list):
        x = list(x.values)  # a modelled pandas series: its values, positionally
    return x.copy() if isinstance(x, NA) else NA(x)


def np_atleast_2d(x):
    x = x if isinstance(x, NA) else NA(x)
    return NA([x.data]) if x.ndim == 1 else x


def np_abs(x):
    return abs(x) if isinstance(x, NA) else abs(x)


def np_minimum(a, b):
    a = a if isinstance(a, NA) else NA(a)
    return a._bin(b, lambda x, y: min(x, y))


def np_maximum(a, b):
    a = a if isinstance(a, NA) else NA(a)
    return a._bin(b, lambda x, y: max(x, y))


def np_repeat(value, n):
    return NA([value] * n) if n else _empty((0,))


def np_char_add(a, b):
    a = a if isinstance(a, NA) else NA(a)
    return a._bin(b, lambda x, y: x + y)


def np_logical_and(a, b):
    return a & b


class NScalar(float):
    """A numpy floating scalar: a float with ``astype``."""

    def astype(self, t, *a, **k):
        return int(self) if t is int or t in ("int", "int64", "int32") else NScalar(self)


def np_ceil(x):
    import math

    if isinstance(x, NA):
        return x._map(lambda v: float(math.ceil(v)))
    return NScalar(math.ceil(x))


def np_floor(x):
    import math

    if isinstance(x, NA):
        return x._map(lambda v: float(math.floor(v)))
    return NScalar(math.floor(x))


def np_vstack(parts):
    rows = []
    width = None
    for part in parts:
        part = part if isinstance(part, NA) else NA(part)
        part = np_atleast_2d(part)
        if width is not None and part.shape[1] != width and part.shape[0]:
            raise ValueError("all the input array dimensions except for the concatenation axis must match exactly")
        if part.shape[0]:
            width = part.shape[1]
        rows.extend([list(r) for r in part.data])
    if not rows:
        raise ValueError("need at least one array to concatenate")
    return NA(rows)


def np_hstack(parts):
    flat = []
    for part in parts:
        part = part if isinstance(part, NA) else NA(part)
        if part.ndim != 1:
            raise Unsupported("hstack of arrays that are not one-dimensional")
        flat.extend(part.data)
    return NA(flat) if flat else _empty((0,))


def np_allclose(a, b, rtol=1e-05, atol=1e-08):
    a = a if isinstance(a, NA) else NA(a)
    diff = a._bin(b, lambda x, y: abs(x - y) <= atol + rtol * abs(y))
    return bool(diff.all())


def np_logical_not(a):
    return ~a if isinstance(a, NA) else (not a)


def np_any(a, axis=None):
    return a.any(axis) if isinstance(a, NA) else bool(a)


def np_all(a, axis=None):
    return a.all(axis) if isinstance(a, NA) else bool(a)


def np_sqrt(x):
    import math

    if isinstance(x, NA):
        return x._map(math.sqrt)
    return NScalar(math.sqrt(x))


def _np_where(mask, *rest):
    if rest:
        raise Unsupported("numpy.where with alternatives")
    mask = mask if isinstance(mask, NA) else NA(mask)
    if mask.ndim != 1:
        raise Unsupported("numpy.where on a matrix")
    idx = [i for i, k in enumerate(mask.data) if k]
    return (NA(idx) if idx else _empty((0,)),)


def _np_clip(a, lo, hi):
    a = a if isinstance(a, NA) else NA(a)
    return a._map(lambda x: (lo if (lo is not None and x < lo) else hi if (hi is not None and x > hi) else x))


NUMPY = {
    "numpy.hstack": np_hstack, "numpy.allclose": np_allclose, "numpy.logical_not": np_logical_not, "numpy.any": np_any, "numpy.all": np_all, "numpy.sqrt": np_sqrt,
    "numpy.ceil": np_ceil, "numpy.floor": np_floor, "numpy.vstack": np_vstack, "numpy.concatenate": np_vstack,
    "numpy.array": np_array, "numpy.asarray": np_array, "numpy.atleast_2d": np_atleast_2d, "numpy.abs": np_abs, "numpy.absolute": np_abs,
    "numpy.minimum": np_minimum, "numpy.maximum": np_maximum, "numpy.repeat": np_repeat, "numpy.char.add": np_char_add,
    "numpy.logical_and": np_logical_and, "numpy.dtype": lambda *a, **k: None, "numpy.full": lambda shape, v, **k: NA([v] * (shape if isinstance(shape, int) else shape[0])),
    "numpy.zeros": lambda n, **k: (NA([[0.0] * int(n[1]) for _ in range(int(n[0]))]) if int(n[0]) else _empty((0, int(n[1])))) if isinstance(n, tuple) and len(n) == 2 else NA([0.0] * int(n if not isinstance(n, tuple) else n[0])),
    "numpy.where": lambda mask, *rest: _np_where(mask, *rest), "numpy.clip": lambda a, lo, hi, **k: _np_clip(a, lo, hi), "numpy.ones": lambda n, **k: NA([1.0] * (n if isinstance(n, int) else n[0])),
    "numpy.dot": lambda a, b: (a if isinstance(a, NA) else NA(a)).dot(b),
}
