#!/usr/bin/env python3
"""Maintenance helper: add/replace one check entry in MANIFEST.json (not used by the checks)."""
import json, sys
pid, text, note, tech = sys.argv[1:5]
m = json.load(open('/verif/MANIFEST.json'))
m["checks"] = [c for c in m["checks"] if c["property_id"] != pid]
m["checks"].append({"property_id": pid, "quick_cmd": f"./check {pid} --tier quick", "thorough_cmd": f"./check {pid} --tier thorough",
  "evidence_file": f"evidence/{pid}.json", "replay_cmd_template": f"./check {pid} --replay {{path}}", "engine": "cobralint",
  "level_claimed": {"category": "other", "text": text, "design_ref": f"DESIGN.md section 3 ({pid})"}, "level_note": note, "technique": tech})
m["checks"].sort(key=lambda c: c["property_id"])
m["engines"][0]["serves_properties"] = sorted({c["property_id"] for c in m["checks"]})
m["not_applicable"] = [n for n in m.get("not_applicable", []) if n["property_id"] != pid]
json.dump(m, open('/verif/MANIFEST.json', 'w'), indent=1)
print("registered", pid, len(m["checks"]), "checks")
