"""The interpreters of a rule tree (to_string/_ast2str, as_symbolic/_symbolic_gpr, from_symbolic) evaluated by the
analyser's interpreter over stand-in rule trees and stand-in sympy objects, and compared by truth table with the tree.

No shape of the code is prescribed: the text form is parsed back by a reference and/or grammar of three lines, the
symbolic form is evaluated as a Boolean function, and `from_symbolic(as_symbolic(rule))` must be the same function.
Identifiers with characters that sympy's `symbols()` (or any other parsing constructor) would interpret are part of
the scope: a symbol has to carry exactly the identifier it was made for.
"""
from __future__ import annotations

import ast
import itertools
import re
from typing import Any, Dict, List, Optional, Set, Tuple

from .. import AnalysisError
from ..absint import EvalRaise, Unknown
from ..interp import Interp
from ..program import norm


class Node:
    kind = "?"


class NameN(Node):
    kind = "Name"

    def __init__(self, id=None, ctx=None, **kw):
        self.id = id


class AndN(Node):
    kind = "And"


class OrN(Node):
    kind = "Or"


class BoolOpN(Node):
    kind = "BoolOp"

    def __init__(self, op=None, values=None, **kw):
        self.op, self.values = op, list(values or [])


class ExprN(Node):
    kind = "Expression"

    def __init__(self, body=None, **kw):
        self.body = body


class Sym(Node):
    """sympy.Symbol / a Boolean function of sympy."""

    kind = "Symbol"
    args: Tuple = ()

    def __init__(self, name=None, **kw):
        self.name = name
        self.args = ()
        self.func = SymClass

    def __eq__(self, o):
        return isinstance(o, Sym) and type(o) is Sym and o.name == self.name

    def __hash__(self):
        return hash(("sym", self.name))

    def truth(self, ko: Set[str]) -> bool:
        return self.name not in ko

    def names(self) -> Set[str]:
        return {self.name}


class SymClass:
    pass


class OrClass:
    pass


class AndClass:
    pass


class BoolFn(Node):
    kind = "BooleanFunction"

    def __init__(self, func, args):
        self.func = func
        flat = []
        for a in args:
            if not isinstance(a, (Sym, BoolFn)):
                raise EvalRaise("TypeError")
            flat.append(a)
        self.args = tuple(flat)

    # like sympy: two expressions built from equal operands are equal (and hash alike)
    def __eq__(self, o):
        return isinstance(o, BoolFn) and o.func is self.func and frozenset(o.args) == frozenset(self.args)

    def __hash__(self):
        return hash((self.func.__name__, frozenset(self.args)))

    def truth(self, ko: Set[str]) -> bool:
        vals = [a.truth(ko) for a in self.args]
        return any(vals) if self.func is OrClass else all(vals)

    def names(self) -> Set[str]:
        out: Set[str] = set()
        for a in self.args:
            out |= a.names()
        return out

    def equals(self, o):
        ns = sorted(self.names() | o.names())
        return all(self.truth(set(k)) == o.truth(set(k)) for r in range(len(ns) + 1) for k in itertools.combinations(ns, r))


def _symbols(names, **kw):
    """sympy.symbols: the argument is *parsed* - commas and blanks separate names, a colon is range syntax."""

    def one(text: str):
        parts = [p for p in re.split(r"[,\s]+", text) if p]
        out = []
        for p in parts:
            if ":" in p:
                out.extend(Sym(f"{p.split(':')[0]}{i}") for i in range(2))
            else:
                out.append(Sym(p))
        if len(out) == 1 and "," not in text and ":" not in text:
            return out[0]
        return tuple(out)

    if isinstance(names, str):
        return one(names)
    return type(names)(one(n) for n in names) if isinstance(names, (list, tuple)) else [one(n) for n in names]


def tree_genes(t) -> Set[str]:
    if t is None:
        return set()
    if isinstance(t, NameN):
        return {t.id}
    if isinstance(t, BoolOpN):
        out: Set[str] = set()
        for v in t.values:
            out |= tree_genes(v)
        return out
    if hasattr(t, "body"):
        return tree_genes(t.body)
    return set()


def tree_truth(t, ko: Set[str]) -> bool:
    if t is None:
        return True
    if isinstance(t, NameN):
        return t.id not in ko
    if isinstance(t, BoolOpN):
        vals = [tree_truth(v, ko) for v in t.values]
        return any(vals) if isinstance(t.op, OrN) else all(vals)
    return tree_truth(t.body, ko)


def show(t) -> str:
    if t is None:
        return "<empty>"
    if isinstance(t, NameN):
        return str(t.id)
    if isinstance(t, BoolOpN):
        return "(" + (" or " if isinstance(t.op, OrN) else " and ").join(show(v) for v in t.values) + ")"
    return show(t.body)


def parse_text(text: str):
    """Reference grammar: or-expression of and-expressions of names / parenthesised expressions. Returns a truth
    function. `and` binds tighter than `or` (Python's and the documented precedence)."""
    toks = re.findall(r"\(|\)|[^\s()]+", text)
    pos = [0]

    def peek():
        return toks[pos[0]] if pos[0] < len(toks) else None

    def eat():
        pos[0] += 1
        return toks[pos[0] - 1]

    def atom():
        t = eat()
        if t == "(":
            f = expr()
            if eat() != ")":
                raise ValueError("unbalanced")
            return f
        if t in (")", "and", "or", None):
            raise ValueError("unexpected token")
        return lambda ko, t=t: t not in ko

    def conj():
        fs = [atom()]
        while peek() == "and":
            eat()
            fs.append(atom())
        return lambda ko: all(f(ko) for f in fs)

    def expr():
        fs = [conj()]
        while peek() == "or":
            eat()
            fs.append(conj())
        return lambda ko: any(f(ko) for f in fs)

    if not toks:
        return lambda ko: True
    f = expr()
    if pos[0] != len(toks):
        raise ValueError("trailing tokens")
    return f


def check_interpreters(ctx, rule: str) -> None:
    prog = ctx.prog
    M = "cobra.core.gene"
    fns = {n: prog.func(M, f"GPR.{n}") for n in ("_ast2str", "to_string", "as_symbolic", "_symbolic_gpr", "from_symbolic", "update_genes")}
    holder: Dict[str, Any] = {}

    class GPRN(Node):
        kind = "GPR"

        def __init__(self, tree=None, **kw):
            self.body = tree.body if isinstance(tree, ExprN) else tree
            self._genes = set()

        @property
        def genes(self):
            return frozenset(tree_genes(self.body))

        def update_genes(self):
            self._genes = tree_genes(self.body)

        def _call(self, name, *a, **k):
            return holder["it"].call(fns[name], list(a), dict(k), selfobj=self)

        def _ast2str(self, *a, **k):
            return self._call("_ast2str", *a, **k)

        def to_string(self, *a, **k):
            return self._call("to_string", *a, **k)

        def as_symbolic(self, *a, **k):
            return self._call("as_symbolic", *a, **k)

        def _symbolic_gpr(self, *a, **k):
            return self._call("_symbolic_gpr", *a, **k)

    kinds = {"Name": NameN, "BoolOp": BoolOpN, "And": AndN, "Or": OrN, "Expression": ExprN, "Module": ExprN, "GPR": GPRN, "Symbol": Sym, "BooleanFunction": BoolFn}

    def _isinstance(it_, ev, c, args, kwargs):
        v = args[0]
        names = [norm(x).split(".")[-1] for x in (c.args[1].elts if isinstance(c.args[1], ast.Tuple) else [c.args[1]])]
        builtin = {"str": str, "int": int, "float": float, "bool": bool, "list": list, "dict": dict, "tuple": tuple, "set": set, "frozenset": frozenset}
        if isinstance(v, Node):
            return any(n in kinds and isinstance(v, kinds[n]) for n in names)
        if v is None or type(v) in builtin.values():
            return isinstance(v, tuple(builtin[n] for n in names if n in builtin)) if any(n in builtin for n in names) else False
        raise Unknown("isinstance on a value outside the rule-tree domain")

    mk = lambda cls_: (lambda it_, ev, c, a, k: cls_(*a, **k))  # noqa: E731
    stubs = {
        "isinstance": _isinstance,
        "sympy.Symbol": mk(Sym), "sympy.core.symbol.Symbol": mk(Sym), "sympy.symbols": lambda it_, ev, c, a, k: _symbols(*a, **k), "sympy.core.symbol.symbols": lambda it_, ev, c, a, k: _symbols(*a, **k),
        "sympy.logic.boolalg.Or": lambda it_, ev, c, a, k: BoolFn(OrClass, a), "sympy.logic.boolalg.And": lambda it_, ev, c, a, k: BoolFn(AndClass, a),
        "sympy.Or": lambda it_, ev, c, a, k: BoolFn(OrClass, a), "sympy.And": lambda it_, ev, c, a, k: BoolFn(AndClass, a),
        "spl.Or": lambda it_, ev, c, a, k: BoolFn(OrClass, a), "spl.And": lambda it_, ev, c, a, k: BoolFn(AndClass, a),
        "ast.BoolOp": mk(BoolOpN), "ast.Name": mk(NameN), "ast.Or": mk(OrN), "ast.And": mk(AndN), "ast.Expression": mk(ExprN),
        "cobra.core.gene.GPR": mk(GPRN), "cls": mk(GPRN),
    }

    class _Spl(Node):
        Or, And, BooleanFunction = OrClass, AndClass, BoolFn

    def interp():
        it = Interp(prog, (Node, _Spl), [f"{M}.GPR.from_symbolic._sympy_to_ast"], stubs, globals_={"spl": _Spl, "str": str})
        it.missing_attr_raises = True
        holder["it"] = it
        return it

    a, b, c, d = (NameN(x) for x in "abcd")
    colon, colon2 = NameN("HGNC:5"), NameN("x:y")
    AND = lambda *v: BoolOpN(AndN(), v)  # noqa: E731
    OR = lambda *v: BoolOpN(OrN(), v)  # noqa: E731
    trees = [a, AND(a, b), OR(a, b), OR(a, b, c), AND(a, OR(b, c)), OR(a, AND(b, c)), OR(AND(a, b), AND(c, d)), AND(OR(a, b), OR(c, d)), AND(OR(a, AND(b, c)), d), OR(AND(a, OR(b, c)), d),
             AND(colon, b), OR(colon, colon2), AND(a, OR(colon2, colon))]

    def subsets(t):
        ns = sorted(tree_genes(t)) + ["zz"]
        return [set(k) for r in range(len(ns) + 1) for k in itertools.combinations(ns, r)]

    def evaluate(what, fn):
        try:
            return ("value", fn())
        except EvalRaise as exc:
            return ("raise", exc.exc_type)
        except Unknown as exc:
            raise AnalysisError(f"{rule}: {what} cannot be evaluated: {exc}")

    # ---- text form
    e_ = NameN("e")
    deep = [AND(e_, OR(AND(a, b), AND(c, d))), OR(e_, AND(OR(a, b), OR(c, d))), AND(OR(AND(a, b), AND(c, d)), e_), OR(AND(OR(a, b), OR(c, d)), e_),
            AND(e_, OR(AND(a, b), c)), AND(e_, OR(a, AND(c, d))), OR(AND(e_, OR(AND(a, b), AND(c, d))), a), AND(OR(AND(a, OR(b, c)), AND(d, e_)), b)]
    bad = None
    n = 0
    for t in trees[:10] + deep:
        interp()
        g = GPRN(t)
        got = evaluate(f"to_string of {show(t)}", lambda: g.to_string())
        n += 1
        if got[0] != "value" or not isinstance(got[1], str):
            bad = f"to_string of the rule {show(t)} {'raises ' + str(got[1]) if got[0] == 'raise' else 'returns ' + repr(got[1])}"
            break
        try:
            f = parse_text(got[1])
        except (ValueError, IndexError):
            bad = f"to_string of the rule {show(t)} gives {got[1]!r}, which is no and/or expression"
            break
        wrong = [ko for ko in subsets(t) if f(ko) != tree_truth(t, ko)]
        if wrong:
            bad = f"to_string of the rule {show(t)} gives {got[1]!r}: read back (and binds tighter than or) it is a different Boolean function, e.g. with {sorted(wrong[0])} knocked out it is {f(wrong[0])}, the rule is {tree_truth(t, wrong[0])}"
            break
    if bad is None:
        interp()
        got = evaluate("to_string of an empty rule", lambda: GPRN(None).to_string())
        if got != ("value", ""):
            bad = f"to_string of an empty rule gives {got[1]!r} instead of ''"
        interp()
        got = evaluate("to_string(names=...)", lambda: GPRN(AND(a, OR(b, c))).to_string(names={"a": "Alpha", "c": "Gamma"}))
        if bad is None and (got[0] != "value" or not isinstance(got[1], str) or sorted(re.findall(r"[A-Za-z]+", got[1].replace(" and ", " ").replace(" or ", " "))) != ["Alpha", "Gamma", "b"]):
            bad = f"to_string(names={{'a': 'Alpha', 'c': 'Gamma'}}) of (a and (b or c)) gives {got[1]!r}: mapped genes are shown by name, the others by identifier"
    if bad:
        ctx.bad(rule, fns["_ast2str"], fns["_ast2str"].node, bad)
    else:
        ctx.ok(rule, fns["_ast2str"], "text form", f"to_string of {n} rule trees reads back as the same Boolean function (nesting, precedence, names; evaluated)")
    # ---- symbolic form
    bad = None
    n = 0
    for t in trees:
        interp()
        g = GPRN(t)
        got = evaluate(f"as_symbolic of {show(t)}", lambda: g.as_symbolic())
        n += 1
        if got[0] != "value" or not isinstance(got[1], (Sym, BoolFn)):
            bad = f"as_symbolic of the rule {show(t)} {'raises ' + str(got[1]) if got[0] == 'raise' else 'returns ' + repr(got[1]) + ', which is no Boolean function over gene symbols'}"
            break
        s = got[1]
        if s.names() != tree_genes(t):
            bad = f"as_symbolic of the rule {show(t)} is over the symbols {sorted(s.names())}, the genes are {sorted(tree_genes(t))}: every gene has to become the symbol of exactly its identifier"
            break
        wrong = [ko for ko in subsets(t) if s.truth(ko) != tree_truth(t, ko)]
        if wrong:
            bad = f"as_symbolic of the rule {show(t)} is a different Boolean function: with {sorted(wrong[0])} absent it is {s.truth(wrong[0])}, the rule is {tree_truth(t, wrong[0])}"
            break
        # and back
        interp()
        back = evaluate(f"from_symbolic(as_symbolic({show(t)}))", lambda: holder["it"].call(fns["from_symbolic"], [s], {}, selfobj=GPRN))
        if back[0] != "value" or not isinstance(back[1], GPRN):
            bad = f"from_symbolic(as_symbolic(rule)) of {show(t)} {'raises ' + str(back[1]) if back[0] == 'raise' else 'returns ' + repr(back[1])}"
            break
        r = back[1]
        if tree_genes(r.body) != tree_genes(t) or [ko for ko in subsets(t) if tree_truth(r.body, ko) != tree_truth(t, ko)]:
            bad = f"from_symbolic(as_symbolic(rule)) of {show(t)} is {show(r.body)}: not the same Boolean function over the same genes"
            break
        if r._genes != tree_genes(t):
            bad = f"from_symbolic leaves the gene set {sorted(r._genes)} for the rule {show(r.body)}"
            break
    # a rule that came through the symbolic form is a rule like any other: removing a gene from it (the in-place
    # rewriting of _GeneRemover, evaluated) leaves the old rule with that gene absent - also when the same group occurs
    # under two parents (a complex shared by two isozymes)
    if bad is None:
        x_, y_, p_, q_ = (NameN(k) for k in "xypq")
        for t in (OR(AND(x_, OR(AND(a, b), p_)), AND(y_, OR(AND(a, b), q_))), AND(OR(a, b), OR(AND(a, b), c))):
            genes_t = sorted(tree_genes(t))
            for gone in genes_t:
                interp()
                s = evaluate(f"as_symbolic of {show(t)}", lambda: GPRN(t).as_symbolic())
                if s[0] != "value":
                    break
                back = evaluate(f"from_symbolic(as_symbolic({show(t)}))", lambda: holder["it"].call(fns["from_symbolic"], [s[1]], {}, selfobj=GPRN))
                if back[0] != "value" or not isinstance(back[1], GPRN) or back[1].body is None:
                    break
                start = back[1].body
                before = show(start)
                truth0 = {frozenset(k): tree_truth(start, set(k) | {gone}) for r_ in range(len(genes_t)) for k in itertools.combinations([g for g in genes_t if g != gone], r_)}
                apply, _, _ = remover_factory(prog)
                try:
                    res = apply(start, [gone])
                except EvalRaise as exc:
                    bad = f"removing {gone} from the rule {before} that from_symbolic built raises {exc.exc_type}"
                    break
                except Unknown as exc:
                    raise AnalysisError(f"{rule}: _GeneRemover cannot be evaluated on the rule from_symbolic built: {exc}")
                n += 1
                wrong = [k for k, v in truth0.items() if (tree_truth(res, set(k)) if res is not None else False) != v]
                if wrong:
                    bad = (f"removing {gone} from the rule {before} that from_symbolic(as_symbolic(..)) built gives {show(res) if res is not None else 'no rule'}: with {sorted(wrong[0])} knocked out in addition it is "
                           f"{tree_truth(res, set(wrong[0])) if res is not None else False}, the old rule without {gone} is {truth0[wrong[0]]} (a group object that hangs under two parents is rewritten twice by the in-place remover)")
                    break
            if bad:
                break
    if bad is None:
        interp()
        got = evaluate("as_symbolic of an empty rule", lambda: GPRN(None).as_symbolic())
        if got[0] != "value" or not (isinstance(got[1], Sym) and got[1].name == ""):
            bad = f"as_symbolic of an empty rule gives {got[1]!r} instead of the empty symbol"
        else:
            interp()
            back = evaluate("from_symbolic of the empty symbol", lambda: holder["it"].call(fns["from_symbolic"], [Sym("")], {}, selfobj=GPRN))
            if back[0] != "value" or not isinstance(back[1], GPRN) or back[1].body is not None:
                bad = f"from_symbolic of the empty symbol gives {back[1]!r} instead of an empty rule"
    if bad:
        ctx.bad(rule, fns["_symbolic_gpr"], fns["_symbolic_gpr"].node, bad)
    else:
        ctx.ok(rule, fns["_symbolic_gpr"], "symbolic form", f"as_symbolic of {n} rule trees (identifiers with ':' included) is the same Boolean function over symbols named exactly like the genes, and from_symbolic brings it back (evaluated)")


# ------------------------------------------------------------------------------------ remove_genes
def _restrict(t, gone: Set[str]):
    """The rule with the genes in ``gone`` absent (false), as a truth function over the remaining genes."""
    return lambda ko: tree_truth(t, set(ko) | set(gone))


def check_remove_genes(ctx, rule: str) -> None:
    """cobra.manipulation.remove_genes evaluated on a stand-in model: afterwards every remaining reaction's rule is
    the old rule with the removed genes absent - for *every* reaction that mentions one of them, whether it mentions
    all or some -, reactions whose rule became false are removed exactly when asked, the genes are gone from the
    model, and the reactions' gene sets follow their rules. The rewriting visitor itself (_GeneRemover) is taken from
    C08.remover: here it is a stand-in that implements gene := false."""
    prog = ctx.prog
    fn = prog.func("cobra.manipulation.delete", "remove_genes")

    class S(Node):
        pass

    class GPRs(S):
        def __init__(self, tree):
            self.body = tree

        @property
        def genes(self):
            return frozenset(tree_genes(self.body))

        def eval(self, knockouts=None):
            ko = set() if knockouts is None else ({knockouts} if isinstance(knockouts, str) else {getattr(k, "id", k) for k in knockouts})
            return tree_truth(self.body, ko)

        def copy(self):
            return GPRs(_clone(self.body))

        def __copy__(self):
            return self.copy()

        def to_string(self, names=None):
            return "" if self.body is None else show(self.body)

    def _clone(t):
        if t is None:
            return None
        if isinstance(t, NameN):
            return NameN(t.id)
        return BoolOpN(type(t.op)(), [_clone(v) for v in t.values])

    def _rm(t, gone):
        if t is None:
            return None
        if isinstance(t, NameN):
            return None if t.id in gone else t
        n0 = len(t.values)
        vals = [x for x in (_rm(v, gone) for v in t.values) if x is not None]
        t.values = vals
        if not vals:
            return None
        if len(vals) < n0 and isinstance(t.op, AndN):
            return None
        if len(vals) == 1:
            return vals[0]
        return t

    class Remover(S):
        def __init__(self, target_genes, **kw):
            self.target_genes = {str(getattr(i, "id", i)) for i in target_genes}

        def visit(self, node):
            if isinstance(node, GPRs):
                new = _rm(node.body, self.target_genes)
                if new is None:
                    # ast.NodeTransformer deletes the attribute when the child is removed
                    del node.__dict__["body"]
                else:
                    node.body = new
                return node
            return _rm(node, self.target_genes)

    class Gene(S):
        def __init__(self, id_, model):
            self.id, self._model, self._reaction = id_, model, set()

        def __str__(self):
            return self.id

        def __hash__(self):
            return hash(id(self))

        def __eq__(self, o):
            return self is o

    class Rxn(S):
        def __init__(self, id_, tree, model):
            self.id, self._gpr, self._model = id_, GPRs(tree), model
            self._genes = set()
            self.updated = 0

        @property
        def gpr(self):
            return self._gpr

        @gpr.setter
        def gpr(self, v):
            self._gpr = v
            self.update_genes_from_gpr()

        @property
        def gene_reaction_rule(self):
            return self._gpr.to_string() if "body" in self._gpr.__dict__ else ""

        @property
        def genes(self):
            return frozenset(self._genes)

        def update_genes_from_gpr(self):
            self.updated += 1
            m = self._model
            for g in list(self._genes):
                g._reaction.discard(self)
            self._genes = set()
            for gid in sorted(tree_genes(self._gpr.__dict__.get("body"))):
                if m is not None and not m.genes.has_id(gid):
                    m.genes.append(Gene(gid, m))
                g = m.genes.get_by_id(gid)
                self._genes.add(g)
                g._reaction.add(self)

        def __hash__(self):
            return hash(id(self))

        def __eq__(self, o):
            return self is o

    class DL(S, list):
        def get_by_id(self, i):
            for x in self:
                if x.id == i:
                    return x
            raise KeyError(i)

        def has_id(self, i):
            return any(x.id == i for x in self)

        def get_by_any(self, items):
            items = items if isinstance(items, list) else [items]
            return [self.get_by_id(getattr(i, "id", i)) if not isinstance(i, int) else self[i] for i in items]

        def remove(self, x):
            for k, y in enumerate(self):
                if y is x or y.id == x:
                    del self[k]
                    return
            raise ValueError(x)

        def add(self, x):
            self.append(x)

        def __contains__(self, x):
            return any(y is x or y.id == x for y in self)

    class Model(S):
        def __init__(self, rules: Dict[str, Any]):
            self.genes, self.reactions, self.groups = DL(), DL(), DL()
            self._contexts: List = []
            for rid, tree in rules.items():
                r = Rxn(rid, tree, self)
                self.reactions.append(r)
                r.update_genes_from_gpr()
                r.updated = 0
            self.removed: List[str] = []

        def get_associated_groups(self, x):
            return []

        def remove_reactions(self, reactions, remove_orphans=False):
            for r in list(reactions if isinstance(reactions, (list, set, tuple)) else [reactions]):
                r = self.reactions.get_by_id(getattr(r, "id", r))
                self.reactions.remove(r)
                self.removed.append(r.id)
                for g in list(r._genes):
                    g._reaction.discard(r)
                r._model = None

    a, b, c, x, e = "a", "b", "c", "x", "e"
    N = NameN
    AND = lambda *v: BoolOpN(AndN(), list(v))  # noqa: E731
    OR = lambda *v: BoolOpN(OrN(), list(v))  # noqa: E731

    def rules():
        return {
            "R_some": OR(AND(N(a), N(b)), AND(N(b), N(c))),   # mentions one of the removed genes only
            "R_all": OR(N(a), N(x), N(c)),                    # mentions all of them
            "R_dead": AND(N(a), N(c)),                        # becomes false
            "R_dead2": OR(N(x), AND(N(a), N(e))),             # becomes false
            "R_free": AND(N(c), N(e)),                        # untouched
            "R_none": None,                                   # no rule
            "R_single": N(x),                                 # becomes false
            "R_nested": AND(N(e), OR(N(x), N(b))),            # simplifies to e and b
        }

    def stub_isinstance(it_, ev, c_, args, kwargs):
        names = [norm(y).split(".")[-1] for y in (c_.args[1].elts if isinstance(c_.args[1], ast.Tuple) else [c_.args[1]])]
        builtin = {"str": str, "int": int, "list": list, "set": set, "dict": dict, "tuple": tuple, "frozenset": frozenset}
        v = args[0]
        if isinstance(v, S):
            return {"Gene": Gene, "Reaction": Rxn, "Model": Model}.get(names[0]) is type(v) if len(names) == 1 and names[0] in ("Gene", "Reaction", "Model") else False
        return isinstance(v, tuple(builtin[n] for n in names if n in builtin)) if any(n in builtin for n in names) else False

    problems: List[str] = []
    n_sc = 0
    for gone_arg, as_objects, remove_reactions in (([a, x], False, True), ([a, x], True, False), ([x], False, True), ([a], True, True), ([b, c, e], False, True)):
        m = Model(rules())
        before = {r.id: _clone(r._gpr.body) for r in m.reactions}
        arg = [m.genes.get_by_id(g) for g in gone_arg] if as_objects else list(gone_arg)
        it = Interp(prog, (S, Node), [], {
            "isinstance": stub_isinstance,
            "cobra.manipulation.delete._GeneRemover": lambda it_, ev, c_, a_, k_: Remover(*a_, **k_),
            "cobra.util.context.get_context": lambda it_, ev, c_, a_, k_: None, "cobra.util.get_context": lambda it_, ev, c_, a_, k_: None,
        }, globals_={"str": str})
        what = f"remove_genes(model, {gone_arg}{' as objects' if as_objects else ''}, remove_reactions={remove_reactions})"
        try:
            it.call(fn, [m, arg], {"remove_reactions": remove_reactions})
        except EvalRaise as exc:
            problems.append(f"{what} raises {exc.exc_type}")
            continue
        except Unknown as exc:
            raise AnalysisError(f"{rule}: {what} cannot be evaluated: {exc}")
        n_sc += 1
        gone = set(gone_arg)
        for rid, old in before.items():
            genes_old = tree_genes(old)
            becomes_false = old is not None and not tree_truth(old, gone)
            listed = m.reactions.has_id(rid)
            if becomes_false and remove_reactions:
                if listed:
                    problems.append(f"{what}: reaction {rid} with rule {show(old)} cannot work without the removed genes and is still in the model")
                continue
            if not listed:
                problems.append(f"{what}: reaction {rid} (rule {show(old)}) was removed although {'removal of reactions was not asked for' if becomes_false else 'its rule is still satisfiable'}")
                continue
            r = m.reactions.get_by_id(rid)
            new = r._gpr.__dict__.get("body")
            left = tree_genes(new)
            if left & gone:
                problems.append(f"{what}: the rule of {rid} still refers to removed gene(s) {sorted(left & gone)}: it was {show(old)} and is {show(new)}" + (" (a reaction that mentions only some of the removed genes must be rewritten as well)" if not gone <= genes_old else ""))
                continue
            want = _restrict(old, gone)
            rest = sorted(genes_old - gone)
            if becomes_false:
                ok = new is None or not left
            else:
                ok = all(tree_truth(new, set(k)) == want(set(k)) for n_ in range(len(rest) + 1) for k in itertools.combinations(rest, n_)) and left <= genes_old
            if not ok:
                problems.append(f"{what}: the rule of {rid} was {show(old)} and is {show(new)}, which is not the old rule with {sorted(gone & genes_old)} absent")
                continue
            if {g.id for g in r._genes} != left:
                problems.append(f"{what}: reaction {rid} lists the genes {sorted(g.id for g in r._genes)}, its rule mentions {sorted(left)}")
        for g in gone_arg:
            if m.genes.has_id(g):
                problems.append(f"{what}: gene {g} is still listed in the model")
    if problems:
        ctx.bad(rule, fn, fn.node, problems[0] + (f" (+{len(problems) - 1} more)" if len(problems) > 1 else ""))
    else:
        ctx.ok(rule, fn, "remove_genes", f"{n_sc} scenarios: every rule that mentions a removed gene is the old rule with the genes absent, impossible reactions go exactly when asked, gene lists follow (evaluated)")


# ------------------------------------------------------------------------------------ _GeneRemover
def remover_factory(prog):
    """(apply(tree, removed genes) -> rewritten tree or None, visit_Name, visit_BoolOp): the real visit methods of
    _GeneRemover evaluated on a stand-in NodeTransformer that edits the operand lists in place, like ast's."""
    M = "cobra.manipulation.delete"
    vn, vb = prog.func(M, "_GeneRemover.visit_Name"), prog.func(M, "_GeneRemover.visit_BoolOp")
    holder: Dict[str, Any] = {}

    class Remover(Node):
        def __init__(self, genes):
            self.target_genes = {str(g) for g in genes}

        def visit(self, node):
            if isinstance(node, NameN):
                return holder["it"].call(vn, [node], {}, selfobj=self)
            if isinstance(node, BoolOpN):
                return holder["it"].call(vb, [node], {}, selfobj=self)
            return self.generic_visit(node)

        def generic_visit(self, node):
            if isinstance(node, BoolOpN):
                new = []
                for v in node.values:
                    r = self.visit(v)
                    if r is None:
                        continue
                    new.extend(r) if isinstance(r, list) else new.append(r)
                node.values[:] = new
            elif isinstance(node, ExprN):
                r = self.visit(node.body) if node.body is not None else None
                if r is None:
                    node.__dict__.pop("body", None)
                else:
                    node.body = r
            return node

    kinds = {"Name": NameN, "BoolOp": BoolOpN, "And": AndN, "Or": OrN, "Expression": ExprN}

    def _isinstance(it_, ev, c, args, kwargs):
        exprs = c.args[1].elts if isinstance(c.args[1], ast.Tuple) else [c.args[1]]
        if not all(isinstance(x, (ast.Name, ast.Attribute)) for x in exprs):
            # a computed class (`type(node.op)`): the evaluated value decides
            classes = args[1] if isinstance(args[1], tuple) else (args[1],)
            if not all(isinstance(k, type) for k in classes):
                raise Unknown("isinstance against a value that is no class")
            return isinstance(args[0], classes)
        names = [norm(x).split(".")[-1] for x in exprs]
        v = args[0]
        if isinstance(v, Node):
            return any(n in kinds and isinstance(v, kinds[n]) for n in names)
        builtin = {"str": str, "int": int, "list": list, "set": set, "tuple": tuple, "dict": dict}
        return isinstance(v, tuple(builtin[n] for n in names if n in builtin)) if any(n in builtin for n in names) else False

    def apply(tree, gone):
        it = Interp(prog, (Node,), [], {"isinstance": _isinstance}, globals_={})
        it.missing_attr_raises = True
        holder["it"] = it
        return Remover(gone).visit(tree)

    return apply, vn, vb


def check_gene_remover(ctx, rule: str) -> None:
    """_GeneRemover (visit_Name / visit_BoolOp) evaluated on stand-in rule trees with a stand-in NodeTransformer
    (visit dispatches by node kind to the evaluated methods, generic_visit replaces the operands of an operator by the
    results of their visits and drops those that came back as None): for every tree of the scope and every set of
    removed genes, the result is the rule with those genes absent (false) - no result means the rule cannot be
    satisfied any more -, it mentions no removed gene, and an operator is never left with fewer than two operands."""
    prog = ctx.prog
    apply, vn, vb = remover_factory(prog)

    def clone(t):
        if t is None:
            return None
        if isinstance(t, NameN):
            return NameN(t.id)
        return BoolOpN(type(t.op)(), [clone(v) for v in t.values])

    N = NameN
    AND = lambda *v: BoolOpN(AndN(), list(v))  # noqa: E731
    OR = lambda *v: BoolOpN(OrN(), list(v))  # noqa: E731
    a, b, c, d = "a", "b", "c", "d"
    trees = [N(a), AND(N(a), N(b)), OR(N(a), N(b)), OR(N(a), N(b), N(c)), AND(N(a), N(b), N(c)), AND(N(a), OR(N(b), N(c))), OR(N(a), AND(N(b), N(c))),
             OR(AND(N(a), N(b)), AND(N(c), N(d))), AND(OR(N(a), N(b)), OR(N(c), N(d))), AND(OR(N(a), AND(N(b), N(c))), N(d)), OR(AND(N(a), OR(N(b), N(c))), N(d)), OR(AND(N(a), N(b)), AND(N(b), N(c))),
             # the same operator nested (what `a & b & c` parses to, and what curated rules spell with brackets)
             AND(AND(N(a), N(b)), N(c)), OR(OR(N(a), N(b)), N(c)), OR(AND(AND(N(a), N(b)), N(d)), N(c)), AND(N(a), AND(N(b), AND(N(c), N(d)))), AND(OR(OR(N(a), N(b)), N(c)), N(d)), OR(AND(N(d), AND(N(a), N(b))), AND(N(c), N(d)))]
    problems: List[str] = []
    n = 0

    def well_formed(t) -> bool:
        if t is None or isinstance(t, NameN):
            return True
        return isinstance(t, BoolOpN) and len(t.values) >= 2 and all(well_formed(v) for v in t.values)

    for t0 in trees:
        genes = sorted(tree_genes(t0))
        for r in range(0, len(genes) + 1):
            for gone in itertools.combinations(genes + ["zz"], r):
                t = clone(t0)
                n += 1
                try:
                    res = apply(t, gone)
                except EvalRaise as exc:
                    problems.append(f"removing {sorted(gone)} from {show(t0)} raises {exc.exc_type}")
                    continue
                except Unknown as exc:
                    raise AnalysisError(f"{rule}: _GeneRemover cannot be evaluated on {show(t0)}: {exc}")
                if res is not None and not isinstance(res, (NameN, BoolOpN)):
                    problems.append(f"removing {sorted(gone)} from {show(t0)} yields {res!r}, which is no rule node")
                    continue
                rest = sorted(set(genes) - set(gone))
                sat = any(tree_truth(t0, set(gone) | set(k)) for m_ in range(len(rest) + 1) for k in itertools.combinations(rest, m_))
                if res is None:
                    if sat:
                        problems.append(f"removing {sorted(gone)} from {show(t0)} leaves no rule, but the rule can still be satisfied without these genes")
                    continue
                if not sat:
                    # an unsatisfiable remainder may also be reported as such by the caller; a non-empty result must then be false everywhere
                    pass
                if tree_genes(res) & set(gone):
                    problems.append(f"removing {sorted(gone)} from {show(t0)} gives {show(res)}, which still mentions {sorted(tree_genes(res) & set(gone))}")
                    continue
                if not well_formed(res):
                    problems.append(f"removing {sorted(gone)} from {show(t0)} gives {show(res)}: an operator is left with fewer than two operands")
                    continue
                wrong = [k for m_ in range(len(rest) + 1) for k in itertools.combinations(rest, m_) if tree_truth(res, set(k)) != tree_truth(t0, set(gone) | set(k))]
                if wrong:
                    problems.append(f"removing {sorted(gone)} from {show(t0)} gives {show(res)}: with {sorted(wrong[0])} knocked out in addition it is {tree_truth(res, set(wrong[0]))}, the old rule without the removed genes is {tree_truth(t0, set(gone) | set(wrong[0]))}")
    if problems:
        ctx.bad(rule, vb, vb.node, problems[0] + (f" (+{len(problems) - 1} more)" if len(problems) > 1 else ""))
    else:
        ctx.ok(rule, vb, "gene := false", f"{n} (rule, removed genes) cases: the rewritten rule is the old rule with the genes absent, mentions none of them, keeps no operator with fewer than two operands; no rule is left exactly when none can be satisfied (evaluated)")
        ctx.ok(rule, vn, "names", "a removed gene disappears, every other name is kept (evaluated)", nontrivial=False)


# ------------------------------------------------------------------------------------ GPR.from_string
def check_from_string(ctx, rule: str) -> None:
    """GPR.from_string (with GPR.__init__ and GPRCleaner.visit_Name / visit_BinOp) evaluated end to end on rule texts
    over identifiers that need every kind of escaping the module knows (characters of its replacement table, a leading
    digit, Python keywords): the text is escaped by the evaluated code, parsed by Python's own `ast.parse` (standard
    library), cleaned by the evaluated visitor on the real syntax tree, and the resulting rule must mention exactly the
    identifiers of the text and be the Boolean function the text says (`and` binds tighter than `or`; `&`/`|` are
    accepted spellings). Module-level tables (replacements, the keyword expression) are evaluated from the module's
    own top-level statements. Identifiers that spell an escape token are known finding K4 and not part of the scope."""
    import ast as pyast
    import copy as _copy

    prog = ctx.prog
    M = "cobra.core.gene"
    fs = prog.func(M, "GPR.from_string")
    init = prog.func(M, "GPR.__init__")
    vn, vb = prog.func(M, "GPRCleaner.visit_Name"), prog.func(M, "GPRCleaner.visit_BinOp")
    holder: Dict[str, Any] = {}

    class S_(Node):
        pass

    class GPRs(S_):
        kind = "GPR"

        def __init__(self):
            self.body = None
            self._genes = set()

        def update_genes(self):
            self._genes = {n.id for n in pyast.walk(self.body) if isinstance(n, pyast.Name)} if self.body is not None else set()

        def eval(self, knockouts=None):
            for n in ([] if self.body is None else pyast.walk(self.body)):
                if not isinstance(n, (pyast.Name, pyast.BoolOp, pyast.And, pyast.Or, pyast.Load, pyast.Expression)):
                    raise LibTypeErrorG(type(n).__name__)
            return True

    class LibTypeErrorG(Exception):
        pass

    class Factory(S_):
        __name__ = "GPR"

        def __call__(self, gpr_from=None, **kw):
            g = GPRs()
            try:
                holder["it"].call(init, [] if gpr_from is None else [gpr_from], kw, selfobj=g)
            except LibTypeErrorG:
                raise EvalRaise("TypeError")
            return g

        def from_string(self, text):
            return holder["it"].call(fs, [text], {}, selfobj=self)

    class Cleaner(S_):
        def __init__(self, **kw):
            self.gene_set = set()

        def visit(self, node):
            if isinstance(node, pyast.Name):
                return holder["it"].call(vn, [node], {}, selfobj=self)
            if isinstance(node, pyast.BinOp):
                return holder["it"].call(vb, [node], {}, selfobj=self)
            return self.generic_visit(node)

        def generic_visit(self, node):
            # ast.NodeTransformer.generic_visit
            for field, old in pyast.iter_fields(node):
                if isinstance(old, list):
                    new = []
                    for v in old:
                        if isinstance(v, pyast.AST):
                            v = self.visit(v)
                            if v is None:
                                continue
                            if not isinstance(v, pyast.AST):
                                new.extend(v)
                                continue
                        new.append(v)
                    old[:] = new
                elif isinstance(old, pyast.AST):
                    new_node = self.visit(old)
                    if new_node is None:
                        delattr(node, field)
                    else:
                        setattr(node, field, new_node)
            return node

    class Super(S_):
        def __init__(self, *a, **k):
            pass

    ast_names = {n: getattr(pyast, n) for n in ("AST", "Name", "BoolOp", "BinOp", "And", "Or", "BitAnd", "BitOr", "Expression", "Module", "UnaryOp", "Compare", "Call")}

    def _isinstance(it_, ev, c, args, kwargs):
        names = [norm(x).split(".")[-1] for x in (c.args[1].elts if isinstance(c.args[1], ast.Tuple) else [c.args[1]])]
        table = dict(ast_names)
        table.update({"str": str, "int": int, "list": list, "dict": dict, "set": set, "tuple": tuple, "GPR": GPRs})
        types = tuple(table[n] for n in names if n in table)
        return isinstance(args[0], types) if types else False

    def _parse(it_, ev, c, a, k):
        if not a or not isinstance(a[0], str):
            raise Unknown("the text handed to the parser is not a known string")
        try:
            return pyast.parse(*a, **k)
        except SyntaxError:
            raise EvalRaise("SyntaxError", c)

    stubs = {
        "isinstance": _isinstance, "ast.parse": _parse, "super": lambda it_, ev, c, a, k: Super(),
        "copy.deepcopy": lambda it_, ev, c, a, k: _copy.deepcopy(a[0]),
        "cobra.core.gene.GPRCleaner": lambda it_, ev, c, a, k: Cleaner(**k),
        "ast.BoolOp": lambda it_, ev, c, a, k: pyast.BoolOp(*a, **k), "ast.And": lambda it_, ev, c, a, k: pyast.And(), "ast.Or": lambda it_, ev, c, a, k: pyast.Or(),
        "ast.Name": lambda it_, ev, c, a, k: pyast.Name(*a, **k), "warnings.warn": lambda it_, ev, c, a, k: None,
    }

    def to_standin(n):
        if isinstance(n, pyast.Expression):
            return to_standin(n.body)
        if isinstance(n, pyast.Name):
            return NameN(n.id)
        if isinstance(n, pyast.BoolOp) and isinstance(n.op, (pyast.And, pyast.Or)) and isinstance(n.values, list):
            return BoolOpN(AndN() if isinstance(n.op, pyast.And) else OrN(), [to_standin(v) for v in n.values])
        raise ValueError(f"{type(n).__name__} in a cleaned rule")

    ids = ["b0001", "g.1", "1abc", "class", "a-b", "x:y", "it's", 'q"t', "a/b", "k=1", "lambda", "True", "in", "g_1", "b\\c", "0", "is", "G1.2-x:y"]
    N = NameN
    AND = lambda *v: BoolOpN(AndN(), list(v))  # noqa: E731
    OR = lambda *v: BoolOpN(OrN(), list(v))  # noqa: E731
    cases = []
    import keyword as _kw

    every_keyword = [w for w in list(_kw.kwlist) + ["True", "False", "None"] if w not in ("and", "or")]
    for i in ids + [w for w in every_keyword if w not in ids]:
        cases.append((i, N(i)))
    for w in every_keyword[::3]:
        cases.append((f"{w} and (b1 or {w}_x)", AND(N(w), OR(N("b1"), N(f"{w}_x")))))
    for k in range(0, len(ids) - 2, 2):
        a, b, c = ids[k], ids[k + 1], ids[k + 2]
        cases.append((f"{a} and {b}", AND(N(a), N(b))))
        cases.append((f"{a} or ({b} and {c})", OR(N(a), AND(N(b), N(c)))))
        cases.append((f"{a} or {b} and {c}", OR(N(a), AND(N(b), N(c)))))
        cases.append((f"({a} & {b}) | {c}", OR(AND(N(a), N(b)), N(c))))
        cases.append((f"  ( {a} or {b} ) and {c} ", AND(OR(N(a), N(b)), N(c))))
    # upper-case operator spellings are accepted (with a warning); identifiers that contain their letters stay intact
    cases.append(("YOR374W AND RAND1", AND(N("YOR374W"), N("RAND1"))))
    cases.append(("ORF19 OR (b1 AND ANDY)", OR(N("ORF19"), AND(N("b1"), N("ANDY")))))
    cases.append(("ORF19 or RAND1 and YOR374W", OR(N("ORF19"), AND(N("RAND1"), N("YOR374W")))))
    problems: List[str] = []
    n = 0
    for text, want in cases:
        it = Interp(prog, (Node, pyast.AST), [], stubs, globals_={"str": str})
        it.missing_attr_raises = True
        holder["it"] = it
        n += 1
        try:
            g = Factory().from_string(text)
        except EvalRaise as exc:
            problems.append(f"GPR.from_string({text!r}) raises {exc.exc_type}")
            continue
        except Unknown as exc:
            raise AnalysisError(f"{rule}: GPR.from_string({text!r}) cannot be evaluated: {exc}")
        if not isinstance(g, GPRs) or g.body is None:
            problems.append(f"GPR.from_string({text!r}) gives an empty rule")
            continue
        try:
            got = to_standin(g.body)
        except ValueError as exc:
            problems.append(f"GPR.from_string({text!r}): {exc}")
            continue
        if tree_genes(got) != tree_genes(want) or set(g._genes) != tree_genes(want):
            problems.append(f"GPR.from_string({text!r}) mentions the genes {sorted(tree_genes(got))} (gene set {sorted(g._genes)}), the text says {sorted(tree_genes(want))}")
            continue
        ns = sorted(tree_genes(want))
        wrong = [k for r in range(len(ns) + 1) for k in itertools.combinations(ns, r) if tree_truth(got, set(k)) != tree_truth(want, set(k))]
        if wrong:
            problems.append(f"GPR.from_string({text!r}) is {show(got)}: with {sorted(wrong[0])} knocked out it is {tree_truth(got, set(wrong[0]))}, the text says {tree_truth(want, set(wrong[0]))}")
    # empty text
    for text in ("", "   "):
        it = Interp(prog, (Node, pyast.AST), [], stubs, globals_={"str": str})
        holder["it"] = it
        try:
            g = Factory().from_string(text)
            if not isinstance(g, GPRs) or g.body is not None:
                problems.append(f"GPR.from_string({text!r}) is not the empty rule")
        except EvalRaise as exc:
            problems.append(f"GPR.from_string({text!r}) raises {exc.exc_type}")
        except Unknown as exc:
            raise AnalysisError(f"{rule}: GPR.from_string({text!r}) cannot be evaluated: {exc}")
    if problems:
        ctx.bad(rule, fs, fs.node, problems[0] + (f" (+{len(problems) - 1} more)" if len(problems) > 1 else ""))
    else:
        ctx.ok(rule, fs, "text -> rule", f"{n} rule texts over {len(ids)} identifiers that need escaping (table characters, leading digit, keywords): parsed rules mention exactly the identifiers of the text and are the Boolean function it says (evaluated; Python's ast.parse parses)")
