"""C02 - model edits keep cross-references consistent (pairing shape)."""
from __future__ import annotations

import ast
from typing import Dict, List, Optional, Set, Tuple

from .. import AnalysisError
from ..cfg import CFG, Node, describe_path, no_exc
from ..effects import CONST, FRESH, SELF, Eff
from ..program import FuncInfo, ancestors, enclosing_stmt, norm, parent, walk_local
from .common import incoming_element, same_key_rebuild, sub_nodes

EXPLANATION = (
    "Decided for all paths of every function that touches them: (backref) adding/removing a metabolite or gene "
    "to/from a reaction is paired with the back-reference on the metabolite/gene (whole-set rebinding needs the "
    "old members dissociated or re-associated; canonical rebuild and same-key rebuild are recognised); (attach) "
    "when reactions are inserted into a model every metabolite already in the model gets its back-reference and "
    "every reaction has its genes derived from its rule; (owner) every object inserted into a model list has "
    "its model pointer set in the same operation; (index) an identifier change of a listed object is followed "
    "by the re-index of its list, for every class that can be listed; (rule) every change of a reaction's rule "
    "object (assignment or in-place visitor pass) is followed by update_genes_from_gpr, and rule objects are "
    "never shared between reactions; (zero) the zero-coefficient clean-up runs on every path that edits "
    "coefficients; (checked) model lists are only extended through the uniqueness-checking DictList API. "
    "NOT decided: that each operation does exactly what its documentation says beyond these invariants."
)
ASSUMPTIONS = [
    "objects that are not part of the model when an operation starts may keep stale back-references (they are not model state)",
    "Reaction.update_genes_from_gpr derives the gene set from the rule (its own pairing is checked under backref)",
]

MODEL_LISTS = {"Model.reactions": "Reaction", "Model.metabolites": "Metabolite", "Model.genes": "Gene", "Model.groups": "Group"}
BACKREF_EXCEPTIONS = {
    ("core.model.Model.remove_reactions", "met._reaction.remove(reaction)"):
        "the reaction is detached in the same operation and keeps its stoichiometry so that it can be re-added",
    ("core.model.Model.remove_reactions", "gene._reaction.remove(reaction)"):
        "see above (the reaction keeps its gene set while detached)",
}


def run(ctx) -> None:
    ctx.rule("C02.backref", "T1: forward references (reaction -> metabolite/gene) and back-references are changed together", floor=14)
    ctx.rule("C02.attach", "T1: inserting reactions into a model links every existing metabolite and derives the genes of every reaction", floor=2)
    ctx.rule("C02.owner", "T1: objects inserted into a model list get their model pointer in the same operation", floor=11)
    ctx.rule("C02.index", "T1: an identifier change of a listed object is followed by the re-index of its list", floor=6)
    ctx.rule("C02.rule", "T1/T8: a changed rule object is followed by update_genes_from_gpr; rule objects are not shared between reactions", floor=9)
    ctx.rule("C02.zero", "T1: every edit of coefficients reaches the zero-coefficient clean-up", floor=3)
    ctx.rule("C02.checked", "T4: model lists are extended only through the checking DictList API", floor=10)
    from . import eqform

    ctx.rule("C02.equation", "finite evaluation: the equation parser/writer set net coefficients and direction as the string says", floor=2)
    ctx.guard(eqform.check_equation, ctx, "C02.equation")
    from . import genesform

    ctx.rule("C02.genes", "finite evaluation: update_genes_from_gpr links a reaction to the model's own gene objects for exactly the identifiers of its rule", floor=1)
    n0, d0 = len(ctx.findings), len(ctx.deferred)
    ctx.guard(genesform.check_update_genes, ctx, "C02.genes")
    ctx.genes_clause_holds = len(ctx.findings) == n0 and len(ctx.deferred) == d0
    check_backref(ctx)
    check_attach(ctx)
    check_owner(ctx)
    ctx.guard(check_groups, ctx)
    check_index(ctx)
    check_rule(ctx)
    check_zero(ctx)
    check_checked(ctx)
    # a reaction takes over metabolite *objects*: one that belongs to another model must be copied, or that model's
    # metabolite ends up listing a reaction that is not in it (shared with C12)
    from . import c12

    ctx.rule("C12.detach", "finite domain: add_metabolites copies a metabolite iff it belongs to a model that is not the reaction's (shared with C12)", floor=1)
    c12.check_foreign_copy_guard(ctx)
    from . import replayform

    ctx.rule("C02.replay", "bounded evaluation: after every editing operation of the pool (alone, in ordered pairs, inside contexts, refused ones) all cross-references of the stand-in model agree", floor=1)
    ctx.guard(replayform.check_replay, ctx, "C02.replay", "c02")
    ctx.rule("C02.effect", "bounded evaluation: each editing operation of a table written from the documentation leaves the named cells of the stand-in model with the documented values and every other cell as it was", floor=1)
    ctx.guard(replayform.check_effects, ctx, "C02.effect")
    ctx.rule("C02.group", "finite evaluation: Group.add_members adds every given object, remove_members removes exactly those", floor=1)
    ctx.guard(genesform.check_group_members, ctx, "C02.group")
    from . import stores

    ctx.rule("C02.derived", "T1: a value derived from an object's own state and kept on the object is dropped by every method of the class that changes that state", floor=6, hard=1)
    ctx.guard(stores.check_derived_stores, ctx, "C02.derived")
    ctx.rule("C02.readonly", "T8: an operand that is documented as a source (the right-hand model of merge) is only read: nothing reachable from it is written or adopted", floor=1)
    check_readonly(ctx)


# Reaction arithmetic is deliberately not listed: `r1 += r2` takes over the metabolite objects of a model-less `r2` by
# reference (documented behaviour of add_metabolites), so "only read" is not what the code promises there.
READ_ONLY_OPERANDS = [
    ("cobra.core.model", "Model.merge", "right"),
]


def check_readonly(ctx) -> None:
    """Effect summary of the operation, restricted to what is rooted in the source operand: must be empty (objects
    taken over from it have to be copies)."""
    for mod, q, p in READ_ONLY_OPERANDS:
        fn = ctx.prog.func(mod, q)
        if p not in fn.params:
            raise AnalysisError(f"C02.readonly: {q} has no parameter {p}")
        hits = [e for e in ctx.eff.summary(fn) if e.kind in ("RAW", "REV") and any(r == ("param", p) for r in e.roots)]
        if hits:
            e = hits[0]
            site = e.chain[0][1] if e.chain else e.node
            via = " <- ".join(f"{c[0].short}@L{getattr(c[1], 'lineno', 0)}" for c in e.chain[:3])
            ctx.bad("C02.readonly", fn, enclosing_stmt(site) if isinstance(site, ast.AST) else fn.node, f"{q} changes `{p}` (or objects reachable from it): {e.cell} {e.op}{' via ' + via if via else ''} (+{len(hits) - 1} more): the operand is a source that must be left as it was, what is taken over has to be a copy")
        else:
            ctx.ok("C02.readonly", fn, p, f"`{p}` is only read")


def check_groups(ctx) -> None:
    """An object that leaves a model list leaves the model's groups on the same pass: in each removal function every
    path through the per-object loop body passes the group dissociation (T1 must-pass-through per iteration)."""
    prog = ctx.prog
    for mod, short in (("cobra.core.model", "Model.remove_metabolites"), ("cobra.core.model", "Model.remove_reactions"), ("cobra.manipulation.delete", "remove_genes")):
        fn = prog.func(mod, short)
        g = ctx.flow.cfg(fn)
        calls = [n for n in walk_local(fn.node) if isinstance(n, ast.Call) and norm(n.func).endswith("get_associated_groups") and n.args]
        if not calls:
            ctx.bad("C02.owner", fn, fn.node, f"{short} does not take the removed objects out of the model's groups")
            continue
        for c in calls:
            obj = norm(c.args[0])
            loop = None
            for a in ancestors(c):
                if a is fn.node:
                    break
                if isinstance(a, ast.For) and any(isinstance(t, ast.Name) and t.id == obj for t in ast.walk(a.target)):
                    loop = a
                    break
            if loop is None:
                ctx.bad("C02.owner", fn, c, f"the group dissociation of `{obj}` is not inside the loop over the removed objects")
                continue
            head = [x for x in g.nodes if x.kind == "loop" and x.ast is loop.iter]
            blockers = {x for x in g.node_containing(c) if x.kind != "with_exit"}
            first = loop.body[0]
            body_first = [x for x in g.nodes if x.ast is not None and (x.ast is first or x.ast is getattr(first, "test", None) or x.ast is getattr(first, "iter", None) or x.ast is getattr(first, "value", None))]
            if not head or not body_first:
                raise AnalysisError(f"{short}: loop nodes not found in the flow graph")
            # the removal branch only: iterations that skip the object altogether (e.g. `not in the model`) are not removals
            w = None
            if not any(b in blockers for b in body_first):
                seen = g.reach(body_first, avoid=lambda x: x in blockers, edge_ok=no_exc, include_start=True)
                for h in head:
                    if h in seen:
                        w = g.path_to(seen, h)
                        break
            if w is not None and _path_removes(ctx, fn, w):
                ctx.bad("C02.owner", fn, c, f"an iteration of {short} can finish without taking `{obj}` out of the model's groups: a group then lists an object that is no longer in the model", path=describe_path(w))
            else:
                ctx.ok("C02.owner", fn, c, f"every iteration that removes `{obj}` also takes it out of its groups")


def _path_removes(ctx, fn: FuncInfo, path) -> bool:
    """The path does something to the object (it is not an iteration that merely skips it)."""
    for n in path:
        if n.ast is None or n.kind not in ("stmt",):
            continue
        if isinstance(n.ast, (ast.Assign, ast.AugAssign, ast.Expr, ast.For)) and not (isinstance(n.ast, ast.Expr) and isinstance(n.ast.value, ast.Call) and norm(n.ast.value.func) in ("warn", "logger.warning")):
            return True
    return False


def _recv(ctx, fn: FuncInfo, e: Optional[ast.AST]) -> str:
    return norm(ctx.inf.expand_alias(fn, e), 200) if e is not None else ""


def _nodes(g: CFG, n: ast.AST) -> Set[Node]:
    return {x for x in g.node_containing(n) if x.kind != "with_exit"}


# --------------------------------------------------------------------------------------- backref
def _backref_calls(ctx, fn: FuncInfo, op: str) -> List[Tuple[ast.Call, str, str]]:
    """Calls X._reaction.<op-class>(R) in fn: (call, X text, R text)."""
    names = {"add": ("add",), "remove": ("remove", "discard", "clear")}[op]
    out = []
    for n in walk_local(fn.node):
        if isinstance(n, ast.Call) and isinstance(n.func, ast.Attribute) and n.func.attr in names:
            cont = ctx.inf.expand_alias(fn, n.func.value)
            if isinstance(cont, ast.Attribute) and cont.attr == "_reaction":
                out.append((n, norm(cont.value), norm(n.args[0]) if n.args else ""))
        # helper calls that do the pair themselves
        if isinstance(n, ast.Call) and isinstance(n.func, ast.Attribute) and n.func.attr in ("_associate_gene", "_dissociate_gene"):
            if (op == "add") == (n.func.attr == "_associate_gene"):
                out.append((n, norm(n.args[0]) if n.args else "", norm(n.func.value)))
    return out


def check_backref(ctx) -> None:
    prog, eff = ctx.prog, ctx.eff
    for fn in sorted(prog.all_funcs(), key=lambda f: f.qualname):
        own = [e for e in eff.own_effects(fn) if e.kind == "RAW" and e.cell in ("Reaction._metabolites", "Reaction._genes")]
        if not own:
            continue
        g = ctx.flow.cfg(fn)
        for e in own:
            st = enclosing_stmt(e.node)
            key = (fn.qualname.replace("cobra.", "", 1), norm(st))
            if key in BACKREF_EXCEPTIONS:
                ctx.ok("C02.backref", fn, st, f"frozen exception: {BACKREF_EXCEPTIONS[key]}")
                continue
            owner_name = e.recv.value if isinstance(e.recv, ast.Attribute) else None
            if e.op == "remove" and isinstance(owner_name, ast.Name) and incoming_element(ctx, fn, owner_name.id):
                ctx.ok("C02.backref", fn, st, f"`{owner_name.id}` is an element of the collection this operation inserts into the model: the key it drops is a foreign copy of a model metabolite, whose stale back-reference is not model state")
                continue
            kind = _classify_forward_write(ctx, fn, e)
            if kind == "existing":
                ctx.ok("C02.backref", fn, st, "updates the coefficient of a key the reaction already has", nontrivial=False)
                continue
            if kind == "init":
                ctx.ok("C02.backref", fn, st, "empty container of a new object", nontrivial=False)
                continue
            if kind == "samekeys":
                ctx.ok("C02.backref", fn, st, "same-key rebuild: the set of referenced objects does not change")
                continue
            if kind == "rebind":
                _check_rebind(ctx, fn, e, g)
                continue
            want = "add" if kind == "add" else "remove"
            calls = _backref_calls(ctx, fn, want)
            elem = _element_text(ctx, fn, e)
            owner = _recv(ctx, fn, e.recv.value if isinstance(e.recv, ast.Attribute) else e.recv)
            good = [c for c, x, r in calls if (not elem or x == elem) and (not r or not owner or r == owner)]
            if not good and isinstance(e.recv, ast.AST):
                # the pairing is done for every member in a loop over the changed container
                cont = _recv(ctx, fn, e.recv)
                for c, x, r in calls:
                    for a in ancestors(c):
                        if a is fn.node:
                            break
                        if isinstance(a, ast.For) and _recv(ctx, fn, a.iter) == cont and isinstance(a.target, ast.Name) and a.target.id == x:
                            good.append(c)
                            lp_nodes = a
            if not good:
                ctx.bad("C02.backref", fn, st, f"a {'new' if want == 'add' else 'removed'} forward reference ({e.cell}) is not matched by the back-reference `{elem or '<element>'}._reaction.{want}({owner or '<reaction>'})`")
                continue
            blockers: Set[Node] = set()
            for c in good:
                blockers |= _nodes(g, c)
                for a in ancestors(c):
                    if a is fn.node:
                        break
                    if isinstance(a, ast.For) and isinstance(e.recv, ast.AST) and _recv(ctx, fn, a.iter) == _recv(ctx, fn, e.recv):
                        blockers |= set(g.nodes_for(a))
            anchors = list(_nodes(g, e.node))
            w = None
            for a in anchors:
                after = g.escapes([a], lambda n: n in blockers, [g.exit], edge_ok=no_exc)
                if after is None:
                    continue
                before = g.reaches_without([a], lambda n: n in blockers, edge_ok=no_exc)
                if before is None:
                    continue
                w = before + after
                break
            if w is not None:
                ctx.bad("C02.backref", fn, st, f"a path changes {e.cell} without the matching back-reference {want}", path=describe_path(w))
            else:
                ctx.ok("C02.backref", fn, st, f"{e.cell} {e.op} <-> {norm(good[0], 60)}")
    # reverse direction where it matters: canonical rebuild in Model.repair
    rp = prog.func("cobra.core.model", "Model.repair")
    clears = [c for c, x, r in _backref_calls(ctx, rp, "remove") if isinstance(c.func, ast.Attribute) and c.func.attr == "clear"]
    adds = _backref_calls(ctx, rp, "add")
    upd = [n for n in walk_local(rp.node) if isinstance(n, ast.Call) and isinstance(n.func, ast.Attribute) and n.func.attr == "update_genes_from_gpr"]
    if clears and adds and upd:
        ctx.ok("C02.backref", rp, enclosing_stmt(clears[0]), "canonical rebuild: every back-reference cleared, then re-derived from every forward reference")
    elif clears:
        ctx.bad("C02.backref", rp, enclosing_stmt(clears[0]), "repair() clears the back-references but no longer re-derives all of them from the reactions")


def _classify_forward_write(ctx, fn: FuncInfo, e: Eff) -> str:
    n = e.node
    st = enclosing_stmt(n)
    if isinstance(st, ast.AugAssign) and isinstance(st.target, ast.Subscript):
        return "existing"
    if isinstance(st, ast.Assign) and len(st.targets) == 1:
        t = st.targets[0]
        if isinstance(t, ast.Attribute):
            v = st.value
            if isinstance(v, (ast.Dict, ast.Set)) and not (v.keys if isinstance(v, ast.Dict) else v.elts):
                return "init" if fn.name in ("__init__",) else "rebind"
            if isinstance(v, ast.Call) and isinstance(v.func, ast.Name) and v.func.id in ("set", "dict") and not v.args:
                return "init" if fn.name in ("__init__",) else "rebind"
            if same_key_rebuild(fn, t, v):
                return "samekeys"
            if isinstance(v, ast.DictComp) and len(v.generators) == 1:
                gen = v.generators[0]
                it = gen.iter
                if isinstance(it, ast.Call) and isinstance(it.func, ast.Attribute) and it.func.attr == "items" and _recv(ctx, fn, it.func.value) == _recv(ctx, fn, t):
                    if isinstance(gen.target, ast.Tuple) and isinstance(v.key, ast.Name) and isinstance(gen.target.elts[0], ast.Name) and v.key.id == gen.target.elts[0].id and not gen.ifs:
                        return "samekeys"
            return "rebind"
        if isinstance(t, ast.Subscript):
            k = t.slice
            if isinstance(k, ast.Name):
                owner, defs = ctx.inf.lookup_name(fn, k.id)
                # key looked up in an id map built from the reaction's own stoichiometry
                for d in defs:
                    if d.kind == "assign" and isinstance(d.value, ast.Subscript) and isinstance(d.value.value, ast.Name):
                        o2, d2 = ctx.inf.lookup_name(owner, d.value.value.id)
                        if d2 and all("_metabolites" in norm(x.value) for x in d2 if isinstance(x.value, ast.AST)):
                            return "existing"
            return "add"
    if e.op in ("remove", "clear"):
        return "remove"
    if e.op == "add":
        return "add"
    return "add" if e.op == "write" else "rebind"


def _element_text(ctx, fn: FuncInfo, e: Eff) -> str:
    st = enclosing_stmt(e.node)
    if isinstance(e.node, ast.Call) and e.node.args:
        return norm(e.node.args[0])
    if isinstance(st, ast.Assign) and isinstance(st.targets[0], ast.Subscript):
        return norm(st.targets[0].slice)
    return ""


def _check_rebind(ctx, fn: FuncInfo, e: Eff, g: CFG) -> None:
    """``X._genes = set()`` / ``X._metabolites = {...}``: the old members must be dissociated (loop over a
    snapshot taken before) or the function must re-derive everything."""
    st = enclosing_stmt(e.node)
    target_text = _recv(ctx, fn, e.recv.value if isinstance(e.recv, ast.Attribute) else e.recv)
    attr = e.cell.split(".")[1]
    # snapshot of the old members taken before the rebind
    snaps = []
    for name, defs in ctx.inf.scope(fn).defs.items():
        for d in defs:
            if d.kind == "assign" and isinstance(d.value, ast.Call) and isinstance(d.value.func, ast.Attribute) and d.value.func.attr == "copy":
                if isinstance(d.value.func.value, ast.Attribute) and d.value.func.value.attr == attr and ctx.eff.dominated_by(fn, st, [d.node]):
                    snaps.append(name)
    removers = _backref_calls(ctx, fn, "remove")
    ok = False
    for c, x, r in removers:
        for a in ancestors(c):
            if a is fn.node:
                break
            if isinstance(a, ast.For) and any(s in {n.id for n in ast.walk(a.iter) if isinstance(n, ast.Name)} for s in snaps):
                ok = True
    if ok:
        ctx.ok("C02.backref", fn, st, f"whole-set rebinding: old members (snapshot {snaps}) are dissociated afterwards")
    elif fn.short in ("Reaction.__setstate__",):
        ctx.ok("C02.backref", fn, st, "construction path", nontrivial=False)
    else:
        ctx.bad("C02.backref", fn, st, f"{e.cell} is replaced as a whole but the objects it referenced keep their back-reference to the reaction")


# ---------------------------------------------------------------------------------------- attach
def check_attach(ctx) -> None:
    prog, eff = ctx.prog, ctx.eff
    fn = prog.func("cobra.core.model", "Model.add_reactions")
    g = ctx.flow.cfg(fn)
    # loop over the incoming reaction's metabolites
    loops = [n for n in walk_local(fn.node) if isinstance(n, ast.For) and ("metabolites" in norm(n.iter)) and "self" not in norm(n.iter).split(".")[0]]
    loops = [lp for lp in loops if any(isinstance(a, ast.For) for a in ancestors(lp))]
    if not loops:
        raise AnalysisError("Model.add_reactions: loop over the incoming reaction's metabolites not found")
    for lp in loops:
        heads = g.nodes_for(lp)
        link: Set[Node] = set()
        for n in ast.walk(lp):
            if isinstance(n, ast.Call) and isinstance(n.func, ast.Attribute):
                if n.func.attr == "add_metabolites":
                    link |= _nodes(g, n)
                cont = ctx.inf.expand_alias(fn, n.func.value)
                if n.func.attr == "add" and isinstance(cont, ast.Attribute) and cont.attr == "_reaction":
                    link |= _nodes(g, n)
        # a full iteration: from the first body statement back to the header / out of the loop
        first = set()
        for st in lp.body[:1]:
            first |= _nodes(g, st)
        body_nodes = set()
        for st in lp.body:
            for sub in ast.walk(st):
                body_nodes |= set(g.by_ast.get(id(sub), []))
        seen = g.reach(list(first), avoid=lambda n: n in link, edge_ok=no_exc, include_start=True)
        leak = [h for h in heads if h in seen]
        if leak:
            ctx.bad("C02.attach", fn, lp, "an iteration over the added reaction's metabolites can finish without adding the metabolite to the model or linking the model's metabolite back to the reaction", path=describe_path(g.path_to(seen, leak[0])))
        else:
            ctx.ok("C02.attach", fn, lp, "every metabolite of an added reaction is added to the model or linked back")
    # every added reaction derives its genes from its rule
    outer = [n for n in walk_local(fn.node) if isinstance(n, ast.For) and not any(isinstance(a, ast.For) for a in ancestors(n) if a is not fn.node and isinstance(a, ast.For))]
    done = False
    for lp in outer:
        upd = [n for n in ast.walk(lp) if isinstance(n, ast.Call) and isinstance(n.func, ast.Attribute) and n.func.attr == "update_genes_from_gpr"]
        if not upd:
            continue
        done = True
        blockers = set()
        for u in upd:
            blockers |= _nodes(g, u)
        first = set()
        for st in lp.body[:1]:
            first |= _nodes(g, st)
        seen = g.reach(list(first), avoid=lambda n: n in blockers, edge_ok=no_exc, include_start=True)
        leak = [h for h in g.nodes_for(lp) if h in seen]
        if leak:
            ctx.bad("C02.attach", fn, lp, "a reaction can be added without deriving (and linking) its genes from its rule", path=describe_path(g.path_to(seen, leak[0])))
        else:
            ctx.ok("C02.attach", fn, upd[0], "update_genes_from_gpr runs for every added reaction")
    if not done:
        ctx.bad("C02.attach", fn, fn.node, "add_reactions no longer derives the genes of the added reactions from their rules")


# ----------------------------------------------------------------------------------------- owner
def check_owner(ctx) -> None:
    prog, eff, inf = ctx.prog, ctx.eff, ctx.inf
    for fn in sorted(prog.all_funcs(), key=lambda f: f.qualname):
        adds = [e for e in eff.own_effects(fn) if e.kind == "RAW" and e.cell in MODEL_LISTS and e.op == "add"]
        if not adds:
            continue
        regs = [e.node for e in eff.own_effects(fn) if e.kind == "REG"]
        g = ctx.flow.cfg(fn)
        for e in adds:
            st = enclosing_stmt(e.node)
            if any(e.node is r or e.node in ast.walk(r) for r in regs):
                continue
            if fn.short == "DictList.__init__":
                continue
            elem = e.value
            if not isinstance(elem, ast.AST):
                ctx.bad("C02.owner", fn, st, "cannot tell which object is inserted into the model list")
                continue
            model_text = _recv(ctx, fn, e.recv.value if isinstance(e.recv, ast.Attribute) else None)
            if _owner_set(ctx, fn, elem, model_text, st, g):
                ctx.ok("C02.owner", fn, st, f"inserted object(s) get `_model = {model_text or 'model'}` in the same operation")
            elif _reinsertion(ctx, fn, elem):
                ctx.ok("C02.owner", fn, st, "re-insertion of an object this operation removed without clearing its pointer", nontrivial=False)
            elif fn.short == "Reaction.update_genes_from_gpr" and _genes_clause_holds(ctx):
                # the evaluated clause C02.genes decides ownership for this function (every gene the reaction ends up
                # linked to belongs to the model, whichever statement hands it the pointer); the reading only explains
                ctx.note(f"C02.owner: `{norm(st, 60)}` in update_genes_from_gpr sets no model pointer next to the insertion; the evaluated clause C02.genes finds every linked gene owned by the model")
            else:
                ctx.bad("C02.owner", fn, st, f"objects are inserted into {e.cell} without setting their model pointer: a listed object then reports `model is None`")
    check_detached_adoption(ctx)


def _genes_clause_holds(ctx) -> bool:
    """Verdict of the evaluated clause C02.genes (run quietly when the calling rule set has not run it itself)."""
    if not hasattr(ctx, "genes_clause_holds"):
        from . import genesform

        class _Probe:
            prog = ctx.prog

            def __init__(self):
                self.failed = False

            def bad(self, *a, **k):
                self.failed = True

            def ok(self, *a, **k):
                pass

        probe = _Probe()
        try:
            genesform.check_update_genes(probe, "C02.genes")
            ctx.genes_clause_holds = not probe.failed
        except Exception:  # noqa: BLE001 - not evaluable: the structural reading stays armed
            ctx.genes_clause_holds = False
    return ctx.genes_clause_holds


def check_detached_adoption(ctx) -> None:
    """A reaction without a model associates only gene objects it creates itself: `_associate_gene` hands the gene the
    reaction's model pointer (None), so taking over an existing gene object - which may be listed in a model the
    reaction was removed from - would leave that model with a listed gene that reports `model is None` and lists a
    reaction the model does not contain."""
    from ..effects import CONST, FRESH

    fn = ctx.prog.func("cobra.core.reaction", "Reaction.update_genes_from_gpr")
    sn = fn.self_name
    found = False
    for n in walk_local(fn.node):
        if not isinstance(n, ast.If):
            continue
        t = " ".join(ast.unparse(n.test).split())
        if t in (f"{sn}._model is None", f"{sn}.model is None", f"not {sn}._model", f"not {sn}.model"):
            branch = n.body
        elif t in (f"{sn}._model is not None", f"{sn}.model is not None", f"{sn}._model", f"{sn}.model"):
            branch = n.orelse
        else:
            continue
        for st in branch:
            for x in ast.walk(st):
                vals = []
                if isinstance(x, ast.Assign) and any(isinstance(tg, ast.Attribute) and tg.attr == "_genes" and norm(tg.value) == sn for tg in x.targets):
                    vals = [x.value]
                elif isinstance(x, ast.Call) and isinstance(x.func, ast.Attribute) and x.func.attr in ("add", "update") and norm(x.func.value) == f"{sn}._genes" and x.args:
                    vals = [x.args[0]]
                elif isinstance(x, ast.Call) and isinstance(x.func, ast.Attribute) and x.func.attr == "_associate_gene" and x.args:
                    vals = [x.args[0]]
                for v in vals:
                    found = True
                    elems = [v.elt] if isinstance(v, (ast.SetComp, ast.ListComp, ast.GeneratorExp)) else (list(v.elts) if isinstance(v, (ast.Set, ast.List, ast.Tuple)) else [v])
                    flat = []
                    for e in elems:
                        while isinstance(e, ast.IfExp):
                            flat.append(e.body)
                            e = e.orelse
                        flat.append(e)
                    foreign = [e for e in flat if any(r not in (FRESH, CONST) for r in ctx.eff.roots_of(fn, e)) and not (isinstance(e, ast.Call) and norm(e.func).split(".")[-1] in ("set", "Gene"))]
                    if foreign:
                        ctx.bad("C02.owner", fn, enclosing_stmt(x), f"a reaction without a model takes over an existing gene object (`{norm(foreign[0], 50)}`) and hands it its own model pointer (None): for a reaction that was removed from a model the gene is still listed in that model, which then lists a gene with `model is None` that refers to a reaction the model does not contain")
                    else:
                        ctx.ok("C02.owner", fn, enclosing_stmt(x), "a reaction without a model associates only gene objects it creates itself")
    if not found:
        ctx.note("C02.owner: update_genes_from_gpr has no recognisable model-less branch; detached adoption not read")


def _owner_set(ctx, fn: FuncInfo, elem: ast.AST, model_text: str, st: ast.AST, g: CFG) -> bool:
    """Is ``elem._model`` (or every element of the list ``elem``) assigned the model in this function?"""
    inf = ctx.inf
    elem_names = {n.id for n in ast.walk(elem) if isinstance(n, ast.Name)}
    # element expression may be a list literal [x]
    for n in walk_local(fn.node):
        if isinstance(n, ast.Assign):
            for t in n.targets:
                if isinstance(t, ast.Attribute) and t.attr == "_model" and not (isinstance(n.value, ast.Constant) and n.value.value is None):
                    obj = t.value
                    if isinstance(obj, ast.Name):
                        if obj.id in elem_names and not any(isinstance(a, ast.For) and _loop_var(a) == obj.id for a in ancestors(n)):
                            return True
                        # loop over the same list / the loop that also does the insertion
                        for a in ancestors(n):
                            if isinstance(a, ast.For) and _loop_var(a) == obj.id:
                                it_names = {x.id for x in ast.walk(a.iter) if isinstance(x, ast.Name)}
                                if it_names & elem_names or obj.id in elem_names:
                                    return True
                                # the inserted collection is built from the loop variable
                                if any(_built_from(ctx, fn, nm, obj.id, a) for nm in elem_names):
                                    return True
        elif isinstance(n, ast.Call) and isinstance(n.func, ast.Name) and n.func.id == "setattr" and len(n.args) == 3:
            if isinstance(n.args[1], ast.Constant) and n.args[1].value == "_model" and isinstance(n.args[0], ast.Name) and n.args[0].id in elem_names:
                return True
    # constructor that receives the model / helper that sets the pointer
    if isinstance(elem, ast.Name):
        owner, defs = inf.lookup_name(fn, elem.id)
        for d in defs:
            if d.kind == "assign" and isinstance(d.value, ast.Call):
                for callee, _ in inf.call_targets(owner, d.value):
                    for e2 in ctx.eff.own_effects(callee):
                        if e2.kind == "RAW" and e2.cell.endswith("._model") and isinstance(e2.value, ast.AST) and not (isinstance(e2.value, ast.Constant)):
                            return True
    return False


def _loop_var(lp: ast.For) -> Optional[str]:
    return lp.target.id if isinstance(lp.target, ast.Name) else None


def _built_from(ctx, fn: FuncInfo, coll: str, var: str, loop: ast.For) -> bool:
    """``coll.append(var)`` / ``coll += [var]`` inside the loop."""
    for n in ast.walk(loop):
        if isinstance(n, ast.Call) and isinstance(n.func, ast.Attribute) and n.func.attr in ("append", "add") and isinstance(n.func.value, ast.Name) and n.func.value.id == coll:
            if n.args and any(isinstance(x, ast.Name) and x.id == var for x in ast.walk(n.args[0])):
                return True
    return False


def _reinsertion(ctx, fn: FuncInfo, elem: ast.AST) -> bool:
    return False


# ----------------------------------------------------------------------------------------- index
LISTED = {"Reaction": "reactions", "Metabolite": "metabolites", "Gene": "genes", "Group": "groups"}


def check_index(ctx) -> None:
    prog = ctx.prog
    stub = prog.func("cobra.core.object", "Object._set_id_with_model")
    by_impl: Dict[int, List[str]] = {}
    impls: Dict[int, FuncInfo] = {}
    for cname, lst in LISTED.items():
        ms = [m for m in prog.find_method(cname, "_set_id_with_model") if m.prop_kind is None]
        if not ms:
            raise AnalysisError(f"{cname}._set_id_with_model not found")
        by_impl.setdefault(id(ms[0]), []).append(cname)
        impls[id(ms[0])] = ms[0]
    for k, classes in by_impl.items():
        fn = impls[k]
        g = ctx.flow.cfg(fn)
        writes = [n for n in walk_local(fn.node) if isinstance(n, ast.Assign) and any(isinstance(t, ast.Attribute) and t.attr == "_id" for t in n.targets)]
        reidx = [n for n in walk_local(fn.node) if isinstance(n, ast.Call) and isinstance(n.func, ast.Attribute) and n.func.attr == "_generate_index"]
        for w in writes:
            want_lists = {LISTED[c] for c in classes}
            have = {norm(ctx.inf.expand_alias(fn, r.func.value)).split(".")[-1] for r in reidx}
            if not (want_lists <= have):
                missing = sorted(c for c in classes if LISTED[c] not in have)
                ctx.bad(
                    "C02.index",
                    fn,
                    w,
                    f"{'/'.join(missing)} use this implementation: changing the id of a {'/'.join(missing).lower()} that is in a model does not re-index model.{'/'.join(LISTED[c] for c in missing)}, so the object is no longer found under its identifier",
                )
                continue
            blockers = set()
            for r in reidx:
                blockers |= _nodes(g, r)
            esc = g.escapes(list(_nodes(g, w)), lambda n: n in blockers, [g.exit], edge_ok=no_exc)
            if esc is not None:
                ctx.bad("C02.index", fn, w, "the identifier is changed on a path that does not re-index the model list", path=describe_path(esc))
            else:
                ctx.ok("C02.index", fn, w, f"id change of a listed {'/'.join(classes)} followed by re-index")
        # uniqueness: the new id is tested against the list before the write
        if fn is not stub:
            tests = [n for n in walk_local(fn.node) if isinstance(n, ast.Compare) and any(isinstance(op, ast.In) for op in n.ops)]
            raises = [n for n in walk_local(fn.node) if isinstance(n, ast.Raise)]
            if tests and raises:
                ctx.ok("C02.index", fn, tests[0], "a duplicate identifier is rejected before the change")
            else:
                ctx.bad("C02.index", fn, fn.node, "the new identifier is no longer tested for uniqueness in the model list")
    # other writers of .id on listed objects (rename_genes)
    for fn in sorted(prog.all_funcs(), key=lambda f: f.qualname):
        if fn.short in ("Object.id", "Object.__init__") or fn.name == "_set_id_with_model":
            continue
        if fn.cls is not None and ({"NodeTransformer", "NodeVisitor"} & set(prog.ext_bases(fn.cls))):
            continue  # ast.Name nodes of a rule tree (annotated as "Gene" in the source), not model genes
        for e in ctx.eff.own_effects(fn):
            if e.kind == "CALL" and e.note == "setter" and e.cell.endswith(".id=") and isinstance(e.recv, ast.AST):
                ts = ctx.inf.type_of(fn, e.recv)
                listed = [t[1] for t in ts if t[0] == "cls" and t[1] in ("Gene", "Group")]
                if not listed:
                    continue
                roots = ctx.eff.roots_of(fn, e.recv)
                if all(r in (FRESH, CONST) for r in roots):
                    continue
                g = ctx.flow.cfg(fn)
                reidx = set()
                for n in walk_local(fn.node):
                    if isinstance(n, ast.Call) and isinstance(n.func, ast.Attribute) and n.func.attr in ("_generate_index", "repair") and not ctx.eff.is_registration(fn, n):
                        reidx |= _nodes(g, n)
                esc = g.escapes(list(_nodes(g, e.node)), lambda n: n in reidx, [g.exit], edge_ok=no_exc)
                st = enclosing_stmt(e.node)
                if esc is None:
                    ctx.ok("C02.index", fn, st, f"id of a listed {listed[0]} changed and the list re-indexed")
                else:
                    ctx.bad("C02.index", fn, st, f"the id of a listed {listed[0]} is changed without re-indexing the model list", path=describe_path(esc))
                    continue
                # ... and nothing consults the list's index while it is stale (a later round of the same loop looking
                # an identifier up, deciding between 'rename' and 'merge' by what the list seems to contain)
                lname = {"Gene": "genes", "Group": "groups"}[listed[0]]
                lookups = set()
                for n in walk_local(fn.node):
                    hit = False
                    if isinstance(n, ast.Call) and isinstance(n.func, ast.Attribute) and n.func.attr in ("index", "get_by_id", "has_id", "get_by_any", "query") and norm(ctx.inf.expand_alias(fn, n.func.value)).split(".")[-1] == lname:
                        hit = True
                    elif isinstance(n, ast.Compare) and any(isinstance(op, (ast.In, ast.NotIn)) for op in n.ops) and any(norm(ctx.inf.expand_alias(fn, c_)).split(".")[-1] == lname for c_ in n.comparators):
                        hit = True
                    if hit and not (isinstance(n, ast.Call) and ctx.eff.is_registration(fn, n)):
                        lookups |= _nodes(g, n)
                seen_ = g.reach(list(_nodes(g, e.node)), avoid=lambda n: n in reidx, edge_ok=no_exc)
                stale = [n for n in lookups if n in seen_]
                if stale:
                    ctx.bad("C02.index", fn, st, f"after the id of a listed {listed[0]} is changed, model.{lname} is consulted by identifier (line {min(n.lineno for n in stale)}) before it is re-indexed: the lookup still answers for the old identifiers, so a second entry that maps to the same new identifier is taken for a new name and the list ends up with two objects of one identifier", path=describe_path(g.path_to(seen_, min(stale, key=lambda n: n.lineno))))
                else:
                    ctx.ok("C02.index", fn, f"{norm(st, 40)} / lookups", f"no lookup in model.{lname} is reachable between the id change and the re-index ({len(lookups)} lookup site(s))")


# ------------------------------------------------------------------------------------------ rule
def check_rule(ctx) -> None:
    prog, eff, inf = ctx.prog, ctx.eff, ctx.inf
    for fn in sorted(prog.all_funcs(), key=lambda f: f.qualname):
        sites: List[Tuple[ast.AST, str]] = []
        for e in eff.own_effects(fn):
            if e.kind == "RAW" and e.cell == "Reaction._gpr":
                sites.append((e.node, _recv(ctx, fn, e.recv)))
                _check_not_shared(ctx, fn, e)
            elif e.kind == "CALL" and e.note == "setter" and e.cell in ("Reaction.gpr=",):
                _check_not_shared(ctx, fn, e)
        for n in walk_local(fn.node):
            if isinstance(n, ast.Call) and isinstance(n.func, ast.Attribute) and n.func.attr == "visit" and n.args:
                a = n.args[0]
                if isinstance(a, ast.Attribute) and a.attr in ("gpr", "_gpr"):
                    rts = inf.type_of(fn, n.func.value)
                    if any(t[0] == "cls" and "NodeTransformer" in prog.ext_bases(prog.classes[t[1]]) for t in rts if t[1] in prog.classes):
                        sites.append((n, _recv(ctx, fn, a.value)))
        if not sites:
            continue
        if fn.short in ("Reaction.__init__",):
            for s, _ in sites:
                ctx.ok("C02.rule", fn, enclosing_stmt(s), "new reaction: empty rule, empty gene set", nontrivial=False)
            continue
        g = ctx.flow.cfg(fn)
        for s, rtext in sites:
            st = enclosing_stmt(s)
            if any(s in ast.walk(r) for r in [e.node for e in eff.own_effects(fn) if e.kind == "REG"]):
                continue
            blockers: Set[Node] = set()
            collections: Set[str] = set()
            for n in walk_local(fn.node):
                if isinstance(n, ast.Call) and isinstance(n.func, ast.Attribute) and n.func.attr in ("update_genes_from_gpr", "repair") and not eff.is_registration(fn, n) and not _inside_registration(fn, n):
                    lp = None
                    for a in ancestors(n):
                        if a is fn.node:
                            break
                        if isinstance(a, ast.For):
                            lp = a
                            break
                    if n.func.attr == "repair" or lp is None or _recv(ctx, fn, n.func.value) == rtext and _same_loop(s, n, fn):
                        blockers |= _nodes(g, n)
                    if lp is not None and isinstance(lp.iter, ast.Name):
                        collections.add(lp.iter.id)
                        blockers_loop = set(g.nodes_for(lp))
                        # the loop only counts through the collection-add of this reaction
            for n in walk_local(fn.node):
                if isinstance(n, ast.Call) and isinstance(n.func, ast.Attribute) and n.func.attr in ("add", "append", "update") and isinstance(n.func.value, ast.Name) and n.func.value.id in collections:
                    if _same_loop(s, n, fn):
                        blockers |= _nodes(g, n)
            if fn.short == "Reaction.__setstate__":
                # genes are restored from the pickled state next to the rule
                ctx.ok("C02.rule", fn, st, "unpickling: the gene set is part of the same state", nontrivial=False)
                continue
            esc = g.escapes(list(_nodes(g, s)), lambda n: n in blockers, [g.exit], edge_ok=no_exc)
            if not blockers:
                ctx.bad("C02.rule", fn, st, "the reaction's rule object is changed but its gene set is never re-derived (update_genes_from_gpr / repair)")
            elif esc is not None:
                ctx.bad("C02.rule", fn, st, "a path changes the reaction's rule object without re-deriving its genes afterwards", path=describe_path(esc))
            else:
                ctx.ok("C02.rule", fn, st, "rule change is followed by update_genes_from_gpr (directly, via a revisit collection, or repair)")


def _inside_registration(fn: FuncInfo, n: ast.AST) -> bool:
    for a in ancestors(n):
        if a is fn.node:
            break
        if isinstance(a, ast.Call) and isinstance(a.func, ast.Name) and a.func.id in ("context", "partial"):
            return True
    return False


def _same_loop(a: ast.AST, b: ast.AST, fn: FuncInfo) -> bool:
    def loops(x):
        return [p for p in ancestors(x) if isinstance(p, ast.For)]

    la, lb = loops(a), loops(b)
    return (not la and not lb) or bool(set(map(id, la)) & set(map(id, lb))) or not lb


def _check_not_shared(ctx, fn: FuncInfo, e: Eff) -> None:
    v = e.value
    st = enclosing_stmt(e.node)
    if not isinstance(v, ast.AST):
        return
    src = ctx.inf.expand_alias(fn, v)
    if isinstance(src, ast.Attribute) and src.attr in ("gpr", "_gpr"):
        recv = _recv(ctx, fn, e.recv if not isinstance(e.recv, ast.Attribute) or e.cell.endswith("=") else e.recv)
        if _recv(ctx, fn, src.value) != _recv(ctx, fn, e.recv):
            ctx.bad("C02.rule", fn, st, "the rule object of another reaction is assigned by reference: both reactions then share one mutable rule tree (in-place edits of one silently change the other)")
            return
    ctx.ok("C02.rule", fn, st, "rule object is new / a copy / supplied by the caller", nontrivial=False)


# ------------------------------------------------------------------------------------------ zero
def check_zero(ctx) -> None:
    prog, eff = ctx.prog, ctx.eff
    fn = prog.func("cobra.core.reaction", "Reaction.add_metabolites")
    g = ctx.flow.cfg(fn)
    writes = [e for e in eff.own_effects(fn) if e.kind == "RAW" and e.cell == "Reaction._metabolites" and e.op == "write"]
    # the clean-up: a loop over the stoichiometry whose body pops entries under `== 0`
    cleanup: Set[Node] = set()
    site = None
    for lp in walk_local(fn.node):
        if isinstance(lp, ast.For) and "_metabolites" in norm(lp.iter):
            pops = [n for n in ast.walk(lp) if isinstance(n, ast.Call) and isinstance(n.func, ast.Attribute) and n.func.attr == "pop" and "_metabolites" in norm(n.func.value)]
            zero = [n for n in ast.walk(lp) if isinstance(n, ast.Compare) and len(n.ops) == 1 and isinstance(n.ops[0], ast.Eq) and isinstance(n.comparators[0], ast.Constant) and n.comparators[0].value == 0]
            if pops and zero:
                cleanup |= set(g.nodes_for(lp))
                site = lp
    if not cleanup:
        ctx.bad("C02.zero", fn, fn.node, "add_metabolites no longer removes entries whose coefficient became zero")
        return
    if not writes:
        raise AnalysisError("Reaction.add_metabolites: coefficient writes not found")
    for w in writes:
        esc = g.escapes(list(_nodes(g, w.node)), lambda n: n in cleanup, [g.exit], edge_ok=no_exc)
        st = enclosing_stmt(w.node)
        if esc is not None:
            ctx.bad("C02.zero", fn, st, "a path edits a coefficient and returns without the zero-coefficient clean-up (e.g. for a reaction without a model): zero entries and their back-references remain", path=describe_path(esc))
        else:
            ctx.ok("C02.zero", fn, st, "coefficient edit reaches the zero-coefficient clean-up on every path")


# --------------------------------------------------------------------------------------- checked
def check_checked(ctx) -> None:
    prog, eff = ctx.prog, ctx.eff
    for fn in sorted(prog.all_funcs(), key=lambda f: f.qualname):
        for e in eff.own_effects(fn):
            if e.kind != "RAW" or e.cell not in MODEL_LISTS or e.op not in ("add", "write"):
                continue
            st = enclosing_stmt(e.node)
            bad = e.note in ("_extend_nocheck", "_replace_on_id") or e.note.startswith("list.")
            if bad:
                ctx.bad("C02.checked", fn, st, f"{e.cell} is extended through {e.note}, which does not check identifier uniqueness")
            else:
                ctx.ok("C02.checked", fn, st, f"{e.cell} extended through the checking API ({e.note or 'operator'})", nontrivial=False)
            # a collection whose elements are attached (pointers, back-references) before it is inserted has to be
            # unique already when the attaching starts: the checking insertion would otherwise raise for a duplicate
            # inside the collection *after* its elements have been wired into the model
            v = e.value
            if isinstance(v, ast.Name) and e.op == "add":
                loops = [lp for lp in walk_local(fn.node) if isinstance(lp, ast.For) and isinstance(lp.iter, ast.Name) and lp.iter.id == v.id and lp.lineno < st.lineno]
                # loops that change *model state* while they attach the elements (objects that are not part of the model
                # yet are not model state: a stale pointer on them after a failed call is the caller's business)
                def _touches_model(lp) -> bool:
                    inside = {id(x) for x in ast.walk(lp)}
                    for e2 in eff.own_effects(fn):
                        if id(e2.node) not in inside or not any(r == SELF for r in e2.roots):
                            continue
                        if e2.kind == "RAW" and e2.cell not in ("Reaction._model", "Species._model", "Object._model"):
                            return True
                        if e2.kind == "CALL" and e2.chain and any(x.kind in ("RAW", "REV") for x in eff.summary(e2.chain[0][0])):
                            return True
                    return False

                wires = [lp for lp in loops if _touches_model(lp)]
                if wires:
                    ts = ctx.inf.type_of(fn, v)
                    if any(t[0] == "DictList" for t in ts):
                        ctx.ok("C02.checked", fn, wires[0], f"`{v.id}` is a DictList (unique identifiers) before its elements are attached")
                    elif ts:
                        ctx.bad("C02.checked", fn, wires[0], f"the elements of `{v.id}` are attached to the model (model pointer, back-references) before `{v.id}` is inserted through the checking API, and `{v.id}` is a plain {sorted(t[0] for t in ts)[0]}: two elements with the same identifier are only rejected at the insertion, after both have been wired in - the operation raises and leaves the model changed")
                    else:
                        ctx.note(f"C02.checked: the type of `{v.id}` in {fn.short} is not known; uniqueness before attaching not read")
