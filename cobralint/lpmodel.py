"""Symbolic stand-ins for a cobra model and its optlang problem.

The analysis functions build an optimisation problem by calling ``model.problem.Variable /
Constraint / Objective``, ``model.add_cons_vars`` and by assigning ``model.objective``.  The rules
evaluate those functions with the analyser's interpreter over the objects below and read off the
*formulation* that results: variables with bounds and type, linear constraints, objective and
direction, and the formulation that was in place at every solve.  Nothing is solved; a solve
returns a generic number so that bounds derived from it can be recognised.
"""
from __future__ import annotations

from typing import Any, Dict, Iterable, List, Optional, Tuple


class Unsupported(Exception):
    pass


def _num(x) -> bool:
    return isinstance(x, (int, float)) and not isinstance(x, bool)


class Lin:
    """Linear expression sum(coef * var) + const."""

    def __init__(self, terms: Optional[Dict["Var", float]] = None, const: float = 0.0):
        self.terms: Dict[Var, float] = {v: c for v, c in (terms or {}).items() if c != 0}
        self.const = const

    @staticmethod
    def of(x) -> "Lin":
        if isinstance(x, Var):
            return Lin({x: 1.0})
        if isinstance(x, Lin):
            return x
        if _num(x):
            return Lin({}, float(x))
        raise Unsupported(f"not a linear expression: {x!r}")

    def __add__(self, o):
        o = Lin.of(o)
        t = dict(self.terms)
        for v, c in o.terms.items():
            t[v] = t.get(v, 0.0) + c
        return Lin(t, self.const + o.const)

    __radd__ = __add__

    def __neg__(self):
        return Lin({v: -c for v, c in self.terms.items()}, -self.const)

    def __sub__(self, o):
        return self + (-Lin.of(o))

    def __rsub__(self, o):
        return Lin.of(o) + (-self)

    def __mul__(self, o):
        if isinstance(o, (Lin, Var)):
            o = Lin.of(o)
            if o.terms and self.terms:
                raise Unsupported("product of two expressions (non-linear)")
            if not o.terms:
                return self * o.const
            return o * self.const
        if not _num(o):
            raise Unsupported(f"expression * {o!r}")
        return Lin({v: c * o for v, c in self.terms.items()}, self.const * o)

    __rmul__ = __mul__

    def __truediv__(self, o):
        if not _num(o):
            raise Unsupported("division by an expression")
        return self * (1.0 / o)

    def __pow__(self, o):
        raise Unsupported("power of an expression (non-linear)")

    def key(self) -> Tuple:
        return (tuple(sorted((v.name, round(c, 12)) for v, c in self.terms.items())), round(self.const, 12))

    # the part of sympy's expression interface the library uses on a linear expression
    def as_coefficients_dict(self):
        d = dict(self.terms)
        if self.const:
            d[1] = self.const
        return d

    def atoms(self, *types):
        return set(self.terms)

    def __repr__(self):
        s = " + ".join(f"{c:g}*{v.name}" for v, c in sorted(self.terms.items(), key=lambda t: t[0].name)) or "0"
        return s + (f" + {self.const:g}" if self.const else "")


class Var:
    def __init__(self, name, lb=None, ub=None, type="continuous", **kw):
        if kw:
            raise Unsupported(f"Variable options {sorted(kw)}")
        self.name = name
        self.lb = lb
        self.ub = ub
        self.type = type
        self.primal = None

    # arithmetic via Lin
    def __add__(self, o):
        return Lin.of(self) + o

    __radd__ = __add__

    def __sub__(self, o):
        return Lin.of(self) - o

    def __rsub__(self, o):
        return Lin.of(o) - Lin.of(self)

    def __neg__(self):
        return -Lin.of(self)

    def __mul__(self, o):
        return Lin.of(self) * o

    __rmul__ = __mul__

    def __truediv__(self, o):
        return Lin.of(self) / o

    def __pow__(self, o):
        raise Unsupported("power of a variable (non-linear)")

    def __repr__(self):
        return f"Var({self.name})"


class Cons:
    def __init__(self, expression, lb=None, ub=None, name=None, sloppy=False, **kw):
        if kw:
            raise Unsupported(f"Constraint options {sorted(kw)}")
        self.expression = Lin.of(expression)
        self.lb = lb
        self.ub = ub
        self.name = name
        self.primal = None

    @property
    def variables(self):
        return list(self.expression.terms)

    def get_linear_coefficients(self, variables):
        return {v: self.expression.terms.get(v, 0.0) for v in variables}

    def set_linear_coefficients(self, coefs):
        t = dict(self.expression.terms)
        for v, c in dict(coefs).items():
            t[v] = c
        self.expression = Lin(t, self.expression.const)

    def normal(self) -> Tuple:
        """(terms, lb, ub) with the constant moved into the bounds."""
        e = self.expression
        lb = None if self.lb is None else self.lb - e.const
        ub = None if self.ub is None else self.ub - e.const
        return (Lin(e.terms).key()[0], None if lb is None else round(lb, 9), None if ub is None else round(ub, 9))

    def __repr__(self):
        return f"Cons({self.name}: {self.lb} <= {self.expression} <= {self.ub})"


class Obj:
    def __init__(self, expression, direction="max", sloppy=False, name=None, **kw):
        if kw:
            raise Unsupported(f"Objective options {sorted(kw)}")
        self.expression = Lin.of(expression)
        self.direction = direction
        self.name = name if name is not None else "obj"
        self.value = None

    def set_linear_coefficients(self, coefs):
        t = dict(self.expression.terms)
        for v, c in dict(coefs).items():
            if not isinstance(v, Var):
                raise Unsupported("objective coefficient of a non-variable")
            t[v] = c
        self.expression = Lin(t, self.expression.const)

    @property
    def variables(self):
        return list(self.expression.terms)

    def get_linear_coefficients(self, variables):
        return {v: self.expression.terms.get(v, 0.0) for v in variables}

    def copy(self):
        return Obj(Lin(self.expression.terms, self.expression.const), self.direction, name=self.name)


class Problem:
    Variable = Var
    Constraint = Cons
    Objective = Obj


class Container:
    def __init__(self, items: Iterable[Any] = ()):
        self.items: List[Any] = list(items)

    def __contains__(self, x):
        if isinstance(x, str):
            return any(i.name == x for i in self.items)
        return any(i is x for i in self.items)

    def __getitem__(self, name):
        for i in self.items:
            if i.name == name:
                return i
        raise KeyError(name)

    def __iter__(self):
        return iter(self.items)

    def __len__(self):
        return len(self.items)

    def get(self, name, default=None):
        for i in self.items:
            if i.name == name:
                return i
        return default

    def __getattr__(self, name):
        for i in self.__dict__.get("items", []):
            if i.name == name:
                return i
        raise AttributeError(name)


class Formulation:
    """What the solver would be asked to solve at one point in time."""

    def __init__(self, model: "ModelLP"):
        s = model.solver
        self.objective = s.objective.expression.key()
        self.objective_terms = dict(s.objective.expression.terms)
        self.direction = s.objective.direction
        self.objective_name = s.objective.name
        self.constraints = [Cons(Lin(c.expression.terms, c.expression.const), c.lb, c.ub, c.name) for c in s.constraints.items]
        self.variables = list(s.variables.items)
        self.bounds = {r.id: (r.lower_bound, r.upper_bound) for r in model.reactions}


class SolverStub:
    interface = Problem

    def __init__(self, variables, objective):
        self.variables = Container(variables)
        self.constraints = Container()
        self.objective = objective
        self.status = None


class RxnLP:
    def __init__(self, rid: str, lb: float, ub: float):
        self.id = rid
        self.name = rid
        self.lower_bound = lb
        self.upper_bound = ub
        self.forward_variable = Var(rid, lb=max(lb, 0.0), ub=max(ub, 0.0))
        self.reverse_variable = Var(rid + "_reverse", lb=max(-ub, 0.0), ub=max(-lb, 0.0))
        self.boundary = False

    @property
    def flux_expression(self):
        return Lin.of(self.forward_variable) - Lin.of(self.reverse_variable)

    @property
    def bounds(self):
        return (self.lower_bound, self.upper_bound)

    @bounds.setter
    def bounds(self, value):
        lb, ub = value
        if lb > ub:
            raise ValueError("lower bound above upper bound")
        self.lower_bound, self.upper_bound = lb, ub

    @property
    def reversibility(self):
        return self.lower_bound < 0 < self.upper_bound

    def knock_out(self):
        self.lower_bound, self.upper_bound = 0.0, 0.0

    @property
    def functional(self):
        """cobra.Reaction.functional: the rule evaluated with the genes' flags (True without a rule)."""
        model = getattr(self, "model", None)
        rules, genes = getattr(model, "rules", None), getattr(model, "genes", None)
        if model is None or rules is None or genes is None:
            raise Unsupported("functional of a reaction outside a model with gene rules")
        rule = rules.get(self.id)
        return True if rule is None else bool(rule({g.id: g.functional for g in genes}))

    @property
    def flux(self):
        if self.model is None or self.model.last_fluxes is None:
            raise Unsupported("flux before a solve")
        return self.model.last_fluxes.get(self.id, 0.0)

    model = None

    def __hash__(self):
        return hash(self.id)

    def __eq__(self, o):
        return self is o

    def __repr__(self):
        return f"RxnLP({self.id})"


class ReactionList(list):
    def get_by_id(self, rid):
        for r in self:
            if r.id == rid:
                return r
        raise KeyError(rid)

    def get_by_any(self, what):
        if not isinstance(what, (list, tuple)):
            what = [what]
        return [r if isinstance(r, RxnLP) else self.get_by_id(r) for r in what]


class SolutionLP:
    """Result of a solve: remembers the formulation that was solved."""

    def __init__(self, formulation: Formulation, reactions, value: float, fluxes: Dict[str, float]):
        self.formulation = formulation
        self.reactions = reactions
        self.objective_value = value
        self.fluxes = fluxes
        self.status = "optimal"

    def __getitem__(self, rid):
        return self.fluxes[rid]


class ModelLP:
    """Stand-in for cobra.Model with context roll-back of the formulation."""

    _absint_context = True

    def __init__(self, reactions: List[RxnLP], objective: Dict[str, float], direction: str = "max", solve_values=(7.25, 13.5, 21.125, 33.0625)):
        self.reactions = ReactionList(reactions)
        self.problem = Problem
        variables = []
        for r in reactions:
            variables += [r.forward_variable, r.reverse_variable]
        expr = Lin()
        for rid, c in objective.items():
            expr = expr + self.reactions.get_by_id(rid).flux_expression * c
        self.solver = SolverStub(variables, Obj(expr, direction, name="original_objective"))
        self.tolerance = 1e-7
        self.solves: List[Tuple[Formulation, float]] = []
        self._values = list(solve_values)
        self._stack: List[Tuple] = []
        self.flux_table: Dict[int, Dict[str, float]] = {}
        self.script = None  # callable(model, formulation) -> (value, fluxes, status): plays the solver
        # the model has been optimised before, under other conditions: stale status / value / fluxes are lying around
        self.last_fluxes: Optional[Dict[str, float]] = {r.id: 5.0 for r in reactions}
        self.solver.status = "optimal"
        self.solver.objective.value = 42.0
        self.exchanges: List[RxnLP] = []
        self.copies: List["ModelCopy"] = []
        for r in reactions:
            r.model = self

    # -- context
    def _absint_enter(self):
        s = self.solver
        extra = [(g, g.functional) for g in getattr(self, "genes", [])]
        self._stack.append((s.objective, list(s.variables.items), list(s.constraints.items), [(r, r.lower_bound, r.upper_bound) for r in self.reactions], extra))
        return self

    def _absint_exit(self):
        obj, variables, constraints, bounds, extra = self._stack.pop()
        self.solver.objective = obj
        self.solver.variables.items = variables
        self.solver.constraints.items = constraints
        for r, lb, ub in bounds:
            r.lower_bound, r.upper_bound = lb, ub
        for g, flag in extra:
            g.functional = flag

    # -- cobra.Model surface
    @property
    def objective(self):
        return self.solver.objective

    @objective.setter
    def objective(self, value):
        if isinstance(value, Obj):
            self.solver.objective = value
            return
        if isinstance(value, dict):
            expr = Lin()
            for r, c in value.items():
                if not isinstance(r, RxnLP):
                    r = self.reactions.get_by_id(r)
                expr = expr + r.flux_expression * c
            self.solver.objective = Obj(expr, self.solver.objective.direction, name="given_objective")
            return
        if isinstance(value, RxnLP):
            self.solver.objective = Obj(value.flux_expression, self.solver.objective.direction, name="given_objective")
            return
        if isinstance(value, (Lin, Var)):
            # a bare expression becomes problem.Objective(expression): optlang's default direction is "max"
            self.solver.objective = Obj(Lin.of(value), "max", name="expression_objective")
            return
        raise Unsupported(f"model.objective = {value!r}")

    @property
    def constraints(self):
        return self.solver.constraints

    @property
    def variables(self):
        return self.solver.variables

    def add_cons_vars(self, what, sloppy=False):
        if isinstance(what, (Var, Cons)):
            what = [what]
        for x in what:
            if isinstance(x, Var):
                if x.name in self.solver.variables:
                    raise Unsupported(f"duplicate variable {x.name}")
                self.solver.variables.items.append(x)
            elif isinstance(x, Cons):
                if x.name is not None and x.name in self.solver.constraints:
                    raise Unsupported(f"duplicate constraint {x.name}")
                self.solver.constraints.items.append(x)
            else:
                raise Unsupported(f"add_cons_vars({x!r})")

    def remove_cons_vars(self, what):
        if isinstance(what, (Var, Cons)):
            what = [what]
        for x in what:
            for cont in (self.solver.variables, self.solver.constraints):
                cont.items = [i for i in cont.items if i is not x]

    @property
    def objective_direction(self):
        return self.solver.objective.direction

    @objective_direction.setter
    def objective_direction(self, value):
        value = {"maximize": "max", "minimize": "min"}.get(value, value)
        if value not in ("max", "min"):
            raise ValueError("unknown objective direction")
        self.solver.objective.direction = value

    def _solve(self) -> Tuple[Formulation, float]:
        f = Formulation(self)
        if self.script is not None:
            v, fluxes, status = self.script(self, f)
            self.last_fluxes = dict(fluxes)
            self.solver.status = status
            values = {}
            for r in self.reactions:
                values[r.forward_variable] = max(fluxes.get(r.id, 0.0), 0.0)
                values[r.reverse_variable] = max(-fluxes.get(r.id, 0.0), 0.0)
            for c in self.solver.constraints.items:
                if all(x in values for x in c.expression.terms):
                    c.primal = sum(k * values[x] for x, k in c.expression.terms.items()) + c.expression.const
                else:
                    c.primal = None
            self.flux_table[len(self.solves) + 1] = dict(fluxes)
        else:
            if not self._values:
                raise Unsupported("more solves than modelled")
            v = self._values.pop(0)
            self.solver.status = "optimal"
        self.solves.append((f, v))
        self.solver.objective.value = v if self.solver.status == "optimal" else None
        return f, v

    def slim_optimize(self, error_value=float("nan"), message=None):
        f, v = self._solve()
        if self.solver.status != "optimal":
            return error_value
        return v

    def optimize(self, objective_sense=None, raise_error=False):
        # mirrors Model.optimize: an unknown sense keeps the current direction, which is restored afterwards
        original = self.solver.objective.direction
        self.solver.objective.direction = {"maximize": "max", "minimize": "min"}.get(objective_sense if isinstance(objective_sense, str) else None, original)
        try:
            f, v = self._solve()
        finally:
            self.solver.objective.direction = original
        n = len(self.solves)
        return SolutionLP(f, list(self.reactions), v, self.fluxes_of(n) if self.script is None else dict(self.last_fluxes or {}))

    @property
    def medium(self):
        return {r.id: -r.lower_bound for r in self.exchanges if r.lower_bound < 0}

    @medium.setter
    def medium(self, value):
        # Model.medium for exchanges written `met <=>`: the import bound is the (negated) lower bound; exchanges
        # that are not listed get their import closed; export bounds are untouched
        for r in self.exchanges:
            if r.id in value:
                r.lower_bound = -float(value[r.id])
            else:
                r.lower_bound = min(0.0, max(r.lower_bound, 0.0))
        for k in value:
            if k not in {r.id for r in self.exchanges}:
                raise KeyError(k)

    def copy(self):
        c = ModelCopy(self)
        self.copies.append(c)
        return c

    def fluxes_of(self, n: int) -> Dict[str, float]:
        """Generic, pairwise distinct reference fluxes for the n-th solve."""
        if n not in self.flux_table:
            self.flux_table[n] = {r.id: round(((-1) ** k) * (1.375 + 0.8125 * k + 0.03125 * n), 6) if k % 3 else 0.0 for k, r in enumerate(self.reactions)}
        return self.flux_table[n]


class ModelCopy:
    """What Model.copy() returned: remembers the state it was taken in and what was removed from it."""

    def __init__(self, src: ModelLP):
        self.source = src
        self.open_contexts = len(src._stack)
        self.bounds = {r.id: (r.lower_bound, r.upper_bound) for r in src.reactions}
        self.extra_variables = [v.name for v in src.solver.variables.items if v.name not in {x.name for r in src.reactions for x in (r.forward_variable, r.reverse_variable)}]
        self.extra_constraints = [c.name for c in src.solver.constraints.items]
        self.objective = src.solver.objective.expression.key()
        self.removed: List[str] = []
        self.remove_orphans = None

    def remove_reactions(self, reactions, remove_orphans=False):
        for r in reactions:
            self.removed.append(getattr(r, "id", r))
        self.remove_orphans = remove_orphans


class GeneLP:
    """Stand-in for cobra.Gene: knock_out() clears the flag and zeroes every reaction whose rule is then false."""

    def __init__(self, gid: str, model: "ModelLP"):
        self.id = gid
        self.name = gid
        self.functional = True
        self.model = model

    def knock_out(self):
        self.functional = False
        flags = {g.id: g.functional for g in self.model.genes}
        for r in self.model.reactions:
            rule = self.model.rules.get(r.id)
            if rule is not None and not rule(flags):
                r.knock_out()

    @property
    def reactions(self):
        """The reactions whose rule mentions the gene (the rules are functions of the gene flags: a rule mentions a
        gene when flipping that flag changes its value under some assignment of the others)."""
        import itertools as _it

        ids = [g.id for g in self.model.genes]
        others = [g for g in ids if g != self.id]
        out = []
        for r in self.model.reactions:
            rule = self.model.rules.get(r.id)
            if rule is None:
                continue
            for bits in _it.product((True, False), repeat=len(others)):
                flags = dict(zip(others, bits))
                if rule(dict(flags, **{self.id: True})) != rule(dict(flags, **{self.id: False})):
                    out.append(r)
                    break
        return frozenset(out)

    def __hash__(self):
        return hash(self.id)

    def __eq__(self, o):
        return self is o

    def __repr__(self):
        return f"GeneLP({self.id})"
