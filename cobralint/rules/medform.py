"""Formulation-level check of minimal_medium (C18): the problem posed, and how the answer becomes a medium."""
from __future__ import annotations

from typing import Any, Dict, List, Optional, Tuple

from .. import AnalysisError
from ..absint import EvalRaise, Unknown
from ..framemodel import Frame, Index, Ser
from ..framemodel import Unsupported as FUnsupported
from ..interp import Interp
from ..lpmodel import Cons, Container, Formulation, Lin, ModelLP, Obj, Problem, ReactionList, RxnLP, SolutionLP, SolverStub, Unsupported, Var
from .fvaform import _canon

NATIVE = (Lin, Var, Cons, Obj, Problem, Container, SolverStub, RxnLP, ReactionList, SolutionLP, ModelLP, Formulation, Frame, Ser, Index)
FOLLOW = ["cobra.medium.minimal_medium.minimal_medium", "cobra.medium.minimal_medium.add_linear_obj", "cobra.medium.minimal_medium.add_mip_obj", "cobra.medium.minimal_medium._as_medium"]
TOL = 1e-7
# id: (written as `met <=>`?, bounds, flux in the solver's answer)
EX = {
    "EX_a": (True, (-10.0, 1000.0), -2.5),     # imports 2.5
    "EX_b": (False, (-1000.0, 20.0), 3.0),     # written the other way round: imports 3
    "EX_c": (True, (0.0, 1000.0), 4.0),        # exports 4
    "EX_d": (True, (-5.0, 0.0), -3e-9),        # below the tolerance
    "EX_e": (False, (-50.0, 0.5), -6.0),       # written the other way round: exports 6
    "EX_f": (True, (-2000.0, 30.0), 0.0),
    "EX_g": (False, (-4.0, 9.0), 5e-7),        # a trace import: above the solver's tolerance (1e-7), below 1e-6
}
OBJECTIVE = {"BIO": 1.0}


class _Tolerances:
    def __init__(self):
        self.feasibility, self.optimality, self.integrality = TOL, TOL, 1e-5


class _Tol:
    """solver.configuration: one per model, so that a change that is left behind shows."""

    def __init__(self):
        self.tolerances = _Tolerances()
        self.verbosity, self.timeout, self.presolve = 0, None, "auto"


class _Met:
    def __init__(self, mid):
        self.id = mid


NATIVE = NATIVE + (_Tol, _Tolerances, _Met)


def _model(feasible: bool) -> ModelLP:
    rxns = [RxnLP("BIO", 0.0, 1000.0), RxnLP("INT", -1000.0, 1000.0)]
    for rid, (as_reactant, b, _) in EX.items():
        r = RxnLP(rid, *b)
        r.boundary = True
        r.reactants = [_Met(rid[3:])] if as_reactant else []
        r.products = [] if as_reactant else [_Met(rid[3:])]
        # exchanges need not be written with a unit coefficient (`2 a_e <=>`): the medium is about fluxes
        k = 2.0 if rid in ("EX_b", "EX_f") else 1.0
        r.metabolites = {(r.reactants or r.products)[0]: (-k if as_reactant else k)}
        rxns.append(r)
    for r in rxns[:2]:
        r.reactants, r.products = [_Met("x")], [_Met("y")]
        r.metabolites = {r.reactants[0]: -1.0, r.products[0]: 1.0}
    m = ModelLP(rxns, OBJECTIVE, "max")
    m.exchanges = [r for r in rxns if r.id.startswith("EX_")]
    m.original_bounds = {r.id: (r.lower_bound, r.upper_bound) for r in rxns}
    m.solver.configuration = _Tol()
    m.solver.update = lambda: None
    log: List[Formulation] = []

    def script(model, f):
        log.append(f)
        fluxes = {"BIO": 0.4, "INT": 1.0}
        fluxes.update({rid: fl for rid, (_, _, fl) in EX.items()})
        return (5.5 if feasible else float("nan")), fluxes, ("optimal" if feasible else "infeasible")

    m.script = script
    m.log = log
    return m


def _run(what: str, thunk):
    try:
        return thunk()
    except Unknown as exc:
        raise AnalysisError(f"C18: {what} cannot be evaluated: {exc}")
    except (Unsupported, FUnsupported) as exc:
        raise AnalysisError(f"C18: {what} is outside the LP/frame model: {exc}")


def _import_var(model, rid):
    r = model.reactions.get_by_id(rid)
    return r.reverse_variable if EX[rid][0] else r.forward_variable


def _import_bound(bounds, rid):
    lb, ub = bounds
    return max(-lb, 0.0) if EX[rid][0] else max(ub, 0.0)


def check_minimal_medium(ctx, rule: str) -> None:
    prog = ctx.prog
    fn = prog.func("cobra.medium.minimal_medium", "minimal_medium")
    lin = prog.func("cobra.medium.minimal_medium", "add_linear_obj")
    mip = prog.func("cobra.medium.minimal_medium", "add_mip_obj")
    asm = prog.func("cobra.medium.minimal_medium", "_as_medium")
    problems: Dict[str, str] = {}
    n = 0
    for feasible in (True, False):
        for components in (False, True):
            for exports in (False, True):
                for open_ex in (False, True, 500, 0.5, 5000):   # 5000: wider than every bound the model has
                    model = _model(feasible)
                    it = Interp(prog, NATIVE, FOLLOW, {"cobra.medium.boundary_types.find_boundary_types": lambda it_, ev, c, a, k: list(a[0].exchanges)}, globals_={"Zero": Lin(), "OPTIMAL": "optimal"})
                    kwargs = {"min_objective_value": 0.25, "exports": exports, "minimize_components": components, "open_exchanges": open_ex}
                    what = f"minimal_medium(min_objective_value=0.25, exports={exports}, minimize_components={components}, open_exchanges={open_ex!r}) on a model whose solver reports {'an optimum' if feasible else 'infeasible'}"
                    try:
                        out = _run(what, lambda: it.call(fn, [model], kwargs))
                    except EvalRaise as exc:
                        problems.setdefault("raise", f"{what} raises {exc.exc_type}")
                        continue
                    n += 1
                    if not model.log:
                        problems.setdefault("problem", f"{what}: nothing is solved")
                        continue
                    f = model.log[-1]
                    # None exactly when there is no optimum
                    if feasible == (out is None):
                        problems.setdefault("none", f"{what} returns {'None' if out is None else 'a medium'}")
                        continue
                    # bounds in force
                    for rid, (as_reactant, b, _) in EX.items():
                        got = f.bounds[rid]
                        if open_ex is False:
                            want = b
                        else:
                            ob = 1000 if open_ex is True else open_ex
                            want = (-ob, ob)
                        if tuple(got) != tuple(want):
                            problems.setdefault("open", f"{what}: exchange {rid} is solved with bounds {got}, expected {want}")
                    for rid in ("BIO", "INT"):
                        if f.bounds[rid] != model.original_bounds[rid]:
                            problems.setdefault("open", f"{what}: the bounds of the non-exchange reaction {rid} are changed")
                    # growth constraint
                    bio = model.reactions.get_by_id("BIO")
                    hold = _canon({bio.forward_variable.name: 1.0, bio.reverse_variable.name: -1.0}, 0.25, None)
                    flux_names = {x.name for r in model.reactions for x in (r.forward_variable, r.reverse_variable)}
                    growth = []
                    indicator = {}
                    odd = []
                    for c in f.constraints:
                        terms = {v.name: k for v, k in c.expression.terms.items()}
                        if not terms:
                            if (c.lb is None or c.lb <= 0) and (c.ub is None or c.ub >= 0):
                                continue  # an empty placeholder row
                            odd.append(c)
                        elif set(terms) <= flux_names:
                            growth.append(_canon(terms, None if c.lb is None else c.lb - c.expression.const, None if c.ub is None else c.ub - c.expression.const))
                        else:
                            own = [x for x in terms if x not in flux_names]
                            rest = [x for x in terms if x in flux_names]
                            if len(own) == 1 and len(rest) == 1 and c.lb is None and c.ub is not None:
                                # k_v * v + k_i * ind <= ub
                                k_v, k_i = terms[rest[0]], terms[own[0]]
                                if k_v > 0 and k_i < 0 and c.ub - c.expression.const == 0:
                                    indicator[rest[0]] = (own[0], -k_i / k_v)
                                    continue
                            odd.append(c)
                    if growth != [hold]:
                        problems.setdefault("problem", f"{what}: the objective is not required to reach 0.25 (restrictions on the fluxes: {growth})")
                    if odd:
                        problems.setdefault("problem", f"{what}: constraint {odd[0].name} ({odd[0].lb} <= {odd[0].expression} <= {odd[0].ub}) is not part of the documented problem")
                    got_obj = {v.name: round(k, 9) for v, k in f.objective_terms.items() if k != 0}
                    if not components:
                        want_obj = {_import_var(model, rid).name: 1.0 for rid in EX}
                        if got_obj != want_obj or f.direction != "min" or indicator:
                            wrong = sorted(set(got_obj) ^ set(want_obj))
                            problems.setdefault("objective", f"{what}: the objective is {f.direction} {Lin(f.objective_terms)}; expected the minimised sum of the import variables (reverse variable of `met <=>`, forward variable of `<=> met` exchanges); differs in {wrong[:4]}")
                    else:
                        inds = {}
                        for rid in EX:
                            iv = _import_var(model, rid).name
                            if iv not in indicator:
                                problems.setdefault("objective", f"{what}: the import of {rid} is not tied to an indicator (import <= M x indicator)")
                                continue
                            ind, big_m = indicator[iv]
                            var = [v for v in f.variables if v.name == ind][0]
                            cap = _import_bound(f.bounds[rid], rid)
                            if big_m < cap:
                                problems.setdefault("bigm", f"{what}: the indicator of {rid} allows an import of at most {big_m:g} while its import bound is {cap:g}: the smallest medium may be cut off")
                            if var.type != "binary":
                                problems.setdefault("objective", f"{what}: the indicator of {rid} has type {var.type}")
                            inds[ind] = 1.0
                        extra = set(indicator) - {_import_var(model, rid).name for rid in EX}
                        if extra:
                            problems.setdefault("objective", f"{what}: indicators are attached to {sorted(extra)[:3]}, which are not import variables")
                        if "objective" not in problems and (got_obj != inds or f.direction != "min"):
                            problems.setdefault("objective", f"{what}: the objective is {f.direction} {Lin(f.objective_terms)}; expected the minimised number of indicators")
                    # the medium that is returned
                    if out is not None:
                        if not isinstance(out, Ser):
                            raise AnalysisError(f"C18: {what} returned {type(out).__name__}")
                        want_med = {}
                        for rid, (as_reactant, b, fl) in EX.items():
                            imp = -fl if as_reactant else fl
                            if abs(fl) < TOL:
                                continue
                            if imp > 0 or exports:
                                want_med[rid] = imp
                        got_med = dict(zip(out.index, out.values))
                        if got_med != want_med:
                            problems.setdefault("medium", f"{what}: returns {got_med}; the import fluxes of the solver's answer are {want_med}" + (" (exports as negative entries)" if exports else ""))
                    tl = model.solver.configuration.tolerances
                    if (tl.feasibility, tl.optimality, tl.integrality) != (TOL, TOL, 1e-5):
                        problems.setdefault("restore", f"{what}: the solver's tolerances are left changed (feasibility {tl.feasibility:g}, integrality {tl.integrality:g}): later analyses of the model run under another configuration than the one model.tolerance reports")
                    if model._stack or any((r.lower_bound, r.upper_bound) != model.original_bounds[r.id] for r in model.reactions) or model.solver.objective.name != "original_objective" or model.solver.constraints.items or model.solver.objective.direction != "max":
                        problems.setdefault("restore", f"{what}: the model is left modified")
    # ---- alternative media: every column has the smallest possible number of components
    alt_bad = None
    for asked, counts, want_cols in ((3, [2.0, 2.0, 2.0, 3.0], 2), (2, [2.0, 2.0, 2.0], 2), (4, [1.0, 1.0, 2.0, 2.0, 2.0], 1)):
        model = _model(True)
        seq = list(counts)
        base = model.script

        def script(m, f, _seq=seq, _base=base):
            v, fluxes, status = _base(m, f)
            return (_seq.pop(0) if _seq else 99.0), fluxes, status

        model.script = script
        it = Interp(prog, NATIVE, FOLLOW, {"cobra.medium.boundary_types.find_boundary_types": lambda it_, ev, c, a, k: list(a[0].exchanges)}, globals_={"Zero": Lin(), "OPTIMAL": "optimal"})
        what = f"minimal_medium(minimize_components={asked}) when the solver finds media of {counts[1:]} components after a best of {counts[0]:g}"
        try:
            out = _run(what, lambda: it.call(fn, [model], {"min_objective_value": 0.25, "minimize_components": asked}))
        except EvalRaise as exc:
            alt_bad = f"{what} raises {exc.exc_type}"
            break
        ncols = len(out.cols) if isinstance(out, Frame) else (1 if isinstance(out, Ser) else 0)
        if ncols != want_cols:
            alt_bad = f"{what} returns {ncols} media, expected {want_cols}: an alternative with more components than the smallest medium is not a smallest medium"
            break
    if alt_bad:
        ctx.bad(rule, fn, "minimal_medium alternatives", alt_bad)
    else:
        ctx.ok(rule, fn, "minimal_medium alternatives", "3 scenarios: alternatives are collected only while they have the smallest number of components")
    for clause, target, text in (("problem", fn, "the only restriction added is objective >= min_objective_value"), ("objective", lin, "linear: minimise the sum of the import variables; MIP: import <= M x binary indicator, minimise the number of indicators"),
                                 ("bigm", mip, "M is at least every import bound in force"), ("open", fn, "exchanges opened to +-bound only when asked (True = 1000, a number = that number), other reactions untouched"),
                                 ("medium", asm, "medium = import fluxes above the tolerance (exports negative when asked), by the orientation of each exchange"), ("none", fn, "None exactly when the solver reports no optimum"),
                                 ("restore", fn, "the model is restored"), ("raise", fn, "no scenario raises")):
        if clause in problems:
            ctx.bad(rule, target, f"minimal_medium {clause}", problems[clause])
        else:
            ctx.ok(rule, target, f"minimal_medium {clause}", f"{n} scenarios x {len(EX)} exchange classes: {text}")


# ---------------------------------------------------------------------------------------- Model.medium
# id: (written as `met <=>`?, bounds before, value assigned or None when not listed)
MED = {
    "EX_a": (True, (-10.0, 1000.0), 3.5),
    "EX_b": (False, (-1000.0, 20.0), 0),        # listed with an explicit zero: import closed
    "EX_c": (True, (-5.0, 1000.0), None),       # not listed: import closed, export untouched
    "EX_d": (False, (0.0, 7.0), 12.0),
    "EX_e": (True, (0.0, 1000.0), None),        # import already closed
    "EX_f": (True, (2.0, 10.0), None),          # forced export: stays as it is
    "EX_g": (False, (-30.0, 40.0), None),       # written the other way round, not listed
    "EX_h": (True, (-8.0, 0.0), 0.0),           # explicit float zero
}


def check_medium_property(ctx, rule: str) -> None:
    prog = ctx.prog
    setter = prog.func("cobra.core.model", "Model.medium", setter=True)
    getter = prog.func("cobra.core.model", "Model.medium")
    rxns = []
    for rid, (as_reactant, b, _) in MED.items():
        r = RxnLP(rid, *b)
        r.boundary = True
        r.reactants = [_Met(rid[3:])] if as_reactant else []
        r.products = [] if as_reactant else [_Met(rid[3:])]
        rxns.append(r)
    # boundary reactions that are no exchanges (a sink that can supply its metabolite, a demand): not part of the
    # medium - neither listed by the getter nor touched by the setter
    sink, demand = RxnLP("SK_s", -7.0, 1000.0), RxnLP("DM_t", 0.0, 1000.0)
    for r in (sink, demand):
        r.boundary = True
        r.reactants, r.products = [_Met(r.id[3:])], []
    model = ModelLP(rxns + [sink, demand], {"EX_a": 1.0})
    model.exchanges = list(rxns)
    model.boundary = list(rxns) + [sink, demand]
    model.sinks, model.demands = [sink], [demand]
    it = Interp(prog, NATIVE, [], {}, globals_={})
    medium = {rid: v for rid, (_, _, v) in MED.items() if v is not None}
    # the model stand-in has a modelled `medium` of its own; evaluate the real property functions on it
    try:
        _run("Model.medium setter", lambda: it.call(setter, [dict(medium)], {}, selfobj=model))
        back = _run("Model.medium getter", lambda: it.call(getter, [], {}, selfobj=model))
    except EvalRaise as exc:
        ctx.bad(rule, setter, "medium assignment", f"assigning {medium} raises {exc.exc_type}")
        return
    problems = []
    for rid, (as_reactant, (lb, ub), v) in MED.items():
        r = model.reactions.get_by_id(rid)
        if v is not None:
            want = (-float(v), ub) if as_reactant else (lb, float(v))
            why = f"listed with {v!r}: its import bound becomes {v!r}"
        else:
            imp = max(-lb, 0.0) if as_reactant else max(ub, 0.0)
            want = ((lb if imp == 0 else 0.0), ub) if as_reactant else (lb, (ub if imp == 0 else 0.0))
            why = "not listed: import closed, export untouched"
        got = (r.lower_bound, r.upper_bound)
        if tuple(map(float, got)) != tuple(map(float, want)):
            problems.append(f"{rid} ({'met <=>' if as_reactant else '<=> met'}, bounds {lb:g}..{ub:g}, {why}) ends with bounds {got}, expected {want}")
    for r, b0 in ((sink, (-7.0, 1000.0)), (demand, (0.0, 1000.0))):
        if (r.lower_bound, r.upper_bound) != b0:
            problems.append(f"{r.id} (a boundary reaction that is no exchange) ends with bounds {(r.lower_bound, r.upper_bound)}: the medium covers the exchange reactions only")
    want_back = {rid: float(v) for rid, (_, _, v) in MED.items() if v is not None and v > 0}
    if isinstance(back, dict):
        back = {k: float(x) for k, x in back.items()}
    if back != want_back:
        problems.append(f"reading the medium back gives {back}, expected exactly the entries with positive import {want_back}")
    # the empty medium (also what minimal_medium returns for a target of zero): every import is closed
    rx2 = []
    for rid, (as_reactant, b, _) in MED.items():
        r = RxnLP(rid, *b)
        r.boundary = True
        r.reactants = [_Met(rid[3:])] if as_reactant else []
        r.products = [] if as_reactant else [_Met(rid[3:])]
        rx2.append(r)
    model2 = ModelLP(rx2, {"EX_a": 1.0})
    model2.exchanges = list(rx2)
    model2.boundary = list(rx2)
    model2.sinks, model2.demands = [], []
    for empty, label in (({}, "{}"), (Ser([], []), "an empty series")):
        for r, (rid, (as_reactant, b, _)) in zip(rx2, MED.items()):
            r.lower_bound, r.upper_bound = b
        it2 = Interp(prog, NATIVE, [], {}, globals_={})
        try:
            _run("Model.medium setter (empty medium)", lambda: it2.call(setter, [empty], {}, selfobj=model2))
            back2 = _run("Model.medium getter", lambda: it2.call(getter, [], {}, selfobj=model2))
        except EvalRaise as exc:
            problems.append(f"assigning {label} as the medium raises {exc.exc_type}")
            continue
        still = [r.id for r, (rid, (as_reactant, b, _)) in zip(rx2, MED.items()) if (max(-r.lower_bound, 0.0) if as_reactant else max(r.upper_bound, 0.0)) > 0 and not ((as_reactant and b[1] < 0) or (not as_reactant and b[0] > 0))]
        if still or (isinstance(back2, dict) and back2):
            problems.append(f"assigning {label} as the medium leaves the import of {still[:3]} open (reading it back gives {back2}): an empty medium closes every import")
    if problems:
        ctx.bad(rule, setter, "medium assignment", "; ".join(problems[:2]))
    else:
        ctx.ok(rule, setter, "medium assignment", f"{len(MED)} exchange classes: listed exchanges get the given import bound (explicit zeros included), the others have their import closed, export bounds untouched, get(set(m)) = positive entries of m")


# ---------------------------------------------------------------------------------------- boundary types
class _BRxn:
    """Stand-in reaction for the boundary classification: exactly the attributes is_boundary_type reads."""

    def __init__(self, rid, annotation, compartments, reversibility, boundary):
        self.id, self.annotation, self.compartments, self.reversibility, self.boundary = rid, annotation, compartments, reversibility, boundary


class _QList(list):
    def query(self, f):
        if not callable(f):
            raise Unsupported("query by pattern")
        return _QList(r for r in self if f(r))

    query._takes_callbacks = True  # type: ignore[attr-defined]


class _BModel:
    def __init__(self, rxns, compartments):
        self.reactions = _QList(rxns)
        self.boundary = [r for r in rxns if r.boundary]
        self.compartments = compartments


NATIVE = NATIVE + (_BRxn, _BModel, _QList)
KINDS = ("exchange", "demand", "sink")


def _want_kind(kind, sbo, tables, r, ext):
    """The documented classification: the annotation dominates; otherwise a boundary reaction whose identifier does not
    carry a marker of another kind, inside (exchange) / outside (demand, sink) the external compartment, irreversible
    (demand) / reversible (sink)."""
    sbo_terms, excludes = tables
    term = sbo[0] if isinstance(sbo, list) else sbo
    term = term.upper()
    if term == sbo_terms[kind]:
        return True
    if term in [sbo_terms[k] for k in sbo_terms if k != kind]:
        return False
    inside = ext in r.compartments
    if kind != "exchange":
        inside = not inside
    rev_ok = True if kind == "exchange" else ((not r.reversibility) if kind == "demand" else r.reversibility)
    return bool(r.boundary and not any(x in r.id for x in excludes[kind]) and inside and rev_ok)


def check_boundary_types(ctx, rule: str) -> None:
    """is_boundary_type / find_boundary_types over the finite case table the function distinguishes."""
    prog = ctx.prog
    isb = prog.func("cobra.medium.boundary_types", "is_boundary_type")
    fbt = prog.func("cobra.medium.boundary_types", "find_boundary_types")
    it = Interp(prog, NATIVE, ["cobra.medium.boundary_types.is_boundary_type", "cobra.medium.boundary_types.find_boundary_types"],
                {"cobra.medium.boundary_types.find_external_compartment": lambda it_, ev, c, a, k: "e"}, globals_={})
    ann = prog.units.get("cobra.medium.annotations")
    if ann is None:
        raise AnalysisError("C18: module cobra.medium.annotations not found")
    sbo_terms = it._global_value(ann, "sbo_terms")
    excludes = it._global_value(ann, "excludes")
    if not isinstance(sbo_terms, dict) or not isinstance(excludes, dict) or not all(k in sbo_terms and k in excludes for k in KINDS):
        raise AnalysisError("C18: the tables sbo_terms / excludes of cobra.medium.annotations cannot be evaluated or lack one of exchange/demand/sink")
    terms = {k: sbo_terms[k] for k in KINDS}
    bad_tables = []
    if len(set(terms.values())) != 3:
        bad_tables.append(f"the SBO terms of the three boundary kinds are not distinct: {terms}")
    # --- case table -------------------------------------------------------------------------------------------
    sbos: List[Any] = ["", "SBO:0000176"]           # none, an unrelated term
    for k in KINDS:
        sbos += [terms[k], terms[k].lower(), [terms[k], "SBO:0000176"]]
    sbos.append(sbo_terms.get("biomass", "SBO:0000629"))
    ids = ["R1"]
    for k in KINDS:
        ids += [f"{x}r" if x.endswith("_") else f"r_{x}_1" for x in excludes[k][:3]]
    # the markers are naming conventions as spelled: an ordinary identifier that merely contains the letters of a marker
    # in another case (BiGG's EX_asn__L_e holds 'sn_') carries no marker
    ids.append("EX_asn__L_e")
    for k in KINDS:
        ids += [f"R_{x.swapcase()}r_e" for x in excludes[k][:3] if x.swapcase() != x]
    ids = list(dict.fromkeys(ids))
    n = 0
    problems: List[str] = []
    exclusive_bad: Optional[str] = None
    for sbo in sbos:
        for rid in ids:
            for comps in ({"e"}, {"c"}):
                for rev in (False, True):
                    for boundary in (True, False):
                        annotation = {} if sbo == "" else {"sbo": sbo}
                        got = {}
                        for kind in KINDS:
                            r = _BRxn(rid, dict(annotation), set(comps), rev, boundary)
                            what = f"is_boundary_type(id {rid!r}, sbo {sbo!r}, compartments {sorted(comps)}, reversible {rev}, boundary {boundary}; {kind!r}, external 'e')"
                            try:
                                out = _run(what, lambda: it.call(isb, [r, kind, "e"], {}))
                            except EvalRaise as exc:
                                problems.append(f"{what} raises {exc.exc_type}")
                                continue
                            n += 1
                            got[kind] = bool(out)
                            want = _want_kind(kind, sbo, (sbo_terms, excludes), r, "e")
                            if bool(out) != want and len(problems) < 4:
                                problems.append(f"{what} is {bool(out)}, expected {want}")
                        if sum(got.values()) > 1 and exclusive_bad is None and not problems:
                            exclusive_bad = f"a reaction (id {rid!r}, sbo {sbo!r}, compartments {sorted(comps)}, reversible {rev}) is classified as {[k for k, v in got.items() if v]} at once: assigning a medium would close a demand/sink, or leave an exchange open"
    if bad_tables:
        ctx.bad(rule, isb, "boundary kind tables", "; ".join(bad_tables))
    if problems:
        ctx.bad(rule, isb, "boundary classification", "; ".join(problems[:2]))
    elif exclusive_bad:
        ctx.bad(rule, isb, "boundary classification", exclusive_bad)
    else:
        ctx.ok(rule, isb, "boundary classification", f"{n} cases (annotation none/unrelated/each kind in upper, lower and list form, identifier markers of each kind, inside/outside the external compartment, reversible or not, boundary or not): the annotation dominates, otherwise the documented heuristic; no reaction belongs to two kinds")
    # --- find_boundary_types: exactly the model's reactions of that kind, in model order; external compartment looked up
    # only when it is not given; no boundary reactions -> empty
    rx = [_BRxn("EX_a", {}, {"e"}, True, True), _BRxn("INT", {}, {"c", "e"}, True, False), _BRxn("DM_b", {}, {"c"}, False, True),
          _BRxn("SK_c", {}, {"c"}, True, True), _BRxn("weird", {"sbo": terms["exchange"]}, {"c"}, False, True), _BRxn("EX_d", {"sbo": terms["sink"]}, {"e"}, True, True)]
    model = _BModel(rx, {"e": "", "c": ""})
    want = {"exchange": ["EX_a", "weird"], "demand": ["DM_b"], "sink": ["SK_c", "EX_d"]}
    fproblems = []
    for kind in KINDS:
        for ext in (None, "e"):
            what = f"find_boundary_types(model, {kind!r}, external_compartment={ext!r})"
            try:
                out = _run(what, lambda: it.call(fbt, [model, kind], {} if ext is None else {"external_compartment": ext}))
            except EvalRaise as exc:
                fproblems.append(f"{what} raises {exc.exc_type}")
                continue
            got_ids = [r.id for r in out]
            if got_ids != want[kind]:
                fproblems.append(f"{what} returns {got_ids}, expected {want[kind]}")
    empty = _BModel([_BRxn("INT", {}, {"c"}, True, False)], {"c": ""})
    try:
        out = _run("find_boundary_types on a model without boundary reactions", lambda: it.call(fbt, [empty, "exchange"], {}))
        if list(out) != []:
            fproblems.append(f"a model without boundary reactions has exchanges {[r.id for r in out]}")
    except EvalRaise as exc:
        fproblems.append(f"find_boundary_types on a model without boundary reactions raises {exc.exc_type}")
    if fproblems:
        ctx.bad(rule, fbt, "boundary lists", "; ".join(fproblems[:2]))
    else:
        ctx.ok(rule, fbt, "boundary lists", "3 kinds x external compartment given / looked up + a model without boundary reactions: exactly the reactions of that kind, in model order")
