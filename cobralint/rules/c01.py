"""C01 - the solver always holds exactly the model's flux-balance problem (sync shape)."""
from __future__ import annotations

import ast
import math
from typing import Dict, List, Optional, Set, Tuple

from .. import AnalysisError
from ..absint import EvalRaise, EvalReturn, Evaluator, Opaque, Unknown
from ..cfg import CFG, Node, describe_path, no_exc
from ..effects import CONST, FRESH, SELF, Eff
from ..program import FuncInfo, ancestors, enclosing_stmt, norm, parent, walk_local
from .common import analysis_owned_solver_object, same_key_rebuild, sub_nodes

EXPLANATION = (
    "Decided for all paths: (sync) every write to a reaction's bounds, stoichiometry or identifier (and a "
    "metabolite's identifier) on a model-attached path is followed in the same function by the matching solver "
    "write on every normal exit, and the stoichiometry sync covers every entry unconditionally; (atomic) no "
    "raising exit lies between such a write and its sync; (sign) every construct that combines the forward and "
    "the reverse quantity of one reaction is antisymmetric (coefficients {fwd: c, rev: -c}, net values fwd - rev); "
    "(owner) mirrored solver cells (bounds of reaction variables, coefficients of reaction variables in "
    "metabolite rows, names) are written only by their owner functions; (pair) both members of a reaction's "
    "variable pair are created/removed/renamed/bounded together; (bounds) update_variable_bounds, evaluated for "
    "every ordering of (lb, 0, ub) with infinite ends, hands (max(lb,0), max(ub,0)) to the forward and "
    "(max(-ub,0), max(-lb,0)) to the reverse variable; (members) every change of model.reactions/metabolites is "
    "paired with the solver add/remove, also in the registered undo entries; (clone) a copied/switched model "
    "gets a solver produced by deepcopy/clone, never a shared one. NOT decided: numeric equality of the GLPK "
    "matrix with the Python objects, optlang/GLPK internals, the glpk_exact interface."
)
ASSUMPTIONS = [
    "optlang's set_bounds / set_linear_coefficients / add / remove do what their names say",
    "construction paths (__init__, __setstate__, Model.copy) are completed by the enclosing operation (_populate_solver or solver deepcopy): checked per site",
    "raising points are explicit raise statements reachable through package calls",
]

FWD_ATTRS = {"forward_variable", "fwd_idx"}
REV_ATTRS = {"reverse_variable", "reverse_id", "rev_idx"}

# functions that may write mirrored solver cells, with the reason
OWNERS = {
    "var.bounds": {"Reaction.update_variable_bounds": "maps lb/ub onto the variable pair"},
    "cons.coefs": {
        "Model._populate_solver": "writes the stoichiometric coefficients of (re)created reactions",
        "Reaction.add_metabolites": "mirrors the edited stoichiometry",
        "Model._restore_constraint_terms": "undo entry of remove_reactions (F41): gives constraints that are no mass balances (filtered by name where the terms are recorded) the terms back that the removal of the reaction's variables "
                                           "took from them; the mass balances themselves are re-populated by _populate_solver. What it leaves behind is decided by evaluation (C01.replay / C03.replay with a user constraint)",
    },
    "var.name": {"Reaction._set_id_with_model": "renames the variable pair with the reaction"},
    "cons.name": {"Metabolite._set_id_with_model": "renames the row with the metabolite"},
}
# construction paths: Python-side writes completed by the enclosing operation
CONSTRUCTION = {
    "Reaction.__init__": "new, detached object",
    "Reaction.__setstate__": "unpickling: the solver is unpickled with the model",
    "Model.copy": "new reactions of the copy; the solver is deep-copied at the end of the same function",
    "Model.__setstate__": "unpickling",
    "Object.__init__": "new object",
    "_reaction_from_dict": "new, detached reaction",
}
SIGN_EXCEPTIONS = {
    ("flux_analysis.fastcc._find_sparse_mode", "rxn.forward_variable + rxn.reverse_variable - var"):
        "|v| as forward + reverse (both are non-negative variables)",
}


def tag_of(ctx, fn: Optional[FuncInfo], e: ast.AST, depth: int = 0) -> Set[str]:
    """{'FWD'}, {'REV'}, both or empty: does the expression denote the forward / reverse member?"""
    out: Set[str] = set()
    for n in sub_nodes(e):
        if isinstance(n, ast.Attribute):
            if n.attr in FWD_ATTRS:
                out.add("FWD")
            elif n.attr in REV_ATTRS:
                out.add("REV")
        elif isinstance(n, ast.Name) and fn is not None and depth < 3:
            low = n.id.lower()
            owner, defs = ctx.inf.lookup_name(fn, n.id)
            real = [d for d in defs if d.kind in ("assign",) and isinstance(d.value, ast.AST)]
            if real and len(real) == len(defs):
                for d in real:
                    if isinstance(d.value, (ast.Tuple, ast.List)):
                        continue
                    out |= tag_of(ctx, owner, d.value, depth + 1)
            elif any(d.kind == "unpack" for d in defs):
                for d in defs:
                    if d.kind == "unpack" and isinstance(d.value, (ast.Tuple, ast.List)) and d.index and len(d.index) == 1 and d.index[0] < len(d.value.elts):
                        out |= tag_of(ctx, owner, d.value.elts[d.index[0]], depth + 1)
    return out


def run(ctx) -> None:
    ctx.rule("C01.sync", "T1: Python-side writes of mirrored state are followed by the matching solver write on every normal exit; the stoichiometry sync covers every entry", floor=18)
    ctx.rule("C01.atomic", "T10: no raising exit between a Python-side write and its solver sync", floor=10)
    ctx.rule("C01.sign", "T5: forward/reverse combinations are antisymmetric ({fwd: c, rev: -c}; fwd - rev)", floor=14)
    ctx.rule("C01.owner", "T4: mirrored solver cells are written only by their owner functions (or on new solver objects)", floor=14)
    ctx.rule("C01.pair", "T5: both members of a reaction's variable pair are handled together", floor=6)
    ctx.rule("C01.bounds", "T5/finite orderings: update_variable_bounds maps every ordering of (lb, 0, ub) correctly", floor=1)
    ctx.rule("C01.members", "T1: model.reactions/metabolites changes are paired with solver add/remove (also in undo entries)", floor=8)
    ctx.rule("C01.clone", "T8: the solver of a copied / switched model is produced by deepcopy/clone", floor=5)
    check_sync_and_atomic(ctx)
    check_sign(ctx)
    check_owner(ctx)
    check_pair(ctx)
    check_bounds(ctx)
    check_members(ctx)
    ctx.guard(check_objective_before_removal, ctx)
    ctx.guard(check_derived_names, ctx)
    # two models that list the same reaction objects: edits through one never reach the other's solver (shared with C02)
    from . import c02

    ctx.rule("C02.readonly", "T8: the right-hand model of merge is only read: what is taken over is a copy (shared with C02)", floor=1)
    c02.check_readonly(ctx)
    check_populate(ctx)
    check_clone(ctx)
    from . import replayform

    ctx.rule("C01.replay", "bounded evaluation: after every editing operation of the pool (alone, in ordered pairs, inside and after contexts, refused ones) the solver stand-in holds exactly the flux-balance problem of the stand-in model as it stands", floor=1)
    ctx.guard(replayform.check_replay, ctx, "C01.replay", "c01")
    ctx.rule("C02.effect", "bounded evaluation: documented effects of the editing operations; what the model reports about its objective is what the solver objective holds (shared with C02)", floor=1)
    ctx.guard(replayform.check_effects, ctx, "C02.effect")


# ------------------------------------------------------------------------------------ sync/atomic
MIRRORED = {
    "Reaction._lower_bound": "bounds",
    "Reaction._upper_bound": "bounds",
    "Reaction._metabolites": "stoich",
    "Reaction._id": "id",
    "Object._id": "id",
    "Metabolite._id": "id",
    "Model.reactions": "members",
    "Model.metabolites": "members",
}


def _sync_nodes(ctx, fn: FuncInfo, g: CFG, kind: str, recv_text: str) -> Tuple[Set[Node], List[ast.AST]]:
    """CFG nodes that perform the solver write matching a Python-side write of ``kind``."""
    out: Set[Node] = set()
    sites: List[ast.AST] = []
    inf = ctx.inf
    for n in walk_local(fn.node):
        hit = False
        if isinstance(n, ast.Call) and isinstance(n.func, ast.Attribute):
            a = n.func.attr
            if kind == "bounds" and a == "update_variable_bounds":
                hit = _recv(ctx, fn, n.func.value) == recv_text or recv_text == "*"
            elif kind in ("bounds", "stoich", "members") and a == "_populate_solver":
                hit = True
            elif kind == "members" and a in ("add_cons_vars", "remove_cons_vars"):
                hit = True
            elif kind == "stoich" and a == "set_linear_coefficients" and inf.is_type(fn, n.func.value, "OCons"):
                if n.args and isinstance(n.args[0], ast.Dict):
                    tags = set()
                    for k in n.args[0].keys:
                        if k is not None:
                            tags |= tag_of(ctx, fn, k)
                    hit = {"FWD", "REV"} <= tags
            elif kind == "bounds" and a == "set_bounds" and inf.is_type(fn, n.func.value, "OVar"):
                hit = bool(tag_of(ctx, fn, n.func.value))
        elif isinstance(n, ast.Assign) and kind == "id":
            for t in n.targets:
                if isinstance(t, ast.Attribute) and t.attr == "name":
                    ts = inf.type_of(fn, t.value)
                    if any(x[0] == "opt" and x[1] in ("OVar", "OCons") for x in ts):
                        hit = True
        if hit:
            out |= {x for x in g.node_containing(n) if x.kind != "with_exit"}
            sites.append(n)
            # a sync inside a loop over the reaction's stoichiometry stands for all entries: the
            # loop header counts (an empty stoichiometry needs no write)
            if kind == "stoich":
                for a in ancestors(n):
                    if a is fn.node:
                        break
                    if isinstance(a, ast.For) and ("_metabolites" in norm(a.iter) or ".metabolites" in norm(a.iter)):
                        out |= set(g.nodes_for(a))
    return out, sites


def _recv(ctx, fn: FuncInfo, e: Optional[ast.AST]) -> str:
    return norm(ctx.inf.expand_alias(fn, e), 200) if e is not None else ""


def _attached_filter(ctx, fn: FuncInfo):
    """Edge filter for model-attached paths: self._model / self.model / local aliases are truthy."""
    sn = fn.self_name

    class _M:
        def __bool__(self):
            return True

    attached = _M()
    env: Dict[str, object] = {}
    sc = ctx.inf.scope(fn)
    for name, defs in sc.defs.items():
        if len(defs) == 1 and defs[0].kind == "assign" and isinstance(defs[0].value, ast.Attribute):
            v = defs[0].value
            if sn and isinstance(v.value, ast.Name) and v.value.id == sn and v.attr in ("_model", "model"):
                env[name] = attached

    def on_attr(ev, a: ast.Attribute):
        if sn and isinstance(a.value, ast.Name) and a.value.id == sn and a.attr in ("_model", "model"):
            return attached
        return NotImplemented

    def ok(a: Node, b: Node, label) -> bool:
        if label == "exc":
            return False
        if label in ("true", "false") and a.kind == "test" and a.ast is not None and sn:
            try:
                t = Evaluator(env, on_attr=on_attr).truth(a.ast)
            except (Unknown, EvalRaise):
                return True
            return (label == "true") == bool(t)
        return True

    return ok


def check_sync_and_atomic(ctx) -> None:
    prog, eff = ctx.prog, ctx.eff
    for fn in sorted(prog.all_funcs(), key=lambda f: f.qualname):
        writes = [e for e in eff.own_effects(fn) if e.kind == "RAW" and e.cell in MIRRORED]
        if not writes:
            continue
        if fn.short in CONSTRUCTION or fn.name in CONSTRUCTION:
            reason = CONSTRUCTION.get(fn.short) or CONSTRUCTION.get(fn.name)
            for w in writes:
                ctx.ok("C01.sync", fn, enclosing_stmt(w.node), f"construction path: {reason}", nontrivial=False)
            if fn.short == "Model.copy":
                _check_copy_completion(ctx, fn)
            continue
        g = ctx.flow.cfg(fn)
        for w in writes:
            kind = MIRRORED[w.cell]
            if kind == "members" and (w.op != "add" or w.roots != frozenset([SELF])):
                # removals go solver-first (C01.members / C01.pair decide them); re-indexing changes no membership
                continue
            recv_text = _recv(ctx, fn, w.recv)
            if kind == "id" and w.roots != frozenset([SELF]):
                # the identifier of *another* object: only new objects, or kinds that have no solver object named
                # after them, may be renamed without the id setter (which renames the variables / the constraint)
                ts = ctx.inf.type_of(fn, w.recv) if isinstance(w.recv, ast.AST) else []
                classes = {t[1] for t in ts if t[0] == "cls"}
                if w.roots and all(r in (FRESH, CONST) for r in w.roots):
                    ctx.ok("C01.sync", fn, enclosing_stmt(w.node), "identifier of an object created here", nontrivial=False)
                elif classes and not (classes & {"Reaction", "Metabolite", "Object", "Species"}):
                    ctx.ok("C01.sync", fn, enclosing_stmt(w.node), "identifier of an object without solver mirror (gene/group)", nontrivial=False)
                else:
                    ctx.bad("C01.sync", fn, enclosing_stmt(w.node), "the identifier of an existing object is written directly instead of through its `id` setter: for a reaction or metabolite of a model the solver's variables / constraint keep the old name, so the solver no longer holds the model's problem")
                continue
            if kind == "id" and not _id_has_mirror(ctx, fn, w):
                ctx.ok("C01.sync", fn, enclosing_stmt(w.node), "identifier of an object without solver mirror (gene/group/detached)", nontrivial=False)
                continue
            # writes on objects that only come from the arguments and are attached later by this
            # same function (add_reactions) are synced by its final _populate_solver
            sync, sites = _sync_nodes(ctx, fn, g, kind, recv_text if kind == "bounds" else "*")
            anchors = [n for n in g.node_containing(w.node) if n.kind != "with_exit"]
            if not sync:
                ctx.bad("C01.sync", fn, enclosing_stmt(w.node), f"{w.cell} is written but this function never passes the change on to the solver ({_need(kind)})")
                continue
            edge_ok = _attached_filter(ctx, fn)
            wpath = None
            for a in anchors:
                after = g.escapes([a], lambda n: n in sync, [g.exit], edge_ok=edge_ok)
                if after is None:
                    continue
                if kind == "id" or (kind == "stoich" and w.op == "remove" and _zero_guarded(fn, w.node)):
                    # renaming happens around the write; a zero entry is dropped after its
                    # coefficient (0) has been written to the solver
                    before = g.reaches_without([a], lambda n: n in sync, edge_ok=edge_ok)
                    if before is None:
                        continue
                wpath = [a] + after
                break
            if wpath is not None:
                ctx.bad("C01.sync", fn, enclosing_stmt(w.node), f"a model-attached path completes after writing {w.cell} without the solver write ({_need(kind)})", path=describe_path(wpath))
                continue
            # the stoichiometry sync must cover every entry: unconditional inside its loop
            if kind == "stoich":
                bad_loop = _conditional_sync(ctx, fn, sites)
                if bad_loop is not None:
                    ctx.bad("C01.sync", fn, bad_loop, "the coefficient sync is skipped for some entries of the stoichiometry (conditional inside the loop over the reaction's metabolites)")
                    continue
            ctx.ok("C01.sync", fn, enclosing_stmt(w.node), f"{w.cell} -> {_need(kind)}")
            # atomic: raising exit between write and sync
            esc = None
            for a in anchors:
                seen = g.reach([a], avoid=lambda n: n in sync, edge_ok=lambda x, y, l: not (x is a and l == "exc"))
                if g.rexit in seen:
                    esc = g.path_to(seen, g.rexit)
                    break
            key = (fn.qualname.replace("cobra.", "", 1), norm(enclosing_stmt(w.node)))
            if esc is None:
                ctx.ok("C01.atomic", fn, enclosing_stmt(w.node), "no raising exit between the write and its sync")
            elif key in ATOMIC_EXCEPTIONS or (key[0], "<same-key rebuild>") in ATOMIC_EXCEPTIONS and isinstance(enclosing_stmt(w.node), ast.Assign) and same_key_rebuild(fn, enclosing_stmt(w.node).targets[0], enclosing_stmt(w.node).value):
                ctx.ok("C01.atomic", fn, enclosing_stmt(w.node), f"frozen exception: {ATOMIC_EXCEPTIONS.get(key) or ATOMIC_EXCEPTIONS[(key[0], '<same-key rebuild>')]}")
            elif _incoming(ctx, fn, w):
                ctx.ok("C01.atomic", fn, enclosing_stmt(w.node), "object not yet part of the model when the operation can still fail", nontrivial=False)
            else:
                ctx.bad("C01.atomic", fn, enclosing_stmt(w.node), f"an operation that raises after writing {w.cell} leaves the Python side changed and the solver not", path=describe_path(esc))


ATOMIC_EXCEPTIONS = {
    ("core.reaction.Reaction.__imul__", "<same-key rebuild>"):
        "the only raising step before the sync is the bounds setter with (-ub, -lb), which preserves lb <= ub",
}


def _incoming(ctx, fn: FuncInfo, w: Eff) -> bool:
    roots = {r for r in w.roots if r not in (FRESH, CONST)}
    return bool(roots) and all(r[0] == "param" and not any(t == ("cls", "Model") for t in ctx.inf._param_type(ctx.eff._top(fn), r[1])) for r in roots if r[0] == "param") and not any(r == SELF or r[0] in ("global", "selfattr") for r in roots)


def _zero_guarded(fn: FuncInfo, node: ast.AST) -> bool:
    for a in ancestors(node):
        if a is fn.node:
            break
        if isinstance(a, ast.If):
            t = a.test
            if isinstance(t, ast.Compare) and len(t.ops) == 1 and isinstance(t.ops[0], ast.Eq) and isinstance(t.comparators[0], ast.Constant) and t.comparators[0].value == 0:
                return True
    return False


def _need(kind: str) -> str:
    return {
        "bounds": "update_variable_bounds() / _populate_solver",
        "stoich": "set_linear_coefficients with the variable pair / _populate_solver",
        "id": "renaming the solver variable pair / row",
        "members": "_populate_solver / add_cons_vars for the new members",
    }[kind]


def _id_has_mirror(ctx, fn: FuncInfo, w: Eff) -> bool:
    """Only reactions and metabolites have solver objects named after them."""
    top = ctx.eff._top(fn)
    if top.cls is not None and top.cls.name in ("Reaction", "Metabolite") and w.roots == frozenset([SELF]):
        return fn.name == "_set_id_with_model"
    return False


def _conditional_sync(ctx, fn: FuncInfo, sites: List[ast.AST]) -> Optional[ast.AST]:
    for s in sites:
        if not (isinstance(s, ast.Call) and isinstance(s.func, ast.Attribute) and s.func.attr == "set_linear_coefficients"):
            continue
        lp = None
        for a in ancestors(s):
            if a is fn.node:
                break
            if isinstance(a, ast.For):
                lp = a
                break
        if lp is None:
            continue
        if "_metabolites" not in norm(lp.iter) and ".metabolites" not in norm(lp.iter):
            continue
        st = enclosing_stmt(s)
        if st not in lp.body:
            return lp
        idx = lp.body.index(st)
        for prev in lp.body[:idx]:
            for x in ast.walk(prev):
                if isinstance(x, (ast.Continue, ast.Break)):
                    return lp
    return None


def _check_copy_completion(ctx, fn: FuncInfo) -> None:
    """Model.copy: the new model's solver is a deep copy taken on every normal path."""
    g = ctx.flow.cfg(fn)
    assigns = []
    for n in walk_local(fn.node):
        if isinstance(n, ast.Assign):
            for t in n.targets:
                if isinstance(t, ast.Attribute) and t.attr == "_solver":
                    assigns.append(n)
    nodes = set()
    for a in assigns:
        nodes |= set(g.node_containing(a))
    w = g.reaches_without([g.exit], lambda n: n in nodes, edge_ok=no_exc)
    if not assigns or w is not None:
        ctx.bad("C01.sync", fn, fn.node, "Model.copy can return without giving the copy a solver of its own", path=describe_path(w) if w else "")
    else:
        ctx.ok("C01.sync", fn, assigns[0], "the copy's solver is assigned on every path")


# ------------------------------------------------------------------------------------------- sign
def check_sign(ctx) -> None:
    prog = ctx.prog
    for fn in sorted(prog.all_funcs(), key=lambda f: f.qualname):
        for n in walk_local(fn.node):
            if isinstance(n, ast.Dict) and len(n.keys) >= 2:
                fw = [(k, v) for k, v in zip(n.keys, n.values) if k is not None and tag_of(ctx, fn, k) == {"FWD"}]
                rv = [(k, v) for k, v in zip(n.keys, n.values) if k is not None and tag_of(ctx, fn, k) == {"REV"}]
                if len(fw) == 1 and len(rv) == 1:
                    v1, v2 = fw[0][1], rv[0][1]
                    if _negation(v2, v1):
                        ctx.ok("C01.sign", fn, n, "coefficients {forward: c, reverse: -c}")
                    elif isinstance(v1, ast.Name) and isinstance(v2, ast.Name) and v1.id != v2.id and v1.id in fn.params and v2.id in fn.params:
                        # the two coefficients are parameters: the callers decide the relation
                        sites = _param_pairs(fn, v1.id, v2.id)
                        if sites is None:
                            ctx.note(f"C01.sign: {fn.short} receives both coefficients as parameters and its call sites are not all visible: not decided here")
                        else:
                            for site, a1, a2 in sites:
                                if _negation(a2, a1):
                                    ctx.ok("C01.sign", fn.parent, site, "coefficients {forward: c, reverse: -c} (through a local helper)")
                                else:
                                    ctx.bad("C01.sign", fn.parent, site, "the reverse variable's coefficient is not the negation of the forward variable's: the net flux v = forward - reverse gets the wrong weight")
                    elif isinstance(v1, ast.Name) and isinstance(v2, ast.Name) and v1.id != v2.id and _independent_values(fn, v1.id, v2.id):
                        # two values that were recorded separately (loop / tuple targets of one record, neither defined
                        # from the other): a restore of what a constraint held, not a weight of the net flux
                        ctx.ok("C01.sign", fn, n, "two separately recorded coefficients are written back (no weight of a net flux)", nontrivial=False)
                    else:
                        ctx.bad("C01.sign", fn, n, "the reverse variable's coefficient is not the negation of the forward variable's: the net flux v = forward - reverse gets the wrong weight")
            elif isinstance(n, ast.BinOp) and isinstance(n.op, (ast.Add, ast.Sub)):
                lt, rt = tag_of(ctx, fn, n.left), tag_of(ctx, fn, n.right)
                # only the outermost combination of one forward with one reverse quantity
                if rt == {"REV"} and lt in ({"FWD"}, set()) and _same_shape(n.left, n.right):
                    key = (fn.qualname.replace("cobra.", "", 1), norm(n))
                    par = parent(n)
                    if any(k[0] == key[0] and k[1] in norm(par if isinstance(par, ast.BinOp) else n) for k in SIGN_EXCEPTIONS):
                        ctx.ok("C01.sign", fn, n, "frozen exception: " + next(v for k, v in SIGN_EXCEPTIONS.items() if k[0] == key[0]))
                    elif isinstance(n.op, ast.Sub):
                        ctx.ok("C01.sign", fn, n, "net value forward - reverse")
                    else:
                        ctx.bad("C01.sign", fn, n, "forward and reverse quantities of a reaction are added: the net flux is forward - reverse")
                elif lt == {"REV"} and rt == {"FWD"} and _same_shape(n.left, n.right):
                    ctx.bad("C01.sign", fn, n, "reverse - forward (or reverse + forward): the net flux is forward - reverse")
            elif isinstance(n, ast.Compare) and len(n.ops) == 1 and isinstance(n.ops[0], ast.Eq):
                # linear_reaction_coefficients: forward_coefficient == -reverse_coefficient
                l, r = n.left, n.comparators[0]
                ln, rn = norm(l).lower(), norm(r).lower()
                if ("forward" in ln and "reverse" in rn) or ("reverse" in ln and "forward" in rn):
                    if isinstance(r, ast.UnaryOp) and isinstance(r.op, ast.USub) or isinstance(l, ast.UnaryOp) and isinstance(l.op, ast.USub):
                        ctx.ok("C01.sign", fn, n, "objective coefficient recognised when forward == -reverse")
                    else:
                        ctx.bad("C01.sign", fn, n, "forward and reverse objective coefficients are compared without the sign flip")


def _independent_values(fn: FuncInfo, a: str, b: str) -> bool:
    """Both names are bound only as targets of one tuple unpacking (a `for` target or an assignment from one record)
    and nowhere defined from each other."""
    bound = {a: 0, b: 0}
    for n in walk_local(fn.node):
        tgt = n.target if isinstance(n, (ast.For, ast.comprehension)) else None
        if tgt is not None and isinstance(tgt, ast.Tuple):
            names = {x.id for x in tgt.elts if isinstance(x, ast.Name)}
            if a in names and b in names:
                bound[a] += 1
                bound[b] += 1
                continue
        if isinstance(n, ast.Assign):
            for t in n.targets:
                names = {x.id for x in ast.walk(t) if isinstance(x, ast.Name)}
                if isinstance(t, ast.Tuple) and a in names and b in names and not isinstance(n.value, ast.Tuple):
                    bound[a] += 1
                    bound[b] += 1
                elif a in names or b in names:
                    return False  # defined by an expression of its own: the relation has to be visible
        elif isinstance(n, (ast.AugAssign, ast.AnnAssign)) and isinstance(n.target, ast.Name) and n.target.id in (a, b):
            return False
    return bound[a] == 1 and bound[b] == 1


def _param_pairs(fn: FuncInfo, p1: str, p2: str):
    """(call, argument for p1, argument for p2) for every call of the nested function ``fn`` in its parent, or None
    when the function escapes (is used other than by being called) or an argument cannot be matched."""
    if fn.parent is None or not isinstance(fn.node, ast.FunctionDef):
        return None
    a = fn.node.args
    if a.vararg or a.kwarg:
        return None
    names = [x.arg for x in a.posonlyargs + a.args]
    defaults = dict(zip(names[len(names) - len(a.defaults):], a.defaults))
    out = []
    for x in ast.walk(fn.parent.node):
        if isinstance(x, ast.Name) and x.id == fn.name and isinstance(x.ctx, ast.Load):
            c = parent(x)
            if not (isinstance(c, ast.Call) and c.func is x):
                return None
            bound = dict(defaults)
            for nm, arg in zip(names, c.args):
                if isinstance(arg, ast.Starred):
                    return None
                bound[nm] = arg
            for k in c.keywords:
                if k.arg is None:
                    return None
                bound[k.arg] = k.value
            if p1 not in bound or p2 not in bound:
                return None
            out.append((c, bound[p1], bound[p2]))
    return out or None


def _negation(v2: ast.AST, v1: ast.AST) -> bool:
    if isinstance(v1, ast.Constant) and isinstance(v2, ast.Constant):
        try:
            return v2.value == -v1.value
        except TypeError:
            return False
    if isinstance(v2, ast.UnaryOp) and isinstance(v2.op, ast.USub):
        if norm(v2.operand) == norm(v1):
            return True
        if isinstance(v1, ast.Constant) and isinstance(v2.operand, ast.Constant) and v1.value == v2.operand.value:
            return True
    return False


def _same_shape(a: ast.AST, b: ast.AST) -> bool:
    """Both operands have the same syntactic shape (x[f] - x[r], f.primal - r.primal, 1.0*f - 1.0*r)."""
    if type(a) is not type(b):
        # 1.0 * fwd - 1.0 * rev handled by BinOp == BinOp; allow Attribute vs Attribute only
        return False
    if isinstance(a, ast.Subscript):
        return norm(a.value) == norm(b.value)
    if isinstance(a, ast.Attribute):
        return a.attr == b.attr or {a.attr, b.attr} <= (FWD_ATTRS | REV_ATTRS)
    if isinstance(a, ast.BinOp):
        return type(a.op) is type(b.op)
    if isinstance(a, ast.Name):
        return True
    return False


# ------------------------------------------------------------------------------------------ owner
def check_owner(ctx) -> None:
    prog, eff = ctx.prog, ctx.eff
    for fn in sorted(prog.all_funcs(), key=lambda f: f.qualname):
        for e in eff.own_effects(fn):
            if e.kind != "RAW" or e.cell not in OWNERS:
                continue
            roots = {r for r in e.roots if r not in (FRESH, CONST)}
            st = enclosing_stmt(e.node)
            if not roots:
                ctx.ok("C01.owner", fn, st, f"{e.cell} of a solver object created in this call", nontrivial=False)
                continue
            top = eff._top(fn)
            if top.short in OWNERS[e.cell] or fn.short in OWNERS[e.cell]:
                ctx.ok("C01.owner", fn, st, f"owner of {e.cell}: {OWNERS[e.cell].get(top.short) or OWNERS[e.cell].get(fn.short)}")
                continue
            if e.cell == "cons.coefs" and _fresh_keys(ctx, fn, e):
                ctx.ok("C01.owner", fn, st, "coefficients of new variables only (the mirrored entries of the row are untouched)", nontrivial=False)
                continue
            if _private_model(ctx, fn, roots):
                ctx.ok("C01.owner", fn, st, "solver of a private copy owned by an analysis object", nontrivial=False)
                continue
            key = (fn.qualname.replace("cobra.", "", 1), norm(st))
            if key in OWNER_EXCEPTIONS:
                ctx.ok("C01.owner", fn, st, f"frozen exception: {OWNER_EXCEPTIONS[key]}")
                continue
            if analysis_owned_solver_object(fn, e.recv):
                ctx.ok("C01.owner", fn, st, "the solver object is looked up by a literal-prefixed name: added by an analysis helper, not a mirror of model state")
                continue
            ctx.bad("C01.owner", fn, st, f"{e.cell} of a solver object that mirrors model state is written outside its owner ({', '.join(OWNERS[e.cell])}): the Python side is not told")


OWNER_EXCEPTIONS: Dict[Tuple[str, str], str] = {}


def _fresh_keys(ctx, fn: FuncInfo, e: Eff) -> bool:
    call = e.node
    if not (isinstance(call, ast.Call) and call.args):
        return False
    arg = call.args[0]
    keys: List[ast.AST] = []
    if isinstance(arg, ast.Dict):
        keys = [k for k in arg.keys if k is not None]
    elif isinstance(arg, ast.DictComp):
        keys = [arg.key]
    elif isinstance(arg, ast.Name):
        owner, defs = ctx.inf.lookup_name(fn, arg.id)
        for d in defs:
            if d.kind == "assign" and isinstance(d.value, ast.DictComp):
                keys.append(d.value.key)
            elif d.kind == "assign" and isinstance(d.value, ast.Dict):
                keys += [k for k in d.value.keys if k is not None]
            elif d.kind == "assign" and isinstance(d.value, ast.Call) and norm(d.value.func) == "dict.fromkeys" and d.value.args:
                keys.append(d.value.args[0])
        if not keys:
            return False
    if not keys:
        return False
    for k in keys:
        roots = ctx.eff.roots_of(fn, k)
        ts = ctx.inf.type_of(fn, k)
        if any(r not in (FRESH, CONST) for r in roots):
            # model.variables["ind_" + s]: variables this analysis added itself by name
            if tag_of(ctx, fn, k):
                return False
            if not _named_lookup_of_added(ctx, fn, k):
                return False
    return True


def _named_lookup_of_added(ctx, fn: FuncInfo, k: ast.AST) -> bool:
    """A variable fetched by a name built from a literal prefix ('ind_' + id): created by the analysis."""
    for n in sub_nodes(k):
        if isinstance(n, ast.Subscript) and any(t[0] == "opt" and t[1] == "OVars" for t in ctx.inf.type_of(fn, n.value)):
            s = n.slice
            if isinstance(s, ast.BinOp) and isinstance(s.left, ast.Constant) and isinstance(s.left.value, str):
                return True
            if isinstance(s, ast.JoinedStr) and s.values and isinstance(s.values[0], ast.Constant):
                return True
    if isinstance(k, ast.Name):
        owner, defs = ctx.inf.lookup_name(fn, k.id)
        return any(d.kind in ("assign", "elem") and isinstance(d.value, ast.AST) and _named_lookup_of_added(ctx, owner, d.value) for d in defs)
    return False


def _private_model(ctx, fn: FuncInfo, roots: Set[tuple]) -> bool:
    top = ctx.eff._top(fn)
    for r in roots:
        if r[0] == "selfattr" and top.cls is not None:
            prov = ctx.eff.class_attr_prov(top.cls, r[1])
            if prov and all(x in (FRESH, CONST) for x in prov):
                continue
            return False
        return False
    return True


# ------------------------------------------------------------------------------------------- pair
def check_pair(ctx) -> None:
    prog = ctx.prog
    # update_variable_bounds: each branch bounds both members
    uvb = prog.func("cobra.core.reaction", "Reaction.update_variable_bounds")
    blocks = _leaf_blocks(uvb.node.body)
    n_ok = 0
    for blk in blocks:
        tags = set()
        calls = []
        for st in blk:
            for c in sub_nodes(st):
                if isinstance(c, ast.Call) and isinstance(c.func, ast.Attribute) and c.func.attr == "set_bounds":
                    tags |= tag_of(ctx, uvb, c.func.value)
                    calls.append(c)
        if not calls:
            continue
        if {"FWD", "REV"} <= tags:
            n_ok += 1
            ctx.ok("C01.pair", uvb, calls[0], "both variables of the pair are bounded in this branch")
        else:
            ctx.bad("C01.pair", uvb, calls[0], f"only the {sorted(tags)} member of the variable pair is bounded in this branch")
    if n_ok == 0 and not any(i["rule"] == "C01.pair" and "update_variable_bounds" in i["function"] for i in ctx.instances):
        ctx.bad("C01.pair", uvb, uvb.node, "update_variable_bounds no longer sets the bounds of the variable pair")
    # Reaction._set_id_with_model: both names
    sid = prog.func("cobra.core.reaction", "Reaction._set_id_with_model")
    tags = set()
    site = None
    for n in walk_local(sid.node):
        if isinstance(n, ast.Assign):
            for t in n.targets:
                if isinstance(t, ast.Attribute) and t.attr == "name":
                    tags |= tag_of(ctx, sid, t.value)
                    site = n
                    # the new name must be derived from the same member
                    vt = tag_of(ctx, sid, n.value)
                    tt = tag_of(ctx, sid, t.value)
                    if tt == {"REV"} and vt != {"REV"}:
                        ctx.bad("C01.pair", sid, n, "the reverse variable is not renamed to the reaction's reverse id")
                    if tt == {"FWD"} and vt == {"REV"}:
                        ctx.bad("C01.pair", sid, n, "the forward variable is renamed to the reverse id")
    if {"FWD", "REV"} <= tags:
        ctx.ok("C01.pair", sid, site, "forward and reverse variable are both renamed")
    else:
        ctx.bad("C01.pair", sid, sid.node, "renaming a reaction does not rename both solver variables")
    # remove_reactions: both variables removed
    rr = prog.func("cobra.core.model", "Model.remove_reactions")
    found = False
    for n in walk_local(rr.node):
        if isinstance(n, ast.Call) and isinstance(n.func, ast.Attribute) and n.func.attr in ("remove_cons_vars",) and n.args:
            tags = tag_of(ctx, rr, n.args[0])
            found = True
            if {"FWD", "REV"} <= tags:
                ctx.ok("C01.pair", rr, n, "both variables are removed with the reaction")
            else:
                ctx.bad("C01.pair", rr, n, "a reaction is removed without removing both of its solver variables")
    if not found:
        ctx.bad("C01.pair", rr, rr.node, "remove_reactions no longer removes the reaction's solver variables")
    # _populate_solver: evaluated in check_populate


def _leaf_blocks(stmts: List[ast.stmt]) -> List[List[ast.stmt]]:
    out: List[List[ast.stmt]] = []
    plain: List[ast.stmt] = []
    for s in stmts:
        if isinstance(s, ast.If):
            out += _leaf_blocks(s.body)
            out += _leaf_blocks(s.orelse) if s.orelse else []
        else:
            plain.append(s)
    if plain:
        out.append(plain)
    return out


# ----------------------------------------------------------------------------------------- bounds
def check_bounds(ctx) -> None:
    prog = ctx.prog
    fn = prog.func("cobra.core.reaction", "Reaction.update_variable_bounds")
    sn = fn.self_name
    inf_ = float("inf")
    values = [-inf_, -5.0, -2.0, 0.0, 2.0, 5.0, inf_]
    problems = []
    cases = 0
    for lb in values:
        for ub in values:
            if lb > ub or (lb == ub and math.isinf(lb)):
                continue
            cases += 1
            calls: Dict[str, Tuple[object, object]] = {}

            def on_attr(ev, a: ast.Attribute):
                if isinstance(a.value, ast.Name) and a.value.id == sn:
                    if a.attr in ("_lower_bound", "lower_bound"):
                        return lb
                    if a.attr in ("_upper_bound", "upper_bound"):
                        return ub
                    if a.attr in ("model", "_model"):
                        return object()
                return NotImplemented

            def on_call(ev, c: ast.Call):
                f = c.func
                if isinstance(f, ast.Attribute) and f.attr == "set_bounds":
                    tg = tag_of(ctx, fn, f.value)
                    kw = {k.arg: ev.eval(k.value) for k in c.keywords}
                    pos = [ev.eval(a) for a in c.args]
                    lo = kw.get("lb", pos[0] if pos else None)
                    hi = kw.get("ub", pos[1] if len(pos) > 1 else None)
                    which = "FWD" if tg == {"FWD"} else "REV" if tg == {"REV"} else "?"
                    calls[which] = (lo, hi)
                    return None
                return NotImplemented

            ev = Evaluator({}, on_call=on_call, on_attr=on_attr)
            try:
                ev.run(fn.node.body)
            except EvalReturn:
                pass
            except (Unknown, EvalRaise) as exc:
                raise AnalysisError(f"C01.bounds: update_variable_bounds cannot be evaluated over the finite domain: {exc}")

            def enc(x):
                return None if math.isinf(x) else x

            want_f = (enc(max(lb, 0.0)), enc(max(ub, 0.0)))
            want_r = (enc(max(-ub, 0.0)), enc(max(-lb, 0.0)))
            got_f, got_r = calls.get("FWD"), calls.get("REV")

            def same(a, b):
                if a is None or b is None:
                    return a is None and b is None
                return tuple(None if x is None else float(x) for x in a) == tuple(None if x is None else float(x) for x in b)

            if got_f is None or got_r is None or not same(got_f, want_f) or not same(got_r, want_r):
                problems.append(f"bounds ({lb}, {ub}): forward gets {got_f} (expected {want_f}), reverse gets {got_r} (expected {want_r})")
    if problems:
        ctx.bad("C01.bounds", fn, fn.node, f"{len(problems)} of {cases} orderings of (lb, 0, ub) are mapped wrongly, e.g. {problems[0]}")
    else:
        ctx.ok("C01.bounds", fn, "update_variable_bounds over all orderings of (lb, 0, ub)", f"{cases} ordering classes evaluated: forward = (max(lb,0), max(ub,0)), reverse = (max(-ub,0), max(-lb,0)), infinite ends as None")


# ---------------------------------------------------------------------------------------- members
def check_derived_names(ctx) -> None:
    """The names under which an object finds its solver objects are computed from its current identifier on every
    read: a getter that stores what it computed keeps answering with the old name after an identifier change made on a
    path that does not know about the store (the model-less rename in Object.id, unpickling, copying) - the reaction
    then resolves to another reaction's variable, or its variables are created twice."""
    getters = [("cobra.core.reaction", "Reaction", "reverse_id"), ("cobra.core.reaction", "Reaction", "forward_variable"), ("cobra.core.reaction", "Reaction", "reverse_variable"),
               ("cobra.core.reaction", "Reaction", "flux_expression"), ("cobra.core.metabolite", "Metabolite", "constraint")]
    for mod, cname, name in getters:
        ci = ctx.prog.cls(cname)
        ms = [m for m in ci.methods.get(name, []) if getattr(m, "prop_kind", None) in ("getter", None)]
        if not ms:
            raise AnalysisError(f"C01.pair: {cname}.{name} not found")
        fn = ms[0]
        sn = fn.self_name or "self"
        stores = []
        for n in walk_local(fn.node):
            if isinstance(n, (ast.Assign, ast.AugAssign, ast.AnnAssign)):
                tgts = n.targets if isinstance(n, ast.Assign) else [n.target]
                for t in tgts:
                    base = t
                    while isinstance(base, (ast.Subscript, ast.Attribute)) and not (isinstance(base, ast.Attribute) and isinstance(base.value, ast.Name) and base.value.id == sn):
                        base = base.value
                    if isinstance(base, ast.Attribute) and isinstance(base.value, ast.Name) and base.value.id == sn:
                        stores.append(n)
            elif isinstance(n, ast.Call) and isinstance(n.func, ast.Attribute) and n.func.attr in ("setdefault", "__setattr__", "update") and norm(n.func.value).startswith(f"{sn}."):
                stores.append(n)
            elif isinstance(n, ast.Call) and isinstance(n.func, ast.Name) and n.func.id == "setattr" and n.args and norm(n.args[0]) == sn:
                stores.append(n)
        cached = any(norm(d).split(".")[-1].split("(")[0] in ("cached_property", "lru_cache", "cache") for d in fn.node.decorator_list)
        if stores or cached:
            ctx.bad("C01.pair", fn, stores[0] if stores else fn.node, f"{cname}.{name} stores what it computes: after an identifier change on a path that does not reset the store (renaming an object that is not in a model, unpickling, copying) the object keeps looking for its solver objects under the old name - two reactions then resolve to the same variable, or adding the object creates its variables twice")
        else:
            ctx.ok("C01.pair", fn, name, f"{cname}.{name} is computed from the current state on every read")


def check_objective_before_removal(ctx) -> None:
    """Model.remove_reactions: on every path on which the variables of a reaction with a non-zero objective
    coefficient are taken out of the solver, the reaction has been taken out of the objective before - with or without
    a context (the solver interface keeps a removed variable that is still in the objective expression and brings it
    back, without bounds or stoichiometry, the next time the objective is rebuilt)."""
    fn = ctx.prog.func("cobra.core.model", "Model.remove_reactions")
    g = ctx.flow.cfg(fn)
    removes = []
    for n in walk_local(fn.node):
        if isinstance(n, ast.Call) and isinstance(n.func, ast.Attribute) and n.func.attr in ("remove_cons_vars", "remove") and n.args:
            tags = set()
            for x in ast.walk(n.args[0]):
                tags |= tag_of(ctx, fn, x) if isinstance(x, (ast.Name, ast.Attribute)) else set()
            if {"FWD", "REV"} <= tags:
                removes.append(n)
    zero = []
    for n in walk_local(fn.node):
        if isinstance(n, ast.Call) and isinstance(n.func, ast.Attribute) and n.func.attr == "set_linear_coefficients" and "objective" in norm(n.func.value) and n.args and isinstance(n.args[0], ast.Dict):
            if all(isinstance(v, ast.Constant) and v.value == 0 for v in n.args[0].values) and not any(isinstance(a, (ast.FunctionDef, ast.Lambda)) for a in ancestors(n) if a is not fn.node):
                zero.append(n)
    if not removes:
        ctx.note("C01.members: remove_reactions removes the variable pair in no recognised way; objective-before-removal not read")
        return
    if not zero:
        ctx.bad("C01.members", fn, enclosing_stmt(removes[0]), "the variables of a removed reaction are taken out of the solver while the reaction may still be in the objective: the solver interface keeps such variables in its objective expression and brings them back (free, without stoichiometry) when the objective is next rebuilt")
        return
    znodes = set()
    guards = {}
    for z in zero:
        znodes |= {x for x in g.node_containing(z) if x.kind != "with_exit"}
        for a in ancestors(z):
            if a is fn.node:
                break
            if isinstance(a, ast.If) and any(z is x or z in ast.walk(x) for x in a.body):
                names = {x.id for x in ast.walk(a.test) if isinstance(x, ast.Name)}
                # a test on the coefficient is the legitimate guard (nothing to take out when it is zero)
                if any("coef" in nm.lower() or "objective" in nm.lower() for nm in names) or "objective_coefficient" in norm(a.test):
                    guards[norm(a.test)] = True

    def edge_ok(a, b, l):
        if l == "exc":
            return False
        if a.kind == "test" and a.ast is not None and l in ("true", "false"):
            t = norm(a.ast)
            if t in guards:
                return (l == "true") == guards[t]
            if t in ("context", "context is not None"):
                return l == "false"  # the path without a context
            if t in ("not context", "context is None"):
                return l == "true"
        return True

    bad = None
    for r in removes:
        rn = [x for x in g.node_containing(r) if x.kind != "with_exit"]
        w = g.reaches_without(rn, lambda n_: n_ in znodes, edge_ok=edge_ok)
        if w is not None:
            bad = (r, w)
            break
    if bad:
        ctx.bad("C01.members", fn, enclosing_stmt(bad[0]), "outside a context the variables of an objective reaction are removed without the reaction having been taken out of the objective first: the solver keeps the removed variables in the objective expression and re-creates them (free, without stoichiometry) when the objective is next rebuilt - the optimum then exceeds the model's", path=describe_path(bad[1]))
    else:
        ctx.ok("C01.members", fn, enclosing_stmt(zero[0]), "an objective reaction is taken out of the objective before its variables are removed, with and without a context")


def check_populate(ctx) -> None:
    """_populate_solver is the function that (re)creates the solver side of reactions - also as the undo of a removal,
    where the variables are re-added first and therefore already exist. Evaluated by the analyser's interpreter on
    stand-in models: afterwards the solver must hold, for every reaction it was given, both variables, freshly written
    bounds, and in every metabolite's mass balance (an equality to zero) the coefficient c on the forward and -c on
    the reverse variable - whatever was there before. No shape of the code is prescribed."""
    from ..absint import EvalRaise, Unknown
    from ..interp import Interp
    from ..lpmodel import Cons, Container, Lin, Problem, Var

    prog = ctx.prog
    fn = prog.func("cobra.core.model", "Model._populate_solver")

    class _S:
        pass

    class _Met(_S):
        def __init__(self, id_):
            self.id = id_

    class _Rxn(_S):
        def __init__(self, id_, mets, lb, ub):
            self.id, self.metabolites, self.lower_bound, self.upper_bound = id_, dict(mets), lb, ub
            self._model = None
            self.bounds_written = 0

        @property
        def reverse_id(self):
            return self.id + "_reverse"

        @property
        def forward_variable(self):
            return self._model.variables[self.id] if self._model is not None and self.id in self._model.variables else None

        @property
        def reverse_variable(self):
            return self._model.variables[self.reverse_id] if self._model is not None and self.reverse_id in self._model.variables else None

        @property
        def bounds(self):
            return (self.lower_bound, self.upper_bound)

        def update_variable_bounds(self):
            f, r = self.forward_variable, self.reverse_variable
            if f is None or r is None:
                raise KeyError(self.id)
            f.lb, f.ub = max(0.0, self.lower_bound), max(0.0, self.upper_bound)
            r.lb, r.ub = max(0.0, -self.upper_bound), max(0.0, -self.lower_bound)
            self.bounds_written += 1

    class _RL(_S, list):
        def get_by_id(self, rid):
            for r in self:
                if r.id == rid:
                    return r
            raise KeyError(rid)

        def has_id(self, rid):
            return any(r.id == rid for r in self)

        def __contains__(self, x):
            return any(r is x or r.id == x for r in self)

    class _Solver(_S):
        def __init__(self, m):
            self._m = m

        def update(self):
            return None

        @property
        def variables(self):
            return self._m.variables

        @property
        def constraints(self):
            return self._m.constraints

        def add(self, what, sloppy=False):
            self._m.add_cons_vars(what, sloppy=sloppy)

    class _AV(_S, dict):
        def __missing__(self, k):
            v = self[k] = _AV()
            return v

    class _Model(_S):
        problem = Problem

        def __init__(self, rxns):
            self.reactions = _RL(rxns)
            for r in rxns:
                r._model = self
            self.variables, self.constraints = Container(), Container()
            self.solver = _Solver(self)
            self._contexts = []

        def add_cons_vars(self, what, sloppy=False, **kw):
            for x in (list(what) if isinstance(what, (list, tuple, set)) else [what]):
                box = self.variables if isinstance(x, Var) else self.constraints
                if x.name in box:
                    raise ValueError(f"the solver already holds {x.name}")
                box.items.append(x)

    def fresh():
        a, b, c = _Met("a"), _Met("b"), _Met("c")
        r1 = _Rxn("R1", {a: -1.0, b: 2.0}, -10.0, 1000.0)
        r2 = _Rxn("R2", {b: -1.0, c: 1.0}, 0.0, 5.0)
        r3 = _Rxn("R3", {c: -3.0}, -7.0, -2.0)
        return (a, b, c), (r1, r2, r3)

    def state(m, rxns) -> List[str]:
        """Deviations of the solver side from the model side for the given reactions."""
        out = []
        for r in rxns:
            f, v = r.forward_variable, r.reverse_variable
            if f is None or v is None:
                out.append(f"{r.id}: {'forward' if f is None else 'reverse'} variable missing")
                continue
            want = (max(0.0, r.lower_bound), max(0.0, r.upper_bound), max(0.0, -r.upper_bound), max(0.0, -r.lower_bound))
            if (f.lb, f.ub, v.lb, v.ub) != want:
                out.append(f"{r.id}: variable bounds {(f.lb, f.ub, v.lb, v.ub)} instead of {want} for reaction bounds {r.bounds}")
            for met, coeff in r.metabolites.items():
                if met.id not in m.constraints:
                    out.append(f"{r.id}: no mass balance for {met.id}")
                    continue
                con = m.constraints[met.id]
                if (con.lb, con.ub) != (0, 0) or con.expression.const != 0:
                    out.append(f"mass balance of {met.id} is {con.lb} <= . <= {con.ub}, not an equality to zero")
                got = (con.expression.terms.get(f, 0.0), con.expression.terms.get(v, 0.0))
                if got != (coeff, -coeff):
                    out.append(f"{r.id} in the mass balance of {met.id}: coefficients (forward, reverse) = {got} instead of {(coeff, -coeff)}")
        return out

    def run(m, args, kwargs):
        it = Interp(prog, (_S, Var, Cons, Container, Lin, Problem), [], {"cobra.util.util.AutoVivification": lambda it_, ev, c, a, k: _AV(), "cobra.util.AutoVivification": lambda it_, ev, c, a, k: _AV()}, globals_={"Zero": Lin()})
        try:
            it.call(fn, args, kwargs, selfobj=m)
            return None
        except EvalRaise as exc:
            return f"raises {exc.exc_type}"
        except Unknown as exc:
            raise AnalysisError(f"C01.sync: Model._populate_solver cannot be evaluated: {exc}")

    scenarios = []
    # 1. fresh reactions, no metabolite list
    (a, b, c), rx = fresh()
    m = _Model(rx)
    scenarios.append(("three new reactions into an empty solver", m, [list(rx)], {}, rx))
    # 2. with the metabolite list (one metabolite without a reaction)
    (a, b, c), rx = fresh()
    m = _Model(rx)
    lone = _Met("lone")
    scenarios.append(("new reactions and their metabolites (one in no reaction)", m, [list(rx), [a, b, c, lone]], {}, rx))
    # 3. undo of a removal: the variables of R2 are back in the solver (stale bounds, no coefficients), the others complete
    (a, b, c), rx = fresh()
    m = _Model(rx)
    err = run(m, [list(rx)], {})
    if err is None:
        r2 = rx[1]
        for con in m.constraints:
            con.expression = Lin({v: k for v, k in con.expression.terms.items() if v.name not in (r2.id, r2.reverse_id)})
        r2.forward_variable.lb, r2.forward_variable.ub, r2.reverse_variable.lb, r2.reverse_variable.ub = None, None, None, None
        r2.lower_bound, r2.upper_bound = -4.0, 9.0
        scenarios.append(("a reaction whose variables already exist (undo of a removal: variables re-added, bounds and coefficients not)", m, [[r2]], {}, (r2,)))
    # 4. one existing and one new reaction in the same call, existing mass balances
    (a, b, c), rx = fresh()
    m = _Model(rx[:2])
    err4 = run(m, [list(rx[:2])], {})
    if err4 is None:
        r1, r2, r3 = rx
        m.reactions.append(r3)
        r3._model = m
        for con in m.constraints:
            con.expression = Lin({v: k for v, k in con.expression.terms.items() if v.name not in (r1.id, r1.reverse_id)})
        r1.lower_bound = -3.0
        scenarios.append(("an existing and a new reaction in one call, mass balances partly present", m, [[r1, r3]], {}, (r1, r3)))
    n_ok = 0
    for label, m, args, kwargs, expect in scenarios:
        err = run(m, args, kwargs)
        devs = [err] if err else state(m, expect)
        if len(args) > 1 and not err:
            for met in args[1]:
                if met.id not in m.constraints:
                    devs.append(f"no mass balance was created for metabolite {met.id} of the metabolite list")
                elif (m.constraints[met.id].lb, m.constraints[met.id].ub) != (0, 0):
                    devs.append(f"mass balance of {met.id} is not an equality to zero")
        if devs:
            rule = "C01.sign" if any("coefficients (forward, reverse)" in d for d in devs) and not any("variable missing" in d or "bounds" in d for d in devs) else ("C01.pair" if any("variable missing" in d for d in devs) else "C01.sync")
            ctx.bad(rule, fn, fn.node, f"after _populate_solver on {label} the solver does not mirror the model: " + "; ".join(devs[:3]))
        else:
            n_ok += 1
            ctx.ok("C01.sync", fn, label, f"{label}: both variables, bounds written, mass balances hold c on the forward and -c on the reverse variable (evaluated)")
    if n_ok == len(scenarios) and len(scenarios) == 4:
        ctx.ok("C01.pair", fn, "Variable(reaction.id), Variable(reaction.reverse_id)", "both variables are created and added (evaluated)")
        ctx.ok("C01.sign", fn, "coefficients", "coefficients {forward: c, reverse: -c} (evaluated)")
    elif len(scenarios) < 4:
        ctx.bad("C01.sync", fn, fn.node, f"_populate_solver on three new reactions {err or err4}")


def _solver_kinds(ctx, fn: FuncInfo, arg: ast.AST) -> Set[str]:
    """{'OVar', 'OCons'} members an expression handed to add/remove_cons_vars consists of (empty = unknown)."""
    kinds: Set[str] = set()
    exprs = list(arg.elts) if isinstance(arg, (ast.List, ast.Tuple)) else [arg]
    for e in exprs:
        for t in ctx.inf.type_of(fn, e) or []:
            if t[0] == "opt" and t[1] in ("OVar", "OCons"):
                kinds.add(t[1])
        if isinstance(e, ast.Name):
            for t in ctx.inf.iter_elem_types(fn, e) or []:
                if t[0] == "opt" and t[1] in ("OVar", "OCons"):
                    kinds.add(t[1])
    return kinds


def check_members(ctx) -> None:
    prog, eff = ctx.prog, ctx.eff
    for fn in sorted(prog.all_funcs(), key=lambda f: f.qualname):
        muts = [e for e in eff.own_effects(fn) if e.kind == "RAW" and e.cell in ("Model.reactions", "Model.metabolites") and e.op in ("add", "remove")]
        if not muts:
            continue
        if fn.short in ("Model.copy", "Model.__setstate__", "Model.__init__", "Model.repair"):
            for m in muts:
                ctx.ok("C01.members", fn, enclosing_stmt(m.node), "construction path (solver copied / built by the same function)", nontrivial=False)
            continue
        g = ctx.flow.cfg(fn)
        for m in muts:
            if not any(r == SELF or r[0] in ("param", "global", "selfattr") for r in m.roots):
                continue
            want = "add" if m.op == "add" else "remove"
            need_kind = "OVar" if m.cell == "Model.reactions" else "OCons"
            nodes: Set[Node] = set()
            for e in eff.own_effects(fn):
                if e.kind == "CALL":
                    callee = e.chain[0][0]
                    if any(x.cell == "solver.members" and x.op == want for x in eff.summary(callee)):
                        # add_cons_vars / remove_cons_vars with an explicit list: what kind of solver object is it?
                        if callee.short in ("Model.add_cons_vars", "Model.remove_cons_vars", "add_cons_vars_to_problem", "remove_cons_vars_from_problem") and isinstance(e.node, ast.Call) and e.node.args:
                            kinds = _solver_kinds(ctx, fn, e.node.args[-1] if callee.short.endswith("_problem") and len(e.node.args) > 1 else e.node.args[0])
                            if kinds and need_kind not in kinds:
                                continue
                        nodes |= {n for n in g.node_containing(e.node) if n.kind != "with_exit"}
                elif e.kind == "RAW" and e.cell == "solver.members" and e.op == want:
                    nodes |= {n for n in g.node_containing(e.node) if n.kind != "with_exit"}
            anchors = [n for n in g.node_containing(m.node) if n.kind != "with_exit"]
            st = enclosing_stmt(m.node)
            if not nodes:
                ctx.bad("C01.members", fn, st, f"objects are {'added to' if want == 'add' else 'removed from'} {m.cell} but their solver variables/rows are not")
                continue
            w = None
            for a in anchors:
                after = g.escapes([a], lambda n: n in nodes, [g.exit], edge_ok=no_exc)
                if after is None:
                    continue
                before = g.reaches_without([a], lambda n: n in nodes, edge_ok=no_exc)
                if before is None:
                    continue
                w = before + after
                break
            if w is not None:
                ctx.bad("C01.members", fn, st, f"a path changes {m.cell} without the matching solver {want}", path=describe_path(w))
            else:
                ctx.ok("C01.members", fn, st, f"{m.cell} {m.op} paired with solver {want}")
        # undo entries: a registered list operation needs its solver counterpart registered too
        from .c03 import registrations_of

        regs = registrations_of(ctx, fn)
        for r in regs:
            if not isinstance(r.target, ast.Attribute):
                continue
            cell, _ = eff.cell_of(fn, r.target.value)
            if cell not in ("Model.reactions", "Model.metabolites"):
                continue
            name = r.target.attr
            if name in ("add", "append", "__iadd__", "extend"):
                # undo re-adds objects: the solver objects must be re-created by another entry / reversible call
                ok = any(
                    (isinstance(x.target, ast.Attribute) and x.target.attr in ("_populate_solver",)) or
                    (isinstance(x.target, ast.Attribute) and x.target.attr == "add" and any(t == ("opt", "OModel") for t in ctx.inf.type_of(fn, x.target.value)))
                    for x in regs
                ) or any(e.kind == "CALL" and e.chain[0][0].short in ("Model.remove_cons_vars", "remove_cons_vars_from_problem") for e in eff.own_effects(fn))
                if ok:
                    ctx.ok("C01.members", fn, r.node, "undo re-adds the objects and their solver variables/rows")
                else:
                    ctx.bad("C01.members", fn, r.node, "the undo entry puts objects back into the model list but nothing re-creates their solver variables/rows")
            elif name in ("remove", "__isub__", "discard"):
                ok = any(e.kind == "CALL" and any(x.cell == "solver.members" and x.op == "add" for x in eff.summary(e.chain[0][0])) for e in eff.own_effects(fn)) or any(
                    isinstance(x.target, ast.Attribute) and x.target.attr == "remove" and any(t == ("opt", "OModel") for t in ctx.inf.type_of(fn, x.target.value)) for x in regs
                )
                if ok:
                    ctx.ok("C01.members", fn, r.node, "undo removes the objects; their solver objects are removed by the reversible solver add")
                else:
                    ctx.bad("C01.members", fn, r.node, "the undo entry takes objects out of the model list but nothing removes their solver variables/rows")


# ------------------------------------------------------------------------------------------ clone
def check_clone(ctx) -> None:
    prog, eff = ctx.prog, ctx.eff
    n = 0
    for fn in sorted(prog.all_funcs(), key=lambda f: f.qualname):
        for e in eff.own_effects(fn):
            if e.kind != "RAW" or e.cell != "Model._solver":
                continue
            n += 1
            st = enclosing_stmt(e.node)
            v = e.value
            roots = eff.roots_of(fn, v) if isinstance(v, ast.AST) else frozenset()
            if roots and all(r in (FRESH, CONST) for r in roots):
                ctx.ok("C01.clone", fn, st, "solver produced by deepcopy / clone / a new interface.Model")
            elif fn.short == "Model.__init__" and "id_or_model" in norm(v):
                ctx.ok("C01.clone", fn, st, "frozen exception: Model(existing_model) is documented to wrap the same content (deprecated constructor form)", nontrivial=False)
            elif fn.short == "Model.copy" and isinstance(v, ast.Call) and norm(v.func) == "copy":
                ctx.ok("C01.clone", fn, st, "fallback shallow copy for solvers that cannot be deep-copied (`# pragma: no cover`)", nontrivial=False)
            else:
                ctx.bad("C01.clone", fn, st, "the model's solver is set to an object that another model may still hold (not a deepcopy / clone)")
    gs = prog.func("cobra.core.model", "Model.__getstate__")
    ctx.ok("C01.clone", gs, None, "pickling serialises the solver with the state dict", nontrivial=False)
    if n == 0:
        raise AnalysisError("no assignment to Model._solver found")
