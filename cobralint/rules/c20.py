"""C20 - summaries report the fluxes of the solution they describe."""
from __future__ import annotations

import ast
import math
import operator
import re
from typing import Any, Dict, List, Optional, Tuple

from .. import AnalysisError
from ..absint import EvalRaise, EvalReturn, Evaluator, Opaque, Unknown
from ..framemodel import Frame, LibTypeError, Ser, Unsupported, _Loc, _At, _Columns
from ..program import FuncInfo, enclosing_stmt, norm, walk_local

EXPLANATION = (
    "The table pipelines of ModelSummary, MetaboliteSummary and ReactionSummary (__init__, _generate, _display_flux, "
    "_string_flux) are evaluated by the analyser's own interpreter over stub models under an elementwise model of the "
    "pandas operations they use (cobralint/framemodel.py). The rows cover every class the code can distinguish: "
    "sign of the flux {-,0,+} x magnitude {below, above tolerance} x sign and size of the coefficient, FVA frame "
    "{none, computed from a float, complete, partial}. Decided per class: (rows) every boundary reaction / every "
    "reaction of the metabolite appears exactly once over the two tables and in to_frame(); (sign) the side is the "
    "sign of flux x coefficient, zero rows go by the coefficient; (scale) the flux is solution flux x coefficient "
    "with sub-tolerance values shown as zero; (range) minimum/maximum are the FVA bounds times the coefficient, "
    "ordered; rows missing from a partial frame stay listed; (percent) the shares of a side sum to one; "
    "(objective) the reported value is the sum of coefficient x solution flux; (fva) a float is passed on as "
    "fraction_of_optimum for the right reactions; (render) _display_flux/_string_flux do not raise for any "
    "threshold, with and without ranges; (detached) to_frame and the public tables are copies, the summary keeps "
    "copies of model objects; (route) the three summary() methods pass model, solution and fva through. The float "
    "variant uses fva=0.0, so a truthiness test in place of `is not None` shows up as a missing range. NOT decided: pandas' text/HTML formatting itself, pFBA/FVA numerics."
)
ASSUMPTIONS = ["cobralint/framemodel.py models the pandas operations used (elementwise ops, masks, left join / inner merge on the index, .at KeyError)",
               "model.boundary reactions have exactly one metabolite"]

TOL = 1e-6


# ---------------------------------------------------------------------------------------- stubs
class MetStub:
    def __init__(self, mid: str):
        self.id = mid
        self.name = "name of " + mid
        # Metabolite.elements is documented to be None for a formula it cannot parse (parentheses, a bad count) and
        # {} for a metabolite without a formula: the stand-ins cover the three answers
        kind = sum(map(ord, mid)) % 3
        self.formula = ("C2H4", "C6H10O5(H2O)", None)[kind]
        self.elements = ({"C": 2, "H": 4}, None, {})[kind]
        self.reactions: List["RxnStub"] = []
        self.is_copy = False

    def copy(self):
        m = MetStub(self.id)
        m.is_copy = True
        return m


class RxnStub:
    def __init__(self, rid: str, coefs: Dict[str, float]):
        self.id = rid
        self.name = "name of " + rid
        self.coefs = dict(coefs)
        self.metabolites = {MetStub(m): c for m, c in coefs.items()}
        self.lower_bound = -1000.0
        self.upper_bound = 1000.0
        self.is_copy = False

    def copy(self):
        r = RxnStub(self.id, self.coefs)
        r.is_copy = True
        return r

    def get_coefficient(self, mid):
        if not isinstance(mid, str):
            raise Unsupported("get_coefficient with a non-id")
        return self.coefs[mid]

    def build_reaction_string(self, use_metabolite_names=False):
        return "a --> b"

    def __hash__(self):
        return hash(self.id)

    def __eq__(self, o):
        return self is o


class ModelStub:
    def __init__(self, boundary):
        self.tolerance = TOL
        self.boundary = list(boundary)
        # demand and sink reactions are boundary reactions but not exchanges
        self.exchanges = list(boundary)[: max(0, len(self.boundary) - 3)]
        self.demands = list(boundary)[len(self.exchanges):]
        self.sinks = []
        self.reactions = list(boundary)


class SelfStub:
    def __init__(self, cls_name: str):
        self._cls = cls_name


class SolutionStub(dict):
    """A solution given by the caller: its own objective_value need not be the model objective evaluated on its
    fluxes (e.g. a pFBA solution reports the total flux)."""

    objective_value = 518.4219
    status = "optimal"

    @property
    def fluxes(self):
        return self


STUBS = (MetStub, RxnStub, ModelStub, SelfStub, SolutionStub)


# ---------------------------------------------------------------------------------------- interpreter
class Interp:
    """Evaluates summary methods over stubs with the frame model (package calls by name table)."""

    def __init__(self, prog, fva_result: Optional[Frame], coefficients: Dict[RxnStub, float], pfba_solution=None):
        self.prog = prog
        self.fva_result = fva_result
        self.coefficients = coefficients
        self.pfba_solution = pfba_solution
        self.fva_calls: List[Dict[str, Any]] = []
        self.pfba_calls = 0
        self.depth = 0

    def call_method(self, cls_name: str, name: str, selfobj, args: List[Any], kwargs: Dict[str, Any], start_after: Optional[str] = None):
        fns = self.prog.find_method(cls_name, name)
        if not fns:
            raise Unknown(f"no method {cls_name}.{name}")
        return self.call(fns[0], selfobj, args, kwargs)

    def call(self, fn: FuncInfo, selfobj, args: List[Any], kwargs: Dict[str, Any]):
        self.depth += 1
        if self.depth > 6:
            raise Unknown("call depth")
        a = fn.node.args
        pos = [x.arg for x in a.posonlyargs + a.args]
        env: Dict[str, Any] = {}
        if fn.is_method and not fn.is_static:
            env[pos[0]] = selfobj
            pos = pos[1:]
        for p, v in zip(pos, args):
            env[p] = v
        for k, v in kwargs.items():
            env[k] = v
        for p in fn.params:
            if p not in env and p not in ("self",):
                d = fn.param_default(p)
                if d is not None:
                    env[p] = Evaluator({}).eval(d)
        if a.kwarg:
            env[a.kwarg.arg] = {}
        ev = Evaluator(env, on_call=self.on_call, on_attr=self.on_attr, on_store=self.on_store)
        ev.fn = fn  # type: ignore[attr-defined]
        body = [s for s in fn.node.body if not (isinstance(s, ast.Expr) and isinstance(s.value, ast.Constant))]
        try:
            ev.run(body)
            ret = None
        except EvalReturn as r:
            ret = r.value
        except Unsupported as exc:
            raise Unknown(f"{fn.short}: outside the frame model: {exc}")
        finally:
            self.depth -= 1
        return ret

    # -- hooks
    def on_attr(self, ev, e: ast.Attribute):
        base = ev.eval(e.value)
        if isinstance(base, STUBS + (Frame, Ser)):
            try:
                return getattr(base, e.attr)
            except AttributeError:
                if isinstance(base, SelfStub) and e.attr == "tolerance":
                    return getattr(base, "_tolerance")
                raise Unknown(f"attribute {e.attr} of {type(base).__name__}")
        if isinstance(e.value, ast.Name) and e.value.id == "logger":
            return Opaque("logger")
        if base is None and not isinstance(e.value, ast.Constant):
            # an attribute of None (elements of a formula that cannot be parsed, a missing name): Python raises
            raise EvalRaise("AttributeError", e)
        return NotImplemented

    def on_store(self, ev, target, value) -> bool:
        if isinstance(target, ast.Attribute):
            base = ev.eval(target.value)
            if isinstance(base, (SelfStub, Frame)):
                try:
                    setattr(base, target.attr, value)
                except Unsupported as exc:
                    raise Unknown(str(exc))
                return True
            return False
        if isinstance(target, ast.Subscript):
            base = ev.eval(target.value)
            if isinstance(base, (Frame, _Loc, dict)):
                key = ev.eval(target.slice)
                try:
                    base[key] = value
                except Unsupported as exc:
                    raise Unknown(f"outside the frame model: {exc}")
                except ValueError:
                    raise EvalRaise("ValueError", target)
                return True
        return False

    def _args(self, ev, c: ast.Call):
        args = []
        for x in c.args:
            if isinstance(x, ast.Starred):
                raise Unknown("starred argument")
            args.append(ev.eval(x))
        kwargs = {}
        for k in c.keywords:
            if k.arg is None:
                v = ev.eval(k.value)
                if v != {}:
                    raise Unknown("**kwargs")
                continue
            kwargs[k.arg] = ev.eval(k.value)
        return args, kwargs

    def on_call(self, ev, c: ast.Call):
        f = c.func
        # super().method(...)
        if isinstance(f, ast.Attribute) and isinstance(f.value, ast.Call) and isinstance(f.value.func, ast.Name) and f.value.func.id == "super":
            fn: FuncInfo = ev.fn
            selfobj = ev.env[fn.node.args.args[0].arg]
            args, kwargs = self._args(ev, c)
            bases = [b for b in self.prog.mro(fn.cls)[1:]]
            for b in bases:
                m = [x for x in self.prog.find_method(b, f.attr) if x.cls is b]
                if m:
                    return self.call(m[0], selfobj, args, kwargs)
            return None  # object.__init__ / ABC
        if isinstance(f, ast.Name):
            name = f.id
            if name == "isinstance" and len(c.args) == 2:
                v = ev.eval(c.args[0])
                t = norm(c.args[1])
                if t == "float":
                    return isinstance(v, float)
                if t in ("pd.DataFrame", "DataFrame"):
                    return isinstance(v, Frame)
                return NotImplemented
            if name == "attrgetter":
                return operator.attrgetter(*[ev.eval(x) for x in c.args])
            if name == "sorted":
                args, kwargs = self._args(ev, c)
                return sorted(args[0], **kwargs)
            if name == "pfba":
                self.pfba_calls += 1
                if self.pfba_solution is None:
                    raise Unknown("pfba result requested but not modelled")
                return self.pfba_solution
            if name == "flux_variability_analysis":
                args, kwargs = self._args(ev, c)
                fn = self.prog.func("cobra.flux_analysis.variability", "flux_variability_analysis")
                for p, v in zip(fn.params, args):
                    kwargs[p] = v
                self.fva_calls.append(kwargs)
                return self.fva_result
            if name == "linear_reaction_coefficients":
                return dict(self.coefficients)
            if name == "Reaction":
                args, kwargs = self._args(ev, c)
                return RxnStub(kwargs.get("id", args[0] if args else "?"), {})
            if name in ("shorten", "dedent"):
                for x in c.args:
                    ev.eval(x)
                return Opaque(name)
            return NotImplemented
        if isinstance(f, ast.Attribute):
            if norm(f) in ("pd.DataFrame", "pandas.DataFrame"):
                args, kwargs = self._args(ev, c)
                try:
                    return Frame.build(*args, **kwargs)
                except Unsupported as exc:
                    raise Unknown(f"outside the frame model: {exc}")
            if isinstance(f.value, ast.Name) and f.value.id == "logger":
                return None
            recv = ev.eval(f.value)
            if recv is None:
                raise EvalRaise("AttributeError", c)  # a method of None
            if isinstance(recv, SelfStub):
                args, kwargs = self._args(ev, c)
                return self.call_method(recv._cls, f.attr, recv, args, kwargs)
            if isinstance(recv, STUBS + (Frame, Ser)) or (isinstance(recv, dict) and f.attr in ("items", "keys", "values", "get")) or (isinstance(recv, str) and f.attr in ("title", "format")):
                args, kwargs = self._args(ev, c)
                try:
                    meth = getattr(recv, f.attr)
                except AttributeError:
                    raise Unknown(f"method {f.attr} of {type(recv).__name__} is outside the frame model")
                try:
                    out = meth(*args, **kwargs)
                except Unsupported as exc:
                    raise Unknown(f"outside the frame model: {exc}")
                except KeyError:
                    raise EvalRaise("KeyError", c)
                except ValueError:
                    raise EvalRaise("ValueError", c)
                except LibTypeError:
                    raise EvalRaise("TypeError", c)
                except TypeError as exc:
                    raise Unknown(f"{f.attr}: {exc}")
                if isinstance(out, (type({}.items()), type({}.keys()), type({}.values()))):
                    return list(out)
                return out
        return NotImplemented


# ---------------------------------------------------------------------------------------- scenarios
FLUXES = (-2.5, -3e-8, 0.0, 3e-8, 4.0)
FACTORS = (-1.0, 1.0, -2.0, 0.5)


def _zero(x: float) -> float:
    return 0.0 if abs(x) < TOL else x


def _klass(F: float, K: float) -> str:
    s = "flux<0" if F < 0 else "flux>0" if F > 0 else "flux=0"
    m = "" if F == 0 else (", below tolerance" if abs(F * K) < TOL else ", above tolerance")
    return f"{s}{m}, coefficient {K:g}"


def _rows():
    rows = []
    n = 0
    for F in FLUXES:
        for K in FACTORS:
            rows.append((f"R{n:02d}", F, K))
            n += 1
    # a slow reaction with a large coefficient: the raw flux is below the tolerance, the flux times the coefficient is
    # not - what a summary shows (and thresholds) is the scaled value
    for F, K in ((6e-7, -2.0), (-6e-7, 2.0), (6e-7, 2.0)):
        rows.append((f"R{n:02d}", F, K))
        n += 1
    return rows


def _fva_frame(rows, which) -> Frame:
    idx, lo, hi = [], [], []
    for rid, F, K in rows:
        if which(rid):
            idx.append(rid)
            lo.append(F - 1.5)
            hi.append(F + 2.5)
    idx.append("UNRELATED")
    lo.append(-1.0)
    hi.append(1.0)
    return Frame({"minimum": lo, "maximum": hi}, idx)


def _close(a, b) -> bool:
    if isinstance(a, Opaque) or isinstance(b, Opaque):
        return False
    if isinstance(a, float) and math.isnan(a):
        return isinstance(b, float) and math.isnan(b)
    return abs(a - b) <= 1e-12 * max(1.0, abs(a), abs(b))


FVA_VARIANTS = ("none", "float", "complete", "partial")


def _check_tables(ctx, rule_prefix, fn, selfobj, rows, up_attr, down_attr, variant, partial_ids, key_col="reaction"):
    """Compare the two public tables and _flux with the specification, row class by row class."""
    up: Frame = getattr(selfobj, up_attr, None)
    down: Frame = getattr(selfobj, down_attr, None)
    full: Frame = getattr(selfobj, "_flux", None)
    what = f"fva={variant}"
    if not isinstance(up, Frame) or not isinstance(down, Frame) or not isinstance(full, Frame):
        raise AnalysisError(f"C20: {fn.short} did not produce the tables ({what})")
    problems: Dict[str, str] = {}
    for rid, F, K in rows:
        k = _klass(F, K)
        in_up = rid in up.index
        in_down = rid in down.index
        if in_up + in_down != 1 or up.index.count(rid) + down.index.count(rid) != 1:
            problems.setdefault("rows", f"{what}: a reaction with {k}{'' if variant != 'partial' or rid in partial_ids else ' that is missing from the FVA frame'} is listed {in_up + in_down} time(s) over {up_attr}/{down_attr}")
            continue
        if rid not in full.index:
            problems.setdefault("rows", f"{what}: a reaction with {k} is missing from to_frame()")
        # a sub-tolerance value may be shown as zero (what the code does) or as it is: the statement does not
        # mention the tolerance, so both are accepted; the side must agree with the value that is shown
        row = (up if in_up else down).row(rid)
        shown = row["flux"]
        if not (_close(shown, _zero(F * K)) or _close(shown, F * K)):
            problems.setdefault("scale", f"{what}: a reaction with {k} (solution flux {F:g}) is shown with flux {shown!r}, expected {_zero(F * K):g}")
            continue
        want_up = shown > 0 or (shown == 0 and K > 0)
        if in_up != want_up:
            problems.setdefault("sign", f"{what}: a reaction with {k}, shown with flux {shown:g}, is listed under {up_attr if in_up else down_attr}")
        if row.get(key_col) != rid:
            problems.setdefault("scale", f"{what}: the row of {rid} names reaction {row.get(key_col)!r}")
        if variant != "none":
            has = variant != "partial" or rid in partial_ids
            if "minimum" not in row or "maximum" not in row:
                problems.setdefault("range", f"{what}: the tables have no minimum/maximum columns")
            elif has:
                lo, hi = sorted((K * (F - 1.5), K * (F + 2.5)))
                if not (_close(row["minimum"], lo) and _close(row["maximum"], hi)):
                    problems.setdefault("range", f"{what}: a reaction with {k} and FVA range [{F - 1.5:g}; {F + 2.5:g}] is shown with range [{row['minimum']!r}; {row['maximum']!r}], expected [{lo:g}; {hi:g}]")
        elif "minimum" in row or "maximum" in row:
            problems.setdefault("range", f"{what}: range columns without fva")
    for clause in ("rows", "sign", "scale", "range"):
        rule = f"C20.{clause}"
        if clause in problems:
            ctx.bad(rule, fn, f"{rule_prefix} {clause}", problems[clause])
        else:
            ctx.ok(rule, fn, f"{rule_prefix} {clause} fva={variant}", f"{len(rows)} row classes agree with the specification ({what})")
    return up, down


def _run(ctx, what: str, thunk):
    try:
        return thunk()
    except Unknown as exc:
        raise AnalysisError(f"C20: {what} cannot be evaluated: {exc}")
    except Unsupported as exc:
        raise AnalysisError(f"C20: {what} is outside the frame model: {exc}")


def check_model_summary(ctx) -> None:
    prog = ctx.prog
    gen = prog.func("cobra.summary.model_summary", "ModelSummary._generate")
    disp = prog.func("cobra.summary.model_summary", "ModelSummary._display_flux")
    rows = _rows()
    partial_ids = {rid for n, (rid, _, _) in enumerate(rows) if n % 2 == 0}
    for variant in FVA_VARIANTS:
        boundary = [RxnStub(rid, {"m_" + rid: K}) for rid, F, K in rows]
        shuffled = boundary[1::2] + boundary[0::2][::-1]
        model = ModelStub(shuffled)
        solution = SolutionStub({rid: F for rid, F, K in rows})
        solution["BIOMASS"] = 0.75
        solution["ATPM"] = 8.0
        obj = {RxnStub("BIOMASS", {}): 1.0, RxnStub("ATPM", {}): -0.5}
        fva_full = _fva_frame(rows, lambda r: True)
        fva_arg = {"none": None, "float": 0.0, "complete": fva_full, "partial": _fva_frame(rows, lambda r: r in partial_ids)}[variant]
        it = Interp(prog, fva_full, obj)
        me = SelfStub("ModelSummary")
        try:
            _run(ctx, "ModelSummary.__init__", lambda: it.call_method("ModelSummary", "__init__", me, [], {"model": model, "solution": solution, "fva": fva_arg}))
        except EvalRaise as exc:
            ctx.bad("C20.render", gen, "ModelSummary construction", f"fva={variant}: building the summary raises {exc.exc_type}")
            continue
        _check_tables(ctx, "ModelSummary", gen, me, rows, "uptake_flux", "secretion_flux", variant, partial_ids)
        # metabolite column
        for tab in (me.uptake_flux, me.secretion_flux):
            for rid in tab.index:
                if tab.row(rid).get("metabolite") != "m_" + rid:
                    ctx.bad("C20.scale", gen, "ModelSummary metabolite column", f"fva={variant}: the row of {rid} names metabolite {tab.row(rid).get('metabolite')!r}")
                    break
        # objective
        want = 0.75 * 1.0 + 8.0 * -0.5
        if _close(getattr(me, "_objective_value", None) if not isinstance(getattr(me, "_objective_value", None), type(None)) else float("nan"), want):
            ctx.ok("C20.objective", gen, f"objective value fva={variant}", "sum of coefficient x solution flux over the objective reactions")
        else:
            ctx.bad("C20.objective", gen, "objective value", f"the reported objective value is {getattr(me, '_objective_value', None)!r}, the solution's is {want:g} (1.0 x 0.75 + -0.5 x 8.0)")
        if it.pfba_calls:
            ctx.bad("C20.objective", gen, "solution default", "a given solution is replaced by a new pFBA solution")
        # fva request
        if variant == "float":
            if len(it.fva_calls) != 1:
                ctx.bad("C20.fva", gen, "flux_variability_analysis call", f"a float fva triggers {len(it.fva_calls)} FVA runs")
            else:
                kw = it.fva_calls[0]
                ids = sorted(getattr(r, "id", r) for r in (kw.get("reaction_list") or []))
                if kw.get("fraction_of_optimum") != 0.0:
                    ctx.bad("C20.fva", gen, "flux_variability_analysis call", f"fva=0.0 is passed on as fraction_of_optimum={kw.get('fraction_of_optimum')!r}")
                elif kw.get("reaction_list") is not None and ids != sorted(r for r, _, _ in rows):
                    ctx.bad("C20.fva", gen, "flux_variability_analysis call", "the FVA is not run for the boundary reactions")
                elif kw.get("model") is not model:
                    ctx.bad("C20.fva", gen, "flux_variability_analysis call", "the FVA is not run on the summarised model")
                else:
                    ctx.ok("C20.fva", gen, "flux_variability_analysis call", "float fva -> fraction_of_optimum, boundary reactions, same model")
        elif it.fva_calls:
            ctx.bad("C20.fva", gen, "flux_variability_analysis call", f"fva={variant}: a new FVA replaces what the caller supplied")
        # copies
        held = list(getattr(me, "_boundary", [])) + list(getattr(me, "_boundary_metabolites", [])) + list(getattr(me, "_objective", {}) or {})
        if held and all(getattr(o, "is_copy", False) for o in held if isinstance(o, (RxnStub, MetStub))):
            ctx.ok("C20.detached", gen, f"held objects fva={variant}", "the summary keeps copies of the boundary reactions, metabolites and objective reactions", nontrivial=variant == "none")
        else:
            ctx.bad("C20.detached", gen, "held objects", "the summary keeps the model's own reactions/metabolites: later model edits change what an existing summary shows")
        # display
        for thr, label in ((TOL, "tolerance"), (1.0, "1.0"), (1e9, "larger than every value")):
            for tab_name in ("uptake_flux", "secretion_flux"):
                for names in (False, True):
                    try:
                        out = _run(ctx, "ModelSummary._display_flux", lambda: it.call(disp, me, [getattr(me, tab_name), names, "C", thr], {}))
                    except EvalRaise as exc:
                        ctx.bad("C20.render", disp, "ModelSummary._display_flux", f"fva={variant}, threshold {label}, names={names}: rendering raises {exc.exc_type}")
                        break
                    if not isinstance(out, Frame):
                        raise AnalysisError("C20: _display_flux did not return a table")
                    src: Frame = getattr(me, tab_name)
                    want_ids = [r for r in src.index if any(abs(src.row(r)[c]) >= thr for c in ("flux", "minimum", "maximum") if c in src.cols and not (isinstance(src.row(r)[c], float) and math.isnan(src.row(r)[c])))]
                    if out.index != want_ids:
                        ctx.bad("C20.render", disp, "ModelSummary._display_flux", f"fva={variant}, threshold {label}: {len(out.index)} rows shown, {len(want_ids)} have |flux| or a range end at or above the threshold")
                        break
                else:
                    continue
                break
            else:
                continue
            break
        else:
            ctx.ok("C20.render", disp, f"ModelSummary._display_flux fva={variant}", "3 thresholds x 2 tables x names on/off: no exception, rows filtered by |flux| or range", nontrivial=True)


def check_metabolite_summary(ctx) -> None:
    prog = ctx.prog
    gen = prog.func("cobra.summary.metabolite_summary", "MetaboliteSummary._generate")
    disp = prog.func("cobra.summary.metabolite_summary", "MetaboliteSummary._display_flux")
    rows = _rows()
    partial_ids = {rid for n, (rid, _, _) in enumerate(rows) if n % 3 != 0}
    for variant in FVA_VARIANTS:
        met = MetStub("m_c")
        rxns = [RxnStub(rid, {"m_c": K, "other_c": -K}) for rid, F, K in rows]
        met.reactions = rxns[::2] + rxns[1::2]
        model = ModelStub([])
        solution = SolutionStub({rid: F for rid, F, K in rows})
        fva_full = _fva_frame(rows, lambda r: True)
        fva_arg = {"none": None, "float": 0.0, "complete": fva_full, "partial": _fva_frame(rows, lambda r: r in partial_ids)}[variant]
        it = Interp(prog, fva_full, {})
        me = SelfStub("MetaboliteSummary")
        try:
            _run(ctx, "MetaboliteSummary.__init__", lambda: it.call_method("MetaboliteSummary", "__init__", me, [], {"metabolite": met, "model": model, "solution": solution, "fva": fva_arg}))
        except EvalRaise as exc:
            ctx.bad("C20.render", gen, "MetaboliteSummary construction", f"fva={variant}: building the summary raises {exc.exc_type}")
            continue
        up, down = _check_tables(ctx, "MetaboliteSummary", gen, me, rows, "producing_flux", "consuming_flux", variant, partial_ids)
        bad = None
        for tab, side in ((up, "producing"), (down, "consuming")):
            if "percent" not in tab.cols:
                bad = f"the {side} table has no percent column"
                break
            tot = sum(abs(v) for v in tab.cols["flux"])
            shares = tab.cols["percent"]
            if tot > 0 and (any(isinstance(s, Opaque) for s in shares) or abs(sum(shares) - 1.0) > 1e-9):
                bad = f"the {side} percentages sum to {sum(shares)!r}"
                break
            for rid in tab.index:
                r = tab.row(rid)
                if tot > 0 and not _close(r["percent"], abs(r["flux"]) / tot):
                    bad = f"the {side} share of {rid} is {r['percent']!r}, expected |flux| / total = {abs(r['flux']) / tot:g}"
                    break
            if bad:
                break
        if bad:
            ctx.bad("C20.percent", gen, "percent", f"fva={variant}: {bad}")
        else:
            ctx.ok("C20.percent", gen, f"percent fva={variant}", "each side's shares are |flux| / side total and sum to one")
        if it.pfba_calls:
            ctx.bad("C20.objective", gen, "solution default", "a given solution is replaced by a new pFBA solution")
        if variant == "float":
            kw = it.fva_calls[0] if len(it.fva_calls) == 1 else None
            ids = sorted(getattr(r, "id", r) for r in ((kw or {}).get("reaction_list") or []))
            if kw is None or kw.get("fraction_of_optimum") != 0.0 or ids != sorted(r for r, _, _ in rows) or kw.get("model") is not model:
                ctx.bad("C20.fva", gen, "flux_variability_analysis call", "a float fva is not passed on as fraction_of_optimum of one FVA over the metabolite's reactions on the same model")
            else:
                ctx.ok("C20.fva", gen, "flux_variability_analysis call", "float fva -> fraction_of_optimum, the metabolite's reactions, same model")
        elif it.fva_calls:
            ctx.bad("C20.fva", gen, "flux_variability_analysis call", f"fva={variant}: a new FVA replaces what the caller supplied")
        held = list(getattr(me, "_reactions", [])) + [getattr(me, "_metabolite", None)]
        if all(getattr(o, "is_copy", False) for o in held):
            ctx.ok("C20.detached", gen, f"held objects fva={variant}", "the summary keeps copies of the metabolite and its reactions", nontrivial=variant == "none")
        else:
            ctx.bad("C20.detached", gen, "held objects", "the summary keeps the model's own metabolite/reactions: later model edits change what an existing summary shows")
        ok = True
        for thr, label in ((TOL, "tolerance"), (1.0, "1.0"), (1e9, "larger than every value")):
            for tab_name in ("producing_flux", "consuming_flux"):
                for names in (False, True):
                    try:
                        out = _run(ctx, "MetaboliteSummary._display_flux", lambda: it.call(disp, me, [getattr(me, tab_name), names, thr], {}))
                    except EvalRaise as exc:
                        ctx.bad("C20.render", disp, "MetaboliteSummary._display_flux", f"fva={variant}, threshold {label}, names={names}: rendering raises {exc.exc_type}")
                        ok = False
                        break
                    src: Frame = getattr(me, tab_name)
                    want_ids = [r for r in src.index if any(abs(src.row(r)[c]) >= thr for c in ("flux", "minimum", "maximum") if c in src.cols and not (isinstance(src.row(r)[c], float) and math.isnan(src.row(r)[c])))]
                    if not isinstance(out, Frame) or out.index != want_ids:
                        ctx.bad("C20.render", disp, "MetaboliteSummary._display_flux", f"fva={variant}, threshold {label}: {len(getattr(out, 'index', []))} rows shown, {len(want_ids)} have |flux| or a range end at or above the threshold")
                        ok = False
                        break
                if not ok:
                    break
            if not ok:
                break
        if ok:
            ctx.ok("C20.render", disp, f"MetaboliteSummary._display_flux fva={variant}", "3 thresholds x 2 tables x names on/off: no exception, rows filtered by |flux| or range")


def check_reaction_summary(ctx) -> None:
    prog = ctx.prog
    gen = prog.func("cobra.summary.reaction_summary", "ReactionSummary._generate")
    sf = prog.func("cobra.summary.reaction_summary", "ReactionSummary._string_flux")
    for F in FLUXES:
        for variant in FVA_VARIANTS:
            rxn = RxnStub("R1", {"a": -1.0, "b": 1.0})
            other = RxnStub("R0", {"a": 1.0})
            model = ModelStub([])
            solution = SolutionStub({"R1": F, "R0": 77.0})
            full = Frame({"minimum": [-9.0, F - 1.5], "maximum": [9.0, F + 2.5]}, ["R0", "R1"])
            part = Frame({"minimum": [-9.0], "maximum": [9.0]}, ["R0"])
            fva_arg = {"none": None, "float": 0.0, "complete": full, "partial": part}[variant]
            it = Interp(prog, Frame({"minimum": [F - 1.5], "maximum": [F + 2.5]}, ["R1"]), {})
            me = SelfStub("ReactionSummary")
            try:
                _run(ctx, "ReactionSummary.__init__", lambda: it.call_method("ReactionSummary", "__init__", me, [], {"reaction": rxn, "model": model, "solution": solution, "fva": fva_arg}))
            except EvalRaise as exc:
                ctx.bad("C20.render", gen, "ReactionSummary construction", f"fva={variant}: building the summary raises {exc.exc_type}")
                continue
            fl: Frame = getattr(me, "_flux", None)
            if not isinstance(fl, Frame) or fl.index != ["R1"]:
                ctx.bad("C20.rows", gen, "ReactionSummary rows", f"fva={variant}: the table lists {getattr(fl, 'index', None)} instead of the one reaction")
                continue
            row = fl.row("R1")
            if not _close(row["flux"], F):
                ctx.bad("C20.scale", gen, "ReactionSummary flux", f"solution flux {F:g} is reported as {row['flux']!r}")
            elif variant in ("float", "complete") and not (_close(row.get("minimum", float("nan")), F - 1.5) and _close(row.get("maximum", float("nan")), F + 2.5)):
                ctx.bad("C20.range", gen, "ReactionSummary range", f"fva={variant}: FVA range [{F - 1.5:g}; {F + 2.5:g}] is reported as [{row.get('minimum')!r}; {row.get('maximum')!r}]")
            else:
                ctx.ok("C20.scale", gen, f"ReactionSummary flux={F:g} fva={variant}", "flux and range are the solution's and the FVA's values", nontrivial=False)
            if variant == "float":
                kw = it.fva_calls[0] if len(it.fva_calls) == 1 else None
                ids = [getattr(r, "id", r) for r in ((kw or {}).get("reaction_list") or [])]
                if kw is None or kw.get("fraction_of_optimum") != 0.0 or ids != ["R1"] or kw.get("model") is not model:
                    ctx.bad("C20.fva", gen, "flux_variability_analysis call", "a float fva is not passed on as fraction_of_optimum of one FVA of this reaction on the same model")
                elif F == FLUXES[0]:
                    ctx.ok("C20.fva", gen, "flux_variability_analysis call", "float fva -> fraction_of_optimum, this reaction, same model")
            if not getattr(getattr(me, "_reaction", None), "is_copy", False):
                ctx.bad("C20.detached", gen, "held objects", "the summary keeps the model's own reaction")
            elif F == FLUXES[0] and variant == "none":
                ctx.ok("C20.detached", gen, "held objects", "the summary keeps a copy of the reaction")
            bad = None
            for thr in (TOL, 1.0, 1e9):
                try:
                    _run(ctx, "ReactionSummary._string_flux", lambda: it.call(sf, me, [thr, ".4G"], {}))
                except EvalRaise as exc:
                    bad = f"flux {F:g}, fva={variant}, threshold {thr:g}: rendering raises {exc.exc_type}"
                    break
            if bad:
                ctx.bad("C20.render", sf, "ReactionSummary._string_flux", bad + " (a reaction whose flux is below the display threshold cannot be printed)")
            else:
                ctx.ok("C20.render", sf, f"ReactionSummary._string_flux flux={F:g} fva={variant}", "3 thresholds: no exception", nontrivial=(F == 0.0))


def check_default_solution(ctx) -> None:
    """solution=None -> pfba(model) exactly once, and its fluxes are the ones reported."""
    prog = ctx.prog
    gen = prog.func("cobra.summary.model_summary", "ModelSummary._generate")
    rows = _rows()
    boundary = [RxnStub(rid, {"m_" + rid: K}) for rid, F, K in rows]
    model = ModelStub(boundary)
    sol = SolutionStub({rid: F for rid, F, K in rows})
    it = Interp(prog, None, {}, pfba_solution=sol)
    me = SelfStub("ModelSummary")
    try:
        _run(ctx, "ModelSummary.__init__", lambda: it.call_method("ModelSummary", "__init__", me, [], {"model": model}))
    except EvalRaise as exc:
        ctx.bad("C20.render", gen, "ModelSummary construction", f"default solution: building the summary raises {exc.exc_type}")
        return
    if it.pfba_calls == 1 and isinstance(getattr(me, "uptake_flux", None), Frame):
        ctx.ok("C20.objective", gen, "solution default", "solution=None: one pFBA solution is computed and reported")
    else:
        ctx.bad("C20.objective", gen, "solution default", f"solution=None triggers {it.pfba_calls} pFBA runs")


def check_detached(ctx) -> None:
    prog = ctx.prog
    tf = prog.func("cobra.summary.summary", "Summary.to_frame")
    rets = [n for n in walk_local(tf.node) if isinstance(n, ast.Return)]
    for r in rets:
        v = r.value
        if isinstance(v, ast.Name):
            defs = [n for n in walk_local(tf.node) if isinstance(n, ast.Assign) and len(n.targets) == 1 and isinstance(n.targets[0], ast.Name) and n.targets[0].id == v.id]
            if len(defs) == 1:
                v = defs[0].value
        if isinstance(v, ast.Call) and isinstance(v.func, ast.Attribute) and v.func.attr in ("copy", "to_frame", "reset_index") or (isinstance(v, ast.Call) and norm(v.func) in ("pd.DataFrame", "pd.concat")):
            ctx.ok("C20.detached", tf, r, "to_frame() returns a new table")
        else:
            ctx.bad("C20.detached", tf, r, "to_frame() hands out the summary's internal table: a caller's in-place edit changes what the summary prints afterwards")
    for mod, short, attrs in (("cobra.summary.model_summary", "ModelSummary._generate", ("uptake_flux", "secretion_flux")), ("cobra.summary.metabolite_summary", "MetaboliteSummary._generate", ("producing_flux", "consuming_flux"))):
        fn = prog.func(mod, short)
        for n in walk_local(fn.node):
            if isinstance(n, ast.Assign) and isinstance(n.targets[0], ast.Attribute) and n.targets[0].attr in attrs and norm(n.targets[0].value) == "self":
                v = n.value
                if isinstance(v, ast.Call) and isinstance(v.func, ast.Attribute) and v.func.attr == "copy":
                    ctx.ok("C20.detached", fn, n, "public table is a copy of the selection", nontrivial=False)
                else:
                    ctx.bad("C20.detached", fn, n, "a public table is a view on the internal flux table")


def check_route(ctx) -> None:
    prog = ctx.prog
    for mod, short, cls, extra in (("cobra.core.model", "Model.summary", "ModelSummary", {"model": "self"}), ("cobra.core.metabolite", "Metabolite.summary", "MetaboliteSummary", {"metabolite": "self", "model": "self._model"}), ("cobra.core.reaction", "Reaction.summary", "ReactionSummary", {"reaction": "self", "model": "self._model"})):
        fn = prog.func(mod, short)
        calls = [n for n in walk_local(fn.node) if isinstance(n, ast.Call) and norm(n.func) == cls]
        if len(calls) != 1:
            ctx.bad("C20.route", fn, fn.node, f"{short} does not build a {cls}")
            continue
        kw = {k.arg: norm(k.value) for k in calls[0].keywords}
        want = dict(extra, solution="solution", fva="fva")
        want_alt = dict(want)
        if "model" in want_alt and want_alt["model"] == "self._model":
            want_alt["model"] = "self.model"
        if kw == want or kw == want_alt:
            ctx.ok("C20.route", fn, calls[0], "model, solution and fva are passed through unchanged")
        else:
            ctx.bad("C20.route", fn, calls[0], f"{short} passes {kw} instead of {want}: the summary does not describe the solution/FVA the caller supplied")


_SUMMARY_MODULES = ("cobra.summary.summary", "cobra.summary.model_summary", "cobra.summary.metabolite_summary", "cobra.summary.reaction_summary")
_CONTAINER_CALLS = ("dict", "list", "set", "OrderedDict", "defaultdict", "WeakKeyDictionary", "WeakValueDictionary", "WeakSet", "deque")
_STORING_METHODS = ("setdefault", "update", "append", "add", "extend", "insert", "__setitem__", "appendleft")


def _is_container(v) -> bool:
    if isinstance(v, (ast.Dict, ast.List, ast.Set)):
        return True
    return isinstance(v, ast.Call) and norm(v.func).split(".")[-1] in _CONTAINER_CALLS


def check_fresh(ctx) -> None:
    """A summary describes the model as it stands at the call. The model is mutable and tells nobody when it is edited
    (bounds, objective, direction, stoichiometry, solver configuration), so whatever a summary module derives from it
    - the default pFBA solution, an FVA frame - is valid for that call only. Rule: no function of the summary modules
    stores into a container that outlives the call (module-level or class-level table, or a `global` rebinding), and
    none carries a cross-call cache decorator. Attributes of the Summary instance are not concerned: an instance is the
    snapshot the caller asked for."""
    prog = ctx.prog
    scanned = 0
    for mod in _SUMMARY_MODULES:
        try:
            unit = prog.unit(mod)
        except Exception:  # noqa: BLE001
            raise AnalysisError(f"C20.fresh: module {mod} not found")
        tables = {n for n, vals in unit.globals.items() if vals and _is_container(vals[-1])}
        class_tables = set()
        for cls in ast.walk(unit.tree):
            if isinstance(cls, ast.ClassDef):
                for st in cls.body:
                    tgt = st.targets[0] if isinstance(st, ast.Assign) and len(st.targets) == 1 else st.target if isinstance(st, ast.AnnAssign) else None
                    if isinstance(tgt, ast.Name) and getattr(st, "value", None) is not None and _is_container(st.value):
                        class_tables.add((cls.name, tgt.id))
        class_attr = {a for _, a in class_tables}
        class_names = {c for c, _ in class_tables}

        def outlives(e) -> Optional[str]:
            if isinstance(e, ast.Name) and e.id in tables:
                return e.id
            if isinstance(e, ast.Attribute) and e.attr in class_attr:
                base = norm(e.value)
                if base in class_names or base in ("cls", "self.__class__", "type(self)") or (base == "self"):
                    return f"{base}.{e.attr}"
            return None

        for f in prog.all_funcs():
            if f.unit is not unit:
                continue
            scanned += 1
            cached = [d for d in (f.decorators or []) if re.search(r"\b(lru_cache|cache|memoize|memoized)\b", d)]
            hit = None
            if cached:
                hit = (f.node, f"is memoised across calls (@{cached[0]})")
            globs = {n for st in walk_local(f.node) if isinstance(st, ast.Global) for n in st.names}
            for n in walk_local(f.node):
                if hit:
                    break
                if isinstance(n, ast.Subscript) and isinstance(n.ctx, ast.Store) and outlives(n.value):
                    hit = (n, f"stores into `{outlives(n.value)}`, which outlives the call")
                elif isinstance(n, ast.Call) and isinstance(n.func, ast.Attribute) and n.func.attr in _STORING_METHODS and outlives(n.func.value):
                    hit = (n, f"stores into `{outlives(n.func.value)}` (.{n.func.attr}), which outlives the call")
                elif isinstance(n, ast.Name) and isinstance(n.ctx, ast.Store) and n.id in globs:
                    hit = (n, f"rebinds the module-level name `{n.id}`")
            if hit:
                ctx.bad("C20.fresh", f, enclosing_stmt(hit[0]) if not isinstance(hit[0], (ast.FunctionDef, ast.AsyncFunctionDef)) else hit[0], f"`{f.qualname.split('.')[-1]}` {hit[1]}: what a summary module derives from the model is valid for the model as it stood at that call only - the model can be edited (bounds, objective, direction, stoichiometry, solver settings) without the store being told, and the next summary then describes a model that no longer exists")
            else:
                ctx.ok("C20.fresh", f, None, "keeps nothing beyond the call / the summary instance", nontrivial=True)
    if not scanned:
        raise AnalysisError("C20.fresh: no function found in the summary modules")


def run(ctx) -> None:
    ctx.rule("C20.rows", "finite domain: every reaction exactly once over the two tables and in to_frame()", floor=8)
    ctx.rule("C20.sign", "finite domain: side = sign of flux x coefficient, zero rows by coefficient", floor=8)
    ctx.rule("C20.scale", "finite domain: shown flux = solution flux x coefficient (sub-tolerance -> 0)", floor=8)
    ctx.rule("C20.range", "finite domain: range = FVA bounds x coefficient, ordered; partial frames keep rows", floor=8)
    ctx.rule("C20.percent", "finite domain: shares of a side sum to one", floor=4)
    ctx.rule("C20.objective", "finite domain: objective value of the solution; solution default", floor=5)
    ctx.rule("C20.fva", "call arguments of the FVA run for a float fva", floor=3)
    ctx.rule("C20.render", "T10: display helpers total over thresholds and table shapes", floor=12)
    ctx.rule("C20.detached", "T8: to_frame/public tables are copies; held model objects are copies", floor=7)
    ctx.rule("C20.route", "call routing of the three summary() methods", floor=3)
    ctx.rule("C20.fresh", "T4: the summary modules keep nothing derived from the model beyond the call (no module-/class-level store, no cache decorator)", floor=12)
    ctx.guard(check_fresh, ctx)
    # the coefficient a summary scales by is read through Reaction.get_coefficient on the reaction as it stands: no
    # getter of a model object may answer from a store that an edit has not dropped (shared with C02)
    from . import stores

    ctx.rule("C02.derived", "T1: a value derived from an object's own state and kept on the object is dropped by every method of the class that changes that state (shared with C02)", floor=6, hard=1)
    ctx.guard(stores.check_derived_stores, ctx, "C02.derived")
    for chk in (check_model_summary, check_metabolite_summary, check_reaction_summary, check_default_solution, check_detached, check_route):
        try:
            chk(ctx)
        except AnalysisError as exc:
            ctx.defer(str(exc))
