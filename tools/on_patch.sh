#!/bin/sh
# Maintenance helper: one property's rule set on an in-memory overlay of /repo with a patch applied (nothing is written to /repo).
# usage: tools/on_patch.sh <PROP> <patch.diff>
cd /verif
PYTHONHASHSEED=0; export PYTHONHASHSEED
/venv/bin/python -B -m cobralint.selftest --prop "$1" --patch "$2" 2>&1 | grep '^NEW\|rror' | cut -c1-${3:-420}
