"""C07 - knocking out genes disables exactly the reactions whose rule becomes false."""
from __future__ import annotations

import ast
from typing import Dict, List, Optional, Set, Tuple

from .. import AnalysisError
from ..absint import EvalRaise, EvalReturn, Evaluator, Opaque, Unknown
from ..cfg import describe_path, no_exc
from ..program import FuncInfo, ancestors, enclosing_stmt, norm, walk_local

EXPLANATION = (
    "Decided structurally: (eval) GPR._eval_gpr is the and/or homomorphism - a gene name is true iff it is not "
    "in the knock-out set, Or maps to any, And to all over *all* values, an empty rule is true, anything else "
    "raises; (guard) in Gene.knock_out the bounds write is reachable exactly when reaction.functional is false "
    "(guard evaluated for both values), the loop ranges over all reactions of the gene and is reached on every "
    "path; Reaction.functional builds its knock-out set from all genes of the reaction filtered by their "
    "functional flag and hands it to the rule; (route) knock-outs go through the public, reversible, "
    "solver-synced setters; knock_out_model_genes calls Gene.knock_out for every listed gene; Reaction.knock_out "
    "writes (0, 0) to its own bounds and nothing else. NOT decided: truth tables of arbitrary rules as such "
    "(the evaluator clause is their definition), the gene<->reaction links (C02), solver sync (C01)."
)
ASSUMPTIONS = [
    "gene.reactions lists exactly the reactions whose rule mentions the gene (cross-reference consistency is C02's job)",
]


def run(ctx) -> None:
    ctx.rule("C07.eval", "T5: _eval_gpr is the standard and/or homomorphism", floor=8)
    ctx.rule("C07.guard", "T5: Gene.knock_out zeroes a reaction iff reaction.functional is false, for every reaction of the gene; Reaction.functional consults all genes", floor=5)
    ctx.rule("C07.route", "T4: knock-outs use the reversible synced setters; every listed gene is knocked out through Gene.knock_out; Reaction.knock_out touches its own bounds only", floor=3)
    check_eval(ctx)
    check_guard(ctx)
    check_route(ctx)
    # the rule is evaluated from the tree on every call (shared with C08): a memo on the GPR survives in-place rewrites
    from . import c08

    ctx.rule("C08.nocache", "T8: a GPR holds no derived state besides the gene set it re-derives on every read (shared with C08)", floor=5)
    c08.check_nocache(ctx)


# ------------------------------------------------------------------------------------------ eval
def _isinstance_classes(test: ast.AST) -> Optional[Tuple[str, Set[str]]]:
    """('expr', {'Name'}) for isinstance(expr, Name) / isinstance(expr, (A, B))."""
    if isinstance(test, ast.Call) and isinstance(test.func, ast.Name) and test.func.id == "isinstance" and len(test.args) == 2:
        c = test.args[1]
        names = {norm(e).split(".")[-1] for e in c.elts} if isinstance(c, ast.Tuple) else {norm(c).split(".")[-1]}
        return norm(test.args[0]), names
    return None


def _branches(stmts: List[ast.stmt]) -> List[Tuple[ast.AST, List[ast.stmt]]]:
    """Flatten an if/elif/else chain into (test or None, body)."""
    out = []
    for s in stmts:
        if isinstance(s, ast.If):
            cur = s
            while True:
                out.append((cur.test, cur.body))
                if len(cur.orelse) == 1 and isinstance(cur.orelse[0], ast.If):
                    cur = cur.orelse[0]
                else:
                    if cur.orelse:
                        out.append((None, cur.orelse))
                    break
    return out


def _branches_all(fnode: ast.AST) -> List[Tuple[Optional[ast.AST], List[ast.stmt]]]:
    """Every (test, body) of every if/elif in the function, plus (None, else-body)."""
    out: List[Tuple[Optional[ast.AST], List[ast.stmt]]] = []
    for n in walk_local(fnode):
        if isinstance(n, ast.If):
            out.append((n.test, n.body))
            if n.orelse and not (len(n.orelse) == 1 and isinstance(n.orelse[0], ast.If)):
                out.append((None, n.orelse))
    return out


def check_eval(ctx) -> None:
    prog = ctx.prog
    fn = prog.func("cobra.core.gene", "GPR._eval_gpr")
    params = [p for p in fn.pos_params if p != fn.self_name]
    if len(params) < 2:
        raise AnalysisError("GPR._eval_gpr: unexpected signature")
    expr_p, ko_p = params[0], params[1]
    seen: Dict[str, bool] = {}
    for test, body in _branches(fn.node.body):
        got = _isinstance_classes(test) if test is not None else None
        if got and got[0] == expr_p:
            classes = got[1]
            if "Name" in classes:
                rets = [s for s in body if isinstance(s, ast.Return)]
                ok = bool(rets) and isinstance(rets[0].value, ast.Compare) and len(rets[0].value.ops) == 1 and isinstance(rets[0].value.ops[0], ast.NotIn) and norm(rets[0].value.left) == f"{expr_p}.id" and norm(rets[0].value.comparators[0]) == ko_p
                seen["name"] = True
                if ok:
                    ctx.ok("C07.eval", fn, rets[0], "a gene is true iff its id is not in the knock-out set")
                else:
                    ctx.bad("C07.eval", fn, rets[0] if rets else test, "a gene name is no longer evaluated as `id not in knockouts`")
            elif "BoolOp" in classes:
                seen["boolop"] = True
                for t2, b2 in _branches(body):
                    g2 = _isinstance_classes(t2) if t2 is not None else None
                    if g2 is None:
                        if t2 is None:
                            if any(isinstance(s, ast.Raise) for s in b2):
                                ctx.ok("C07.eval", fn, b2[0], "unknown operators raise", nontrivial=False)
                            else:
                                ctx.bad("C07.eval", fn, b2[0], "an operator other than and/or is silently accepted")
                        continue
                    rets = [s for s in b2 if isinstance(s, ast.Return)]
                    for opname, want in (("Or", "any"), ("And", "all")):
                        if opname in g2[1]:
                            seen[opname] = True
                            v = rets[0].value if rets else None
                            ok = (
                                isinstance(v, ast.Call) and isinstance(v.func, ast.Name) and v.func.id == want and v.args
                                and isinstance(v.args[0], (ast.GeneratorExp, ast.ListComp))
                                and norm(v.args[0].generators[0].iter) == f"{expr_p}.values"
                                and not v.args[0].generators[0].ifs
                                and isinstance(v.args[0].elt, ast.Call) and norm(v.args[0].elt.func).endswith("_eval_gpr")
                                and len(v.args[0].elt.args) >= 2 and norm(v.args[0].elt.args[1]) == ko_p
                            )
                            if ok:
                                ctx.ok("C07.eval", fn, rets[0], f"{opname} -> {want}() over all values, same knock-out set")
                            else:
                                ctx.bad("C07.eval", fn, rets[0] if rets else t2, f"{opname} is not evaluated as {want}(...) over all of the operator's values with the same knock-out set")
            elif classes & {"Expression", "GPR", "Module"}:
                seen["wrapper"] = True
                txt = " ".join(" ".join(ast.unparse(s).split()) for s in body)
                if "return True" in txt and "_eval_gpr" in txt and f"{expr_p}.body" in txt:
                    ctx.ok("C07.eval", fn, body[0], "wrapper nodes: empty body is true, otherwise the body is evaluated")
                else:
                    ctx.bad("C07.eval", fn, body[0], "a rule wrapper (Expression/GPR) is not evaluated through its body with `empty -> True`")
        elif test is not None and norm(test) in (f"{expr_p} is None", f"not {expr_p}"):
            rets = [s for s in body if isinstance(s, ast.Return)]
            if rets and isinstance(rets[0].value, ast.Constant) and rets[0].value.value is True:
                ctx.ok("C07.eval", fn, rets[0], "no rule -> true", nontrivial=False)
            else:
                ctx.bad("C07.eval", fn, test, "an absent rule does not evaluate to True (a reaction without a rule must never be affected)")
        elif test is None:
            if any(isinstance(s, ast.Raise) for s in body):
                ctx.ok("C07.eval", fn, body[0], "anything else raises", nontrivial=False)
            else:
                ctx.bad("C07.eval", fn, body[0], "unsupported node kinds are silently accepted")
    for need in ("name", "boolop", "Or", "And", "wrapper"):
        if need not in seen:
            ctx.bad("C07.eval", fn, fn.node, f"_eval_gpr has no case for {need}")
    # GPR.eval: defaults, delegates with the caller's set
    ev = prog.func("cobra.core.gene", "GPR.eval")
    calls = [n for n in walk_local(ev.node) if isinstance(n, ast.Call) and norm(n.func).endswith("_eval_gpr")]
    if calls and any(norm(k.value) == "knockouts" for c in calls for k in c.keywords) or any(len(c.args) > 1 and norm(c.args[1]) == "knockouts" for c in calls):
        ctx.ok("C07.eval", ev, calls[0], "GPR.eval hands the caller's knock-out set to the evaluator")
    else:
        ctx.bad("C07.eval", ev, ev.node, "GPR.eval does not evaluate the rule with the given knock-out set")
    rets = [n for n in walk_local(ev.node) if isinstance(n, ast.Return) and isinstance(n.value, ast.Constant)]
    if all(r.value.value is True for r in rets):
        ctx.ok("C07.eval", ev, "empty rule", "an empty rule evaluates to True", nontrivial=False)
    else:
        ctx.bad("C07.eval", ev, rets[0], "an empty rule does not evaluate to True")


# ----------------------------------------------------------------------------------------- guard
def check_guard(ctx) -> None:
    prog, inf = ctx.prog, ctx.inf
    fn = prog.func("cobra.core.gene", "Gene.knock_out")
    g = ctx.flow.cfg(fn)
    sn = fn.self_name
    loops = [n for n in walk_local(fn.node) if isinstance(n, ast.For)]
    loops = [lp for lp in loops if norm(lp.iter) in (f"{sn}.reactions", f"{sn}._reaction", f"list({sn}.reactions)", f"list({sn}._reaction)")]
    if not loops:
        ctx.bad("C07.guard", fn, fn.node, "Gene.knock_out no longer visits all reactions of the gene")
        return
    lp = loops[0]
    var = lp.target.id if isinstance(lp.target, ast.Name) else None
    ctx.ok("C07.guard", fn, lp, "iterates over all reactions of the gene")
    # the loop is reached on every path (no early return before it)
    heads = set(g.nodes_for(lp))
    w = g.reaches_without([g.exit], lambda n: n in heads, edge_ok=no_exc)
    if w is not None:
        ctx.bad("C07.guard", fn, lp, "Gene.knock_out can return without visiting the gene's reactions (e.g. for a gene already flagged non-functional, whose reactions may still be open)", path=describe_path(w))
    else:
        ctx.ok("C07.guard", fn, lp, "the reactions are visited on every path")
    # bounds write reachable iff functional is False
    writes = [n for n in ast.walk(lp) if isinstance(n, ast.Assign) and any(isinstance(t, ast.Attribute) and t.attr == "bounds" and norm(t.value) == var for t in n.targets)]
    writes += [n for n in ast.walk(lp) if isinstance(n, ast.Call) and isinstance(n.func, ast.Attribute) and n.func.attr == "knock_out" and norm(n.func.value) == var]
    if not writes:
        ctx.bad("C07.guard", fn, lp, "Gene.knock_out no longer closes any reaction")
        return
    wnodes = set()
    for wr in writes:
        wnodes |= {x for x in g.node_containing(wr) if x.kind != "with_exit"}
    body_first = {x for st in lp.body[:1] for x in g.node_containing(st) if x.kind != "with_exit"}
    for functional in (True, False):
        def on_attr(ev, a: ast.Attribute, functional=functional):
            if a.attr == "functional" and norm(a.value) == var:
                return functional
            return NotImplemented

        def edge_ok(a, b, label, functional=functional):
            if label == "exc":
                return False
            if label in ("true", "false") and a.kind == "test" and a.ast is not None:
                try:
                    t = Evaluator({}, on_attr=lambda ev, at: on_attr(ev, at)).truth(a.ast)
                except (Unknown, EvalRaise):
                    return True
                return (label == "true") == bool(t)
            return True

        seen = g.reach(list(body_first), edge_ok=edge_ok, include_start=True)
        reached = any(n in seen for n in wnodes)
        if functional and reached:
            ctx.bad("C07.guard", fn, writes[0], "a reaction that is still functional (its rule is true without the knocked-out genes) can be closed")
        elif not functional and not reached:
            ctx.bad("C07.guard", fn, writes[0], "a reaction whose rule became false is not closed")
        else:
            ctx.ok("C07.guard", fn, writes[0], f"reaction.functional={functional}: bounds write {'reached' if reached else 'not reached'}")
    for wr in writes:
        if isinstance(wr, ast.Assign) and norm(wr.value) not in ("(0, 0)", "(0.0, 0.0)", "0, 0"):
            ctx.bad("C07.guard", fn, wr, "a knocked-out reaction does not get both bounds set to zero")
    # Reaction.functional
    rf = prog.func("cobra.core.reaction", "Reaction.functional")
    calls = [n for n in walk_local(rf.node) if isinstance(n, ast.Call) and isinstance(n.func, ast.Attribute) and n.func.attr == "eval" and "gpr" in norm(n.func.value)]
    ok = False
    if calls and calls[0].args and isinstance(calls[0].args[0], (ast.SetComp, ast.ListComp, ast.GeneratorExp)):
        comp = calls[0].args[0]
        gen = comp.generators[0]
        it = norm(gen.iter)
        elem = norm(comp.elt)
        v = gen.target.id if isinstance(gen.target, ast.Name) else "?"
        ifs = [norm(i) for i in gen.ifs]
        ok = it in (f"{rf.self_name}.genes", f"{rf.self_name}._genes") and elem == f"{v}.id" and ifs == [f"not {v}.functional"]
    if ok:
        ctx.ok("C07.guard", rf, calls[0], "rule evaluated with the ids of all non-functional genes of the reaction")
    else:
        ctx.bad("C07.guard", rf, calls[0] if calls else rf.node, "Reaction.functional does not evaluate the rule against exactly the non-functional genes of the reaction")
    rets = [n for n in walk_local(rf.node) if isinstance(n, ast.Return) and isinstance(n.value, ast.Constant)]
    if all(r.value.value is True for r in rets):
        ctx.ok("C07.guard", rf, "detached reaction", "a reaction without a model counts as functional", nontrivial=False)
    else:
        ctx.bad("C07.guard", rf, rets[0], "Reaction.functional returns False without consulting the rule")


# ----------------------------------------------------------------------------------------- route
def check_route(ctx) -> None:
    prog, eff = ctx.prog, ctx.eff
    gk = prog.func("cobra.core.gene", "Gene.knock_out")
    raw = [e for e in eff.own_effects(gk) if e.kind == "RAW"]
    setters = [e for e in eff.own_effects(gk) if e.kind == "CALL" and e.note == "setter"]
    if raw:
        ctx.bad("C07.route", gk, enclosing_stmt(raw[0].node), f"Gene.knock_out writes {raw[0].cell} directly: the change is neither reversible in a context nor passed on to the solver")
    names = {e.cell for e in setters}
    if "Gene.functional=" in names:
        st = [e for e in setters if e.cell == "Gene.functional="][0]
        v = st.value
        if isinstance(v, ast.Constant) and v.value is False:
            ctx.ok("C07.route", gk, enclosing_stmt(st.node), "gene flagged non-functional through the reversible setter")
        else:
            ctx.bad("C07.route", gk, enclosing_stmt(st.node), "the knocked-out gene is not flagged `functional = False`")
    elif not raw:
        ctx.bad("C07.route", gk, gk.node, "Gene.knock_out does not flag the gene as non-functional")
    rk = prog.func("cobra.core.reaction", "Reaction.knock_out")
    effs = [e for e in eff.own_effects(rk) if e.kind in ("RAW", "CALL")]
    ok = len(effs) == 1 and effs[0].kind == "CALL" and effs[0].cell == "Reaction.bounds=" and norm(effs[0].recv) == rk.self_name and norm(effs[0].value) in ("(0, 0)", "(0.0, 0.0)")
    if ok:
        ctx.ok("C07.route", rk, enclosing_stmt(effs[0].node), "own bounds set to (0, 0) through the reversible, synced setter; nothing else")
    else:
        ctx.bad("C07.route", rk, rk.node, "Reaction.knock_out does something other than setting its own bounds to (0, 0) through the bounds setter")
    km = prog.func("cobra.manipulation.delete", "knock_out_model_genes")
    g = ctx.flow.cfg(km)
    loops = [n for n in walk_local(km.node) if isinstance(n, ast.For)]
    done = False
    for lp in loops:
        if not any(t == ("cls", "Gene") for t in ctx.inf.iter_elem_types(km, lp.iter)) and "gene" not in norm(lp.iter).lower():
            continue
        var = lp.target.id if isinstance(lp.target, ast.Name) else None
        calls = [n for n in ast.walk(lp) if isinstance(n, ast.Call) and isinstance(n.func, ast.Attribute) and n.func.attr == "knock_out" and norm(n.func.value) == var]
        if not calls:
            continue
        done = True
        cn = set()
        for c in calls:
            cn |= {x for x in g.node_containing(c) if x.kind != "with_exit"}
        first = {x for st in lp.body[:1] for x in g.node_containing(st) if x.kind != "with_exit"}
        seen = g.reach(list(first), avoid=lambda n: n in cn, edge_ok=no_exc, include_start=True)
        if any(h in seen for h in g.nodes_for(lp)):
            ctx.bad("C07.route", km, lp, "a listed gene can be skipped without being knocked out")
        else:
            ctx.ok("C07.route", km, calls[0], "Gene.knock_out is called for every listed gene")
        if "get_by_any" in norm(lp.iter) or "genes" in norm(lp.iter):
            ctx.ok("C07.route", km, lp, "the listed genes are resolved in model.genes", nontrivial=False)
    if not done:
        ctx.bad("C07.route", km, km.node, "knock_out_model_genes does not knock out the listed genes through Gene.knock_out: genes knocked out earlier (their functional flag) are then ignored when the rules are evaluated")
