"""C09 - pFBA, linear MOMA and ROOM pose their documented secondary problems."""
from __future__ import annotations

import ast
from typing import Any, Dict, List, Optional, Tuple

from .. import AnalysisError
from ..absint import EvalRaise, Unknown
from ..interp import Interp
from ..lpmodel import Cons, Container, Formulation, Lin, ModelLP, Obj, Problem, ReactionList, RxnLP, SolutionLP, SolverStub, Unsupported, Var

EXPLANATION = (
    "The property splits into (a) the optimisation problem that pfba / moma(linear=True) / room hand to the solver is the "
    "documented one, (b) the solver returns an optimum of the problem it is given, (c) the returned Solution is read "
    "from that solve. (b) is optlang/GLPK and is trusted; (a) and (c) are decided here. pfba, add_pfba, moma, add_moma, "
    "room, add_room, fix_objective_as_constraint and add_absolute_expression are evaluated by the analyser's "
    "interpreter over a symbolic model (cobralint/lpmodel.py: variables, linear expressions, constraints, objective, "
    "context roll-back, a solve returns a generic number) and the resulting formulation is compared, in normal form, with "
    "the documented one: pFBA - minimise the sum of all forward and reverse variables subject to the requested "
    "objective held at fraction x optimum on the correct side for max and min problems, optimum taken from a solve "
    "of the untouched model under the requested objective; MOMA - one distance variable d_i >= 0 per reaction with "
    "v_i - d_i <= w_i and v_i + d_i >= w_i, minimise sum d_i; ROOM - y_i binary (linear: 0..1 with delta = epsilon = 0), "
    "v_i - y_i (ub_i - w_u) <= w_u, v_i - y_i (lb_i - w_l) >= w_l with the documented w_u, w_l, minimise sum y_i; "
    "nothing else may restrict the fluxes (an auxiliary variable equal to the old objective must be free); the "
    "reference is the given solution or one pFBA of the untouched model; the Solution is produced by the last "
    "solve, of exactly the final formulation, for the requested reactions. Scenarios: max/min problems, fractions "
    "1, 0.4, 0, explicit objective, reaction subsets, reference fluxes of each sign. NOT decided: (b), i.e. that the "
    "numbers returned are optimal; non-linear MOMA."
)
ASSUMPTIONS = ["the solver returns an optimum of the problem it is given", "cobralint/lpmodel.py models Model.objective, add_cons_vars and the context roll-back"]

from ..framemodel import Ser as _Ser, Index as _Index

NATIVE = (_Ser, _Index, Lin, Var, Cons, Obj, Problem, Container, SolverStub, RxnLP, ReactionList, SolutionLP, ModelLP, Formulation)  # + _MadeSolution, appended below
FOLLOW = [
    "cobra.flux_analysis.parsimonious.pfba",
    "cobra.flux_analysis.parsimonious.add_pfba",
    "cobra.flux_analysis.moma.moma",
    "cobra.flux_analysis.moma.add_moma",
    "cobra.flux_analysis.room.room",
    "cobra.flux_analysis.room.add_room",
    "cobra.util.solver.fix_objective_as_constraint",
    "cobra.util.solver.add_absolute_expression",
]


def _get_solution(it, ev, c, args, kwargs):
    model = args[0] if args else kwargs["model"]
    reactions = kwargs.get("reactions", args[1] if len(args) > 1 else None)
    if not model.solves:
        raise Unsupported("get_solution before any solve")
    f, v = model.solves[-1]
    now = Formulation(model)
    table = model.fluxes_of(len(model.solves))
    ids = list(reversed(list(table)))  # a series; its order is not that of model.reactions
    sol = SolutionLP(f, list(model.reactions) if reactions is None else list(reactions), v, _Ser([table[i] for i in ids], ids))
    sol.stale = (now.objective, [c.normal() for c in now.constraints], now.bounds) != (f.objective, [c.normal() for c in f.constraints], f.bounds)
    return sol


def _add_cons_vars_to_problem(it, ev, c, args, kwargs):
    args[0].add_cons_vars(args[1])


def _remove_cons_vars_from_problem(it, ev, c, args, kwargs):
    args[0].remove_cons_vars(args[1])


class _MadeSolution:
    """A Solution the analysed code builds itself (not the result of a solve)."""

    def __init__(self, *a, **kw):
        for name, v in zip(("objective_value", "status", "fluxes", "reduced_costs", "shadow_prices"), a):
            kw.setdefault(name, v)
        self.objective_value, self.status, self.fluxes = kw.get("objective_value"), kw.get("status"), kw.get("fluxes")


STUBS = {
    "cobra.core.solution.Solution": lambda it, ev, c, a, k: _MadeSolution(*a, **k),
    "cobra.core.Solution": lambda it, ev, c, a, k: _MadeSolution(*a, **k),
    "cobra.core.solution.get_solution": _get_solution,
    "cobra.util.solver.add_cons_vars_to_problem": _add_cons_vars_to_problem,
    "cobra.util.solver.remove_cons_vars_from_problem": _remove_cons_vars_from_problem,
}


NATIVE = NATIVE + (_MadeSolution,)


def _model(direction="max", solves: int = 4):
    # R_b and R_c are wider than the library's default bounds (+-1000): nothing may be clipped to the defaults
    rxns = [RxnLP("R_a", -11.0, 17.0), RxnLP("R_b", 0.0, 2300.0), RxnLP("R_c", -2900.0, 0.0), RxnLP("R_d", -5.0, 5.0)]
    values = (7.25, 13.5, 21.125, 33.0625, 41.5, 57.25, 63.125, 71.0625, 83.5, 97.25)[:solves]
    return ModelLP(rxns, {"R_b": 1.0, "R_a": 0.25}, direction, solve_values=values)


def _interp(ctx) -> Interp:
    from ..lpmodel import Lin as _Lin

    return Interp(ctx.prog, NATIVE, FOLLOW, STUBS, globals_={"Zero": _Lin()})


def _terms(expr_terms: Dict[Var, float]) -> Dict[str, float]:
    return {v.name: round(c, 9) for v, c in expr_terms.items() if c != 0}


def _norm_cons(c: Cons, pivot: Optional[str]) -> Tuple[Dict[str, float], Optional[float], Optional[float]]:
    """Constraint with the constant moved to the bounds, scaled so that the pivot variable has coefficient +1."""
    e = c.expression
    terms = _terms(e.terms)
    lb = None if c.lb is None else c.lb - e.const
    ub = None if c.ub is None else c.ub - e.const
    k = terms.get(pivot) if pivot else None
    if k:
        terms = {n: round(v / k, 9) for n, v in terms.items()}
        lb2 = None if lb is None else lb / k
        ub2 = None if ub is None else ub / k
        lb, ub = (lb2, ub2) if k > 0 else (ub2, lb2)
    r = lambda x: None if x is None else round(x, 9)
    return terms, r(lb), r(ub)


def _flux_terms(r: RxnLP, k: float = 1.0) -> Dict[str, float]:
    return {r.forward_variable.name: k, r.reverse_variable.name: -k}


def _run(what: str, thunk):
    try:
        return thunk()
    except Unknown as exc:
        raise AnalysisError(f"C09: {what} cannot be evaluated: {exc}")
    except Unsupported as exc:
        raise AnalysisError(f"C09: {what} is outside the LP model: {exc}")


def _restricting(f: Formulation, allowed: List[Tuple[Dict[str, float], Any, Any]], objective_vars, pivot_of) -> List[str]:
    """Constraints / variable bounds of the formulation that are not among the documented ones."""
    out = []
    for c in f.constraints:
        n = _norm_cons(c, pivot_of(c))
        if n in allowed:
            continue
        out.append(f"constraint {c.name}: {c.lb} <= {c.expression} <= {c.ub}")
    return out


def _aux_definition(f: Formulation, c: Cons, old_objective: Dict[str, float]):
    """`old objective expression - aux == 0` for a variable that occurs nowhere else; returns the aux variable."""
    terms = _terms(c.expression.terms)
    extra = {n: v for n, v in terms.items() if n not in old_objective}
    if len(extra) != 1 or {n: v for n, v in terms.items() if n in old_objective} != old_objective:
        return None
    (name, coef), = extra.items()
    if coef != -1.0 or (c.lb, c.ub) != (0.0, 0.0) or c.expression.const != 0:
        return None
    aux = [v for v in f.variables if v.name == name]
    if len(aux) != 1:
        return None
    for other in f.constraints:
        if other is not c and name in _terms(other.expression.terms):
            return None
    if name in {v.name for v in f.objective_terms}:
        return None
    return aux[0]


# ---------------------------------------------------------------------------------------- pFBA
def check_pfba(ctx) -> None:
    prog = ctx.prog
    pf = prog.func("cobra.flux_analysis.parsimonious", "pfba")
    ap = prog.func("cobra.flux_analysis.parsimonious", "add_pfba")
    fx = prog.func("cobra.util.solver", "fix_objective_as_constraint")
    n = 0
    problems: Dict[str, str] = {}
    for direction in ("max", "min"):
        for frac in (1.0, 0.4, 0.0):
            for given in (None, {"R_c": 2.0}, "stale constraint"):
                for subset in (None, ["R_b", "R_d"]):
                    model = _model(direction)
                    it = _interp(ctx)
                    kwargs: Dict[str, Any] = {"fraction_of_optimum": frac}
                    stale_constraint = given == "stale constraint"
                    if stale_constraint:
                        if subset is not None:
                            continue
                        given = None
                        # the user fixed the objective at another level before (the public fix_objective_as_constraint
                        # outside a context): a constraint of the name the function uses is already there
                        old = Cons(Lin(dict(model.solver.objective.expression.terms)), lb=0.123 if direction == "max" else None, ub=None if direction == "max" else 0.123, name=f"fixed_objective_{model.solver.objective.name}")
                        model.add_cons_vars([old])
                    if given is not None:
                        kwargs["objective"] = {model.reactions.get_by_id(k): v for k, v in given.items()}
                    if subset is not None:
                        kwargs["reactions"] = subset
                    what = f"pfba({direction} problem, fraction_of_optimum={frac:g}{', objective=given' if given else ''}{', reactions=subset' if subset else ''}{', on a model whose objective was fixed at another level before' if stale_constraint else ''})"
                    try:
                        sol = _run(what, lambda: it.call(pf, [model], kwargs))
                    except EvalRaise as exc:
                        problems.setdefault("raise", f"{what} raises {exc.exc_type}")
                        continue
                    n += 1
                    if not isinstance(sol, SolutionLP):
                        problems.setdefault("solution", f"{what} does not return the solution of a solve")
                        continue
                    f = sol.formulation
                    want_obj = {}
                    for r in model.reactions:
                        want_obj[r.forward_variable.name] = 1.0
                        want_obj[r.reverse_variable.name] = 1.0
                    got_obj = _terms(f.objective_terms)
                    if got_obj != want_obj or f.objective[1] != 0:
                        miss = sorted(set(want_obj) - set(got_obj))
                        odd = {k: v for k, v in got_obj.items() if want_obj.get(k) != v}
                        problems.setdefault("objective", f"{what}: the secondary objective is not the sum of all forward and reverse variables" + (f" (missing {miss[:3]})" if miss else f" (coefficients {odd})" if odd else ""))
                    if f.direction != "min":
                        problems.setdefault("objective", f"{what}: the total flux is {f.direction}imised")
                    if getattr(sol, "stale", False):
                        problems.setdefault("solution", f"{what}: the returned solution was read after the problem had changed since the last solve")
                    # the requested objective, its optimum and the fraction constraint
                    req = {}
                    src = given if given is not None else {"R_b": 1.0, "R_a": 0.25}
                    for rid, k in src.items():
                        for name, v in _flux_terms(model.reactions.get_by_id(rid), k).items():
                            req[name] = v
                    first = model.solves[0][0] if model.solves else None
                    if first is None or _terms(first.objective_terms) != req or first.direction != direction or first.constraints:
                        problems.setdefault("optimum", f"{what}: the optimum that is held is not that of the requested objective on the untouched model")
                    opt = model.solves[0][1] if model.solves else float("nan")
                    bound = round(opt * frac, 9)
                    want = (req, bound, None) if direction == "max" else (req, None, bound)
                    pivot = sorted(req)[0]
                    k0 = req[pivot]
                    want_n = ({a: round(b / k0, 9) for a, b in req.items()},) + ((round(bound / k0, 9), None) if (direction == "max") == (k0 > 0) else (None, round(bound / k0, 9)))
                    got = [_norm_cons(c, pivot) for c in f.constraints]
                    if want_n not in got:
                        shown = "; ".join(f"{c.lb} <= {c.expression} <= {c.ub}" for c in f.constraints) or "none"
                        problems.setdefault("fraction", f"{what}: the requested objective is not held at fraction x optimum = {bound:g} on the {'lower' if direction == 'max' else 'upper'} side (constraints: {shown})")
                    elif len(got) != 1:
                        problems.setdefault("fraction", f"{what}: {len(got) - 1} further constraint(s) restrict the fluxes")
                    if len(model.solves) != 2 or model.solves[-1][0] is not f:
                        problems.setdefault("solution", f"{what}: {len(model.solves)} solves, the solution is not that of the last one")
                    want_ids = subset if subset is not None else [r.id for r in model.reactions]
                    if [getattr(r, "id", r) for r in sol.reactions] != want_ids:
                        problems.setdefault("solution", f"{what}: fluxes are returned for {[getattr(r, 'id', r) for r in sol.reactions]}")
                    if model._stack:
                        problems.setdefault("solution", f"{what}: the model context is left open")
    for clause, fn, text in (("objective", ap, "sum of all forward and reverse variables, minimised"), ("optimum", fx, "optimum of the requested objective on the untouched model"),
                             ("fraction", fx, "requested objective held at fraction x optimum on the right side for max and min problems, nothing else added"),
                             ("solution", pf, "solution of the last solve, of the final problem, for the requested reactions"), ("raise", pf, "no scenario raises")):
        if clause in problems:
            ctx.bad("C09.pfba", fn, f"pfba {clause}", problems[clause])
        else:
            ctx.ok("C09.pfba", fn, f"pfba {clause}", f"{n} scenarios: {text}")


# ---------------------------------------------------------------------------------------- MOMA / ROOM
def _reference(model: ModelLP) -> SolutionLP:
    # a pandas-like series, deliberately not in the order of model.reactions (e.g. a solution of the wild type used
    # with a model from which a reaction was removed and re-added): fluxes must be looked up by id
    from ..framemodel import Ser

    fluxes = Ser([1.625, 0.0, -2.75, 3.5], ["R_d", "R_c", "R_a", "R_b"])
    return SolutionLP(Formulation(model), list(model.reactions), 4.1875, fluxes)


def _secondary(ctx, name: str, entry, reference_given: bool, kwargs: Dict[str, Any], knocked: Optional[str] = None):
    model = _model("max")
    if knocked:
        r = model.reactions.get_by_id(knocked)
        r.lower_bound, r.upper_bound = 0.0, 0.0
    it = _interp(ctx)
    kw = dict(kwargs)
    ref = _reference(model) if reference_given else None
    if ref is not None:
        kw["solution"] = ref
    sol = it.call(entry, [model], kw)
    return model, it, ref, sol


def _check_reference(model, ref, sol, what, problems):
    """The reference fluxes used: the given solution's, or those of one pFBA of the untouched model."""
    if ref is not None:
        return ref.fluxes, ref
    # default: the first two solves belong to pfba (optimum, then the pFBA problem) on the untouched model
    if len(model.solves) < 3:
        problems.setdefault("reference", f"{what}: no pFBA reference was computed")
        return None, None
    f0, f1 = model.solves[0][0], model.solves[1][0]
    if f0.constraints or f0.objective_name != "original_objective" or f1.objective_name != "_pfba_objective" or len(f1.constraints) != 1 or any(v.name not in {x.name for r in model.reactions for x in (r.forward_variable, r.reverse_variable)} for v in f1.variables):
        problems.setdefault("reference", f"{what}: the default reference is not a pFBA solution of the untouched model")
    return model.fluxes_of(2), None


def _second_use(ctx, entry, kwargs: Dict[str, Any], what: str, problems: Dict[str, str]) -> None:
    """The same model object used twice with the default reference, in two knock-out states: the reference of the
    second call has to be a pFBA solution computed in that call on the model as it is then (a reference remembered
    from the first call belongs to another model)."""
    model = _model("max", solves=10)
    it = _interp(ctx)
    try:
        it.call(entry, [model], dict(kwargs))
        n0 = len(model.solves)
        victim = next(r for r in model.reactions if r.id not in ("R_a", "R_b"))
        victim.lower_bound, victim.upper_bound = 0.0, 0.0
        it.call(entry, [model], dict(kwargs))
    except EvalRaise as exc:
        problems.setdefault("raise", f"{what} (second use of the same model after a knock-out) raises {exc.exc_type}")
        return
    second = model.solves[n0:]
    ok = len(second) >= 3 and not second[0][0].constraints and second[0][0].objective_name == "original_objective" and second[1][0].objective_name == "_pfba_objective" \
        and all(f.bounds[victim.id] == (0.0, 0.0) for f, *_ in second[:2])
    if not ok:
        problems.setdefault("reference", f"{what}: on a second use of the same model object after {victim.id} was knocked out, no pFBA reference is computed for the model as it is now ({len(second)} solve(s) in the second call): the distances are measured from the fluxes of a model that no longer exists")


def check_moma(ctx) -> None:
    prog = ctx.prog
    entry = prog.func("cobra.flux_analysis.moma", "moma")
    am = prog.func("cobra.flux_analysis.moma", "add_moma")
    problems: Dict[str, str] = {}
    n = 0
    for given, knocked in ((True, None), (False, None), (True, "R_a"), (True, "R_b"), (True, "R_c")):
        # `knocked`: the usual use - a reaction of the model is switched off, the reference is the wild type's
        # (R_a runs backwards in the reference, R_b forwards, R_c carries nothing)
        what = f"moma(linear=True, solution={'given' if given else 'None'})" + (f" on a model with {knocked} knocked out" if knocked else "")
        try:
            model, it, ref, sol = _run(what, lambda: _secondary(ctx, "moma", entry, given, {"linear": True}, knocked))
        except EvalRaise as exc:
            problems.setdefault("raise", f"{what} raises {exc.exc_type}")
            continue
        n += 1
        if isinstance(sol, _MadeSolution) and ref is not None and isinstance(sol.fluxes, _Ser):
            # the reference handed back without a solve: right exactly when it is attainable in the model as it is
            # (then nothing is closer to it) - every flux of it within the bounds of its reaction
            out_of_bounds = [(r.id, ref.fluxes[r.id]) for r in model.reactions if not (r.lower_bound <= ref.fluxes[r.id] <= r.upper_bound)]
            same = all(sol.fluxes[r.id] == ref.fluxes[r.id] for r in model.reactions)
            if out_of_bounds or not same:
                rid, v = (out_of_bounds or [("?", None)])[0]
                problems.setdefault("solution", f"{what}: the reference is handed back as the result without solving anything, although " + (f"{rid} is confined to {model.reactions.get_by_id(rid).bounds} and carries {v:g} in it: the result violates the bounds and its distance 0 is not attainable" if out_of_bounds else "the fluxes differ from the reference"))
            continue
        if not isinstance(sol, SolutionLP) or sol.formulation is not model.solves[-1][0]:
            problems.setdefault("solution", f"{what} does not return the solution of the last solve")
            continue
        f = sol.formulation
        fluxes, _ = _check_reference(model, ref, sol, what, problems)
        if fluxes is None:
            continue
        old = {}
        for rid, k in {"R_b": 1.0, "R_a": 0.25}.items():
            old.update(_flux_terms(model.reactions.get_by_id(rid), k))
        used = set()
        dist_vars = {}
        for r in model.reactions:
            w = fluxes[r.id]
            fwd = r.forward_variable.name
            found = {}
            for c in f.constraints:
                terms, lb, ub = _norm_cons(c, fwd)
                base = _flux_terms(r)
                rest = {k: v for k, v in terms.items() if k not in base}
                if {k: v for k, v in terms.items() if k in base} != base or len(rest) != 1:
                    continue
                (dname, dk), = rest.items()
                if dk == -1.0 and (lb, ub) == (None, round(w, 9)):
                    found.setdefault(dname, set()).add("upper")
                    used.add(id(c))
                elif dk == 1.0 and (lb, ub) == (round(w, 9), None):
                    found.setdefault(dname, set()).add("lower")
                    used.add(id(c))
            full = [d for d, s in found.items() if s == {"upper", "lower"}]
            if len(full) != 1:
                problems.setdefault("distance", f"{what}: reaction {r.id} (reference flux {w:g}) has no distance variable d with v - d <= {w:g} and v + d >= {w:g}")
                continue
            d = [v for v in f.variables if v.name == full[0]][0]
            if d.lb != 0 or d.ub is not None or d.type != "continuous":
                problems.setdefault("distance", f"{what}: the distance variable of {r.id} has bounds ({d.lb}, {d.ub}) / type {d.type}, expected (0, None) continuous")
            dist_vars[d.name] = 1.0
        if "distance" not in problems:
            if _terms(f.objective_terms) != dist_vars or f.objective[1] != 0 or f.direction != "min":
                problems.setdefault("objective", f"{what}: the objective is not the minimised sum of the distance variables: {f.direction} {Lin(f.objective_terms)}")
        for c in f.constraints:
            if id(c) in used:
                continue
            aux = _aux_definition(f, c, old)
            if aux is None or aux.lb is not None or aux.ub is not None:
                problems.setdefault("extra", f"{what}: constraint {c.name} ({c.lb} <= {c.expression} <= {c.ub}) is not part of the documented problem and restricts the fluxes")
        for r in model.reactions:
            if f.bounds[r.id] != (r.lower_bound, r.upper_bound):
                problems.setdefault("extra", f"{what}: the bounds of {r.id} are changed")
    _run("moma twice", lambda: _second_use(ctx, entry, {"linear": True}, "moma(linear=True, solution=None)", problems))
    for clause, text in (("distance", "d_i >= |v_i - w_i| for every reaction, w_i looked up by reaction id"), ("objective", "minimise the sum of the distance variables"),
                         ("extra", "nothing else restricts the fluxes (the old-objective variable is free)"), ("reference", "reference = given solution, or one pFBA of the untouched model"),
                         ("solution", "the Solution is that of the last solve"), ("raise", "no scenario raises")):
        if clause in problems:
            ctx.bad("C09.moma", am if clause != "solution" else entry, f"moma {clause}", problems[clause])
        else:
            ctx.ok("C09.moma", am if clause != "solution" else entry, f"moma {clause}", f"{n} scenarios: {text}")


def check_room(ctx) -> None:
    prog = ctx.prog
    entry = prog.func("cobra.flux_analysis.room", "room")
    ar = prog.func("cobra.flux_analysis.room", "add_room")
    problems: Dict[str, str] = {}
    n = 0
    for linear, given, delta, eps in [(lin, giv, 0.03125, 0.0078125) for lin in (False, True) for giv in (True, False)] + [(False, True, 0.0, 0.0), (False, True, 0.0, 0.0078125), (False, True, 0.03125, 0.0)]:
        # (an exact band - delta = 0 and / or epsilon = 0 - is a tolerance like any other)
        if True:
            what = f"room(linear={linear}, solution={'given' if given else 'None'}, delta={delta:g}, epsilon={eps:g})"
            try:
                model, it, ref, sol = _run(what, lambda: _secondary(ctx, "room", entry, given, {"linear": linear, "delta": delta, "epsilon": eps}))
            except EvalRaise as exc:
                problems.setdefault("raise", f"{what} raises {exc.exc_type}")
                continue
            n += 1
            if not isinstance(sol, SolutionLP) or sol.formulation is not model.solves[-1][0]:
                problems.setdefault("solution", f"{what} does not return the solution of the last solve")
                continue
            f = sol.formulation
            fluxes, _ = _check_reference(model, ref, sol, what, problems)
            if fluxes is None:
                continue
            d, e = (0.0, 0.0) if linear else (delta, eps)
            old = {}
            for rid, k in {"R_b": 1.0, "R_a": 0.25}.items():
                old.update(_flux_terms(model.reactions.get_by_id(rid), k))
            used = set()
            ys = {}
            for r in model.reactions:
                w = fluxes[r.id]
                w_u = w + d * abs(w) + e
                w_l = w - d * abs(w) - e
                fwd = r.forward_variable.name
                found = {}
                for c in f.constraints:
                    terms, lb, ub = _norm_cons(c, fwd)
                    base = _flux_terms(r)
                    rest = {k: v for k, v in terms.items() if k not in base}
                    if {k: v for k, v in terms.items() if k in base} != base or len(rest) > 1:
                        continue
                    yname, yk = next(iter(rest.items())) if rest else (None, 0.0)
                    if (lb, ub) == (None, round(w_u, 9)) and round(yk, 9) == round(-(r.upper_bound - w_u), 9):
                        found.setdefault(yname, set()).add("upper")
                        used.add(id(c))
                    elif (lb, ub) == (round(w_l, 9), None) and round(yk, 9) == round(-(r.lower_bound - w_l), 9):
                        found.setdefault(yname, set()).add("lower")
                        used.add(id(c))
                # a coefficient (bound - w) of exactly zero leaves y out of the constraint: such a half matches any y
                anyy = found.pop(None, set())
                full = [y for y, s in found.items() if (s | anyy) == {"upper", "lower"}]
                if not full and anyy == {"upper", "lower"}:
                    continue  # both halves degenerate (the reaction is fixed at its reference): y_i is unconstrained
                if len(full) != 1:
                    problems.setdefault("band", f"{what}: reaction {r.id} (reference flux {w:g}, bounds {r.lower_bound:g}..{r.upper_bound:g}) lacks the pair v - y (ub - w_u) <= w_u, v - y (lb - w_l) >= w_l with w_u = {w_u:g}, w_l = {w_l:g}")
                    continue
                y = [v for v in f.variables if v.name == full[0]][0]
                if linear:
                    ok_y = y.type == "continuous" and y.lb == 0 and y.ub == 1
                else:
                    ok_y = y.type == "binary"
                if not ok_y:
                    problems.setdefault("band", f"{what}: the switch variable of {r.id} has type {y.type} and bounds ({y.lb}, {y.ub})")
                ys[y.name] = 1.0
            if "band" not in problems:
                got_obj = _terms(f.objective_terms)
                constrained = {n for c in f.constraints for n in _terms(c.expression.terms)}
                # switch variables that occur in no constraint are harmless (they sit at their lower bound 0)
                got_obj = {k: v for k, v in got_obj.items() if k in constrained or v != 1.0}
                if got_obj != ys or f.objective[1] != 0 or f.direction != "min":
                    problems.setdefault("objective", f"{what}: the objective is not the minimised sum of the switch variables: {f.direction} {Lin(f.objective_terms)}")
            for c in f.constraints:
                if id(c) in used:
                    continue
                aux = _aux_definition(f, c, old)
                if aux is None:
                    problems.setdefault("extra", f"{what}: constraint {c.name} ({c.lb} <= {c.expression} <= {c.ub}) is not part of the documented problem and restricts the fluxes")
                elif aux.lb is not None or aux.ub is not None:
                    problems.setdefault("extra", f"{what}: the auxiliary variable {aux.name} equals the old objective and is bounded by ({aux.lb}, {aux.ub}): the documented problem does not restrict the old objective, and a knock-out whose old-objective value must leave that range (e.g. any minimisation objective that gets worse) is reported infeasible")
            for r in model.reactions:
                if f.bounds[r.id] != (r.lower_bound, r.upper_bound):
                    problems.setdefault("extra", f"{what}: the bounds of {r.id} are changed")
    _run("room twice", lambda: _second_use(ctx, entry, {"linear": True}, "room(linear=True, solution=None)", problems))
    for clause, text in (("band", "documented pair of band constraints with w_u, w_l per reaction, y binary (linear: 0..1, delta = epsilon = 0)"), ("objective", "minimise the sum of the switch variables"),
                         ("extra", "nothing else restricts the fluxes (the old-objective variable is free)"), ("reference", "reference = given solution, or one pFBA of the untouched model"),
                         ("solution", "the Solution is that of the last solve"), ("raise", "no scenario raises")):
        if clause in problems:
            ctx.bad("C09.room", ar if clause != "solution" else entry, f"room {clause}", problems[clause])
        else:
            ctx.ok("C09.room", ar if clause != "solution" else entry, f"room {clause}", f"{n} scenarios: {text}")


def check_abs(ctx) -> None:
    """add_absolute_expression on its own: variable >= |expression - difference|, optional upper bound passed on."""
    prog = ctx.prog
    fn = prog.func("cobra.util.solver", "add_absolute_expression")
    bad = None
    for diff in (0.0, 2.5, -1.75):
        for add in (True, False):
            for ub in (None, 9.0):
                model = _model("max")
                it = _interp(ctx)
                r = model.reactions.get_by_id("R_a")
                try:
                    comp = _run("add_absolute_expression", lambda: it.call(fn, [model, r.flux_expression], {"name": "t", "difference": diff, "add": add, "ub": ub}))
                except EvalRaise as exc:
                    bad = f"difference={diff:g}, add={add}: raises {exc.exc_type}"
                    break
                parts = list(comp) if isinstance(comp, tuple) else []
                vs = [x for x in parts if isinstance(x, Var)]
                cs = [x for x in parts if isinstance(x, Cons)]
                if len(vs) != 1 or len(cs) != 2:
                    bad = "does not return one variable and two constraints"
                    break
                v = vs[0]
                got = sorted((_norm_cons(c, r.forward_variable.name) for c in cs), key=lambda t: t[0][v.name])
                want = sorted([({**_flux_terms(r), v.name: -1.0}, None, round(diff, 9)), ({**_flux_terms(r), v.name: 1.0}, round(diff, 9), None)], key=lambda t: t[0][v.name])
                if got != want or v.lb != 0 or v.ub != ub:
                    bad = f"difference={diff:g}: the components do not say variable >= |expression - {diff:g}| with variable in [0, {ub}]"
                    break
                present = v in model.variables and all(c in model.constraints for c in cs)
                if present != add:
                    bad = f"add={add}: the components are {'not ' if add else ''}added to the model"
                    break
            if bad:
                break
        if bad:
            break
    if bad:
        ctx.bad("C09.abs", fn, "absolute value components", bad)
    else:
        ctx.ok("C09.abs", fn, "absolute value components", "12 scenarios: variable >= |expression - difference|, lower bound 0, ub passed on, added only when asked")


def run(ctx) -> None:
    ctx.rule("C09.pfba", "formulation: pFBA poses the documented problem and reads the solution of its last solve", floor=5)
    ctx.rule("C09.moma", "formulation: linear MOMA poses the documented problem", floor=6)
    ctx.rule("C09.room", "formulation: ROOM (MILP and linear) poses the documented problem", floor=6)
    ctx.rule("C09.abs", "formulation: add_absolute_expression components", floor=1)
    for chk in (check_pfba, check_moma, check_room, check_abs):
        try:
            chk(ctx)
        except AnalysisError as exc:
            ctx.defer(str(exc))
    # pfba(objective=...) / the objectives the secondary problems install go through set_objective: that it leaves
    # exactly the given coefficients and keeps the direction is C04.objective (shared; the symbolic model of the clauses
    # above plays `model.objective = ...` natively)
    from . import objform, solform

    # the Solution handed back is read off the solver by get_solution(model, reactions=...): every flux under the
    # identifier of its own reaction for any order of the request (shared with C04)
    ctx.rule("C04.labels", "finite evaluation: get_solution puts every value under the identifier of its own reaction / metabolite, whatever the order of the request (shared with C04)", floor=1)
    ctx.guard(solform.check_get_solution, ctx, "C04.labels")
    ctx.rule("C04.objective", "finite evaluation: set_objective leaves exactly the given coefficients in the solver objective and keeps its direction (shared with C04)", floor=1)
    ctx.guard(objform.check_set_objective, ctx, "C04.objective")
