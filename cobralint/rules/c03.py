"""C03 - leaving a ``with model:`` block restores the model (undo completeness and inertness)."""
from __future__ import annotations

import ast
from typing import Dict, FrozenSet, List, Optional, Set, Tuple

from .. import AnalysisError
from ..absint import Evaluator, Opaque, Unknown, EvalRaise
from ..cfg import CFG, Node, describe_path, no_exc
from ..effects import CONST, FRESH, SELF, Eff, Registration, bind_args
from ..program import FuncInfo, ancestors, enclosing_stmt, norm, parent, walk_local
from .common import incoming_element, same_key_rebuild

EXPLANATION = (
    "Decided for all paths of every context-aware operation (functions that consult get_context, resettable "
    "setters, the context-manager methods): (stack) the context stack and the history are only touched by "
    "__enter__/__exit__/__call__/reset, reset replays last-in-first-out until empty and __exit__ always "
    "replays; (inverse) every own mutation of model state in a context-aware function is paired - on every "
    "path on which a context is active, including paths that leave by an exception after the mutation - with "
    "a registered undo entry that is the table inverse on the same object (container add/remove, "
    "setattr of the same attribute, solver add/remove, sibling mutator writing the same cell, objective "
    "reset closure restoring expression and direction); (inert) a registered undo callable does not itself "
    "register anything when replayed with its bound arguments; (total) undo entries built from a pre-state "
    "snapshot look it up totally; (cover) documented-reversible helpers leave no raw (non-reversible) write "
    "on the model. NOT decided: that a registered inverse is numerically the inverse, that independent entries "
    "compose for every history, that the exit cannot raise inside optlang."
)
ASSUMPTIONS = [
    "HistoryManager entries run in LIFO order exactly once (checked structurally in C03.stack)",
    "effects on objects that are not yet part of the model when the operation starts (the reaction or metabolite being added) need no inverse unless a model-owned object is made to reference them",
    "mirrored solver cells (variable bounds, stoichiometric coefficients, names) are re-derived from the Python side by the undo path; their agreement is the C01 rules' job",
]

# cells that mirror Python-side state (restored by re-syncing, see C01)
MIRROR_CELLS = {"var.bounds", "cons.coefs", "var.name", "cons.name", "solver.flush", "solver.solution"}
# registrations that are not inert by the letter of the rule but reproduced benign (one construct each)
INERT_EXCEPTIONS = {
    ("core.reaction.Reaction.__imul__", "context(partial(self._model._populate_solver, [self]))"):
        "_populate_solver as undo: the variables/rows exist again when it runs, so the only entry it can register is solver.remove([])",
    ("core.model.Model.remove_reactions", "context(partial(self._populate_solver, [reaction]))"):
        "_populate_solver as undo: the variables were re-added by the later-registered solver.add entry, so it registers solver.remove([]) at most",
    ("core.reaction.Reaction.add_metabolites", "context(partial(self.subtract_metabolites, metabolites_to_add, combine=True, reversibly=False))"):
        "reversibly=False: the only reachable registration is inside model.add_metabolites([]) which returns before get_context for an empty list (all metabolites exist when the undo runs)",
    ("core.reaction.Reaction.add_metabolites", "context(partial(self.add_metabolites, mets_to_reset, combine=False, reversibly=False))"):
        "reversibly=False: see above",
}
# own mutations that need no registered inverse / tolerated path findings:
# (function, construct, cell, kind) with kind in {"none", "normal", "raise"}
INVERSE_EXCEPTIONS = {
    ("manipulation.modify.rename_genes", "model.repair()", "*", "*"):
        "canonical rebuild: the first-registered (last-run) update_genes_from_gpr entries re-derive every link",
    ("core.model.Model.add_reactions", "stoichiometry = reaction._metabolites.pop(metabolite)", "Reaction._metabolites", "*"):
        "the popped key is a foreign copy of a model metabolite held by the incoming reaction: not model state",
    ("core.model.Model.add_reactions", "reaction._metabolites[model_metabolite] = stoichiometry", "Reaction._metabolites", "*"):
        "forward reference of the incoming reaction; the reaction leaves the model again on undo",
    ("core.reaction.Reaction.__imul__", "<same-key rebuild>", "Reaction._metabolites", "raise"):
        "the only raising step before the registration is the bounds setter with (-ub, -lb), which preserves lb <= ub and therefore cannot fail its check",
    ("core.reaction.Reaction.update_genes_from_gpr", "self._genes = set()", "Reaction._genes", "raise"):
        "the only raising step before the registrations is model_genes.get_by_id(g_id), which follows `if not has_id(g_id): append(Gene(g_id))`: the id is present",
    ("core.reaction.Reaction.update_genes_from_gpr", "self._genes.add(new_gene)", "Reaction._genes", "raise"):
        "see above: get_by_id(g_id) cannot fail after the gene was ensured to be in the model",
    ("core.reaction.Reaction.update_genes_from_gpr", "self._associate_gene(g)", "Species._model", "*"):
        "the gene's model pointer is set to the reaction's model: for a gene that is already in the model this is the value it has; a gene created here has its own setattr(_model, None) entry",
}


def _excepted(key_fn: str, construct: str, cell: str, kind: str, samekeys: bool = False) -> Optional[str]:
    for (f, c, ce, k), reason in INVERSE_EXCEPTIONS.items():
        if f == key_fn and (c == construct or (c == "<same-key rebuild>" and samekeys)) and ce in ("*", cell) and k in ("*", kind):
            return reason
    return None


# ----------------------------------------------------------------------------------------------
def run(ctx) -> None:
    ctx.rule("C03.stack", "T4: only __enter__/__exit__/__call__/reset touch the context stack and history; LIFO replay until empty; exit always replays", floor=15)
    ctx.rule("C03.inert", "T3: a registered undo callable registers nothing itself when replayed with its bound arguments", floor=40)
    ctx.rule("C03.inverse", "T2: every own mutation of model state in a context-aware function has a registered table inverse on the same object on every context-active path (also when a later step raises)", floor=45)
    ctx.rule("C03.total", "T6: undo entries built from a pre-state snapshot use total look-ups", floor=1)
    ctx.rule("C03.cover", "T6: documented-reversible helpers leave no raw (non-reversible) write on caller-visible model state", floor=40)
    check_stack(ctx)
    regs = all_registrations(ctx)
    check_inert(ctx, regs)
    check_inverse(ctx, regs)
    check_incoming_links(ctx, regs)
    check_total(ctx)
    check_cover(ctx)
    ctx.rule("C03.exact", "T2: an undo entry undoes exactly what the operation did (idempotent adds, late-bound receivers, atomic objective replacement)", floor=20)
    check_exact(ctx, regs)
    check_objective_atomic(ctx)
    check_resettable(ctx)
    ctx.rule("C03.bounded", "T2: under its bound arguments an undo entry writes only cells the operation writes", floor=10)
    check_bounded(ctx, regs)
    from . import replayform

    ctx.rule("C03.replay", "bounded evaluation: every reversible operation (alone, in ordered pairs, nested, ended by an exception) run inside a context on a stand-in model by the real methods; leaving the block gives back the whole object graph and the solver problem", floor=1)
    ctx.guard(replayform.check_replay, ctx, "C03.replay", "restore")
    # undo entries are ordinary calls of the public editing methods: one that silently skips part of its argument
    # (a group that refuses a member without a model pointer) leaves the block with the change in place (shared with C02)
    from . import genesform

    ctx.rule("C02.group", "finite evaluation: Group.add_members adds every given object, remove_members removes exactly those (shared with C02; undo entries of the removal functions)", floor=1)
    ctx.guard(genesform.check_group_members, ctx, "C02.group")



# ------------------------------------------------------------------------------ exactness of undo entries
SET_REMOVERS = {"remove", "discard", "_dissociate_gene"}
REPLACEABLE = (".solver.objective",)


def check_exact(ctx, regs: List[Registration]) -> None:
    """An undo entry must undo what the operation did - no more.

    (idempotent) Adding to a set is idempotent: the registered removal is only right for an element that was absent
    before. A registration that removes an element from a set-valued cell must be guarded by a pre-state membership
    test of that element (or be frozen with a reason).
    (latebound) An undo entry must not be a bound method of an object reached through a cell that reversible
    operations replace (the solver objective): when the objective is replaced later in the block and restored by its
    own undo, the entry acts on an object that is no longer installed."""
    for r in regs:
        # ---- closures defined in a loop bind the loop's variables late
        if r.closure is not None or isinstance(r.callable_expr, ast.Lambda) or r.closure_node is not None:
            body = r.closure_node if r.closure_node is not None else (r.closure.node if r.closure is not None else r.callable_expr)
            loop = _enclosing_for(body, r.fn)
            if loop is not None:
                assigned = {n.id for n in ast.walk(loop) if isinstance(n, ast.Name) and isinstance(n.ctx, ast.Store) and not any(a is body for a in ancestors(n))}
                params = {a.arg for a in body.args.posonlyargs + body.args.args + body.args.kwonlyargs} if hasattr(body, "args") else set()
                own = {n.id for n in ast.walk(body) if isinstance(n, ast.Name) and isinstance(n.ctx, ast.Store)}
                # the body only: default expressions are evaluated when the function is defined (early binding)
                inner = body.body if isinstance(body.body, list) else [body.body]
                free = {n.id for st in inner for n in ast.walk(st) if isinstance(n, ast.Name) and isinstance(n.ctx, ast.Load)} - params - own
                late = sorted(free & assigned)
                if late:
                    ctx.bad("C03.exact", r.fn, enclosing_stmt(r.node), f"the undo entry is a closure defined inside a loop and reads the loop's variables {late} when it runs: every entry then sees the values of the last iteration, so only the last object is restored (bind them with functools.partial or default arguments)")
                else:
                    ctx.ok("C03.exact", r.fn, enclosing_stmt(r.node), "closure in a loop does not read loop variables")
        if r.target is None:
            continue
        # ---- same iteration space: an entry registered per element of a collection undoes a change made per element
        # of *that* collection - registered over a larger one it resets objects the operation never touched
        if isinstance(r.target, ast.Name) and r.target.id == "setattr" and len(r.args) >= 2 and isinstance(r.args[0], ast.Name) and isinstance(r.args[1], ast.Constant):
            rlp = _enclosing_for(r.node, r.fn)
            if rlp is not None and isinstance(rlp.target, ast.Name) and rlp.target.id == r.args[0].id:
                attr = str(r.args[1].value)
                spaces = []
                for n_ in walk_local(r.fn.node):
                    if isinstance(n_, ast.Assign) and len(n_.targets) == 1 and isinstance(n_.targets[0], ast.Attribute) and n_.targets[0].attr in (attr, "_" + attr.lstrip("_")) and isinstance(n_.targets[0].value, ast.Name):
                        mlp = _enclosing_for(n_, r.fn)
                        if mlp is not None and isinstance(mlp.target, ast.Name) and mlp.target.id == n_.targets[0].value.id:
                            spaces.append(mlp)
                if spaces:
                    rtxt = norm(ctx.inf.expand_alias(r.fn, rlp.iter))
                    same = [m_ for m_ in spaces if norm(ctx.inf.expand_alias(r.fn, m_.iter)) == rtxt or (isinstance(rlp.iter, ast.Name) and isinstance(m_.iter, ast.Name) and rlp.iter.id == m_.iter.id)]
                    if same:
                        ctx.ok("C03.exact", r.fn, enclosing_stmt(r.node), f"registered for every element of `{norm(rlp.iter, 40)}`, the collection whose elements the operation changes")
                    else:
                        ctx.bad("C03.exact", r.fn, enclosing_stmt(r.node), f"the undo entries are registered for the elements of `{norm(rlp.iter, 40)}`, the operation sets `{attr}` on the elements of `{norm(spaces[0].iter, 40)}`: objects the operation never touched (e.g. already part of the model) are reset when the context exits")
        key = (r.fn.qualname.replace("cobra.", "", 1), norm(enclosing_stmt(r.node)))
        ttxt = norm(r.target)
        # ---- latebound
        bound_to = next((c for c in REPLACEABLE if (c + ".") in (ttxt + ".") and ttxt.rsplit(".", 1)[0].endswith(c)), None)
        if bound_to:
            ctx.bad("C03.exact", r.fn, enclosing_stmt(r.node), f"the undo entry is a bound method of `{ttxt.rsplit('.', 1)[0]}` as installed now; reversible operations replace that object (e.g. `model.objective = ...` later in the same block, restored by its own undo with a new object), so on exit the entry acts on an object that is no longer the model's: the change is not restored, or the exit raises")
        elif isinstance(r.target, ast.Attribute) or r.target_fn:
            ctx.ok("C03.exact", r.fn, enclosing_stmt(r.node), "not bound to a replaceable solver object", nontrivial=False)
        # ---- idempotent
        last = ttxt.rsplit(".", 1)[-1]
        if last not in SET_REMOVERS or not r.args:
            continue
        recv_t = norm(r.recv) if r.recv is not None else ""
        is_set_cell = last == "_dissociate_gene" or recv_t.endswith("._reaction") or recv_t.endswith("._genes")
        if not is_set_cell:
            continue
        elem = norm(r.args[0])
        guarded = False
        for a in ancestors(r.node):
            if a is r.fn.node:
                break
            if isinstance(a, ast.If):
                for cmp_ in ast.walk(a.test):
                    if isinstance(cmp_, ast.Compare) and len(cmp_.ops) == 1 and isinstance(cmp_.ops[0], ast.NotIn) and norm(cmp_.left) == elem:
                        guarded = True
        if guarded:
            ctx.ok("C03.exact", r.fn, enclosing_stmt(r.node), f"removal of `{elem}` is registered only when it was absent before (pre-state membership test)")
        elif isinstance(r.args[0], ast.Name) and incoming_element(ctx, r.fn, r.args[0].id):
            ctx.ok("C03.exact", r.fn, enclosing_stmt(r.node), f"`{elem}` is an element of the collection this operation inserts into the model (not listed before: the insertion rejects duplicates); by the back-reference invariant (C02.backref) no model object lists it yet")
        else:
            ctx.bad("C03.exact", r.fn, enclosing_stmt(r.node), f"the undo entry removes `{elem}` from a set although adding to a set is idempotent and nothing shows that `{elem}` was absent before: for an element that was already there the exit removes a link that existed on entry (e.g. `with model: model.repair()` wipes every gene-reaction link)")


def _resettable_entry(ctx, rt: FuncInfo, reg: ast.Call):
    """(object expr, value expr) the registered undo entry of resettable.wrapper hands to the raw setter `func`, or None.

    Accepted spellings: partial(func, a, b); lambda [x=a, y=b]: func(..); a nested def whose body is `return func(..)` /
    `func(..)` - arguments that are parameters are replaced by their defaults (early binding), free variables are taken
    as they are (the wrapper assigns them once and is not a loop, so late binding reads the same values)."""
    arg = reg.args[0] if reg.args else None
    if isinstance(arg, ast.Call) and norm(arg.func).split(".")[-1] == "partial" and len(arg.args) == 3 and norm(arg.args[0]) == "func" and not arg.keywords:
        return arg.args[1], arg.args[2]
    fn_node = None
    if isinstance(arg, ast.Lambda):
        fn_node = arg
        calls = [arg.body] if isinstance(arg.body, ast.Call) else []
    elif isinstance(arg, ast.Name) and arg.id in rt.nested:
        fn_node = rt.nested[arg.id].node
        stmts = [s_ for s_ in fn_node.body if not (isinstance(s_, ast.Expr) and isinstance(s_.value, ast.Constant))]
        calls = [s_.value for s_ in stmts if isinstance(s_, (ast.Return, ast.Expr)) and isinstance(s_.value, ast.Call)] if len(stmts) == 1 else []
    else:
        return None
    if len(calls) != 1 or norm(calls[0].func) != "func" or len(calls[0].args) != 2 or calls[0].keywords:
        return None
    a = fn_node.args
    names = [x.arg for x in a.posonlyargs + a.args]
    defaults = dict(zip(names[len(names) - len(a.defaults):], a.defaults))
    for x, d in zip(a.kwonlyargs, a.kw_defaults):
        if d is not None:
            defaults[x.arg] = d
    if any(n not in defaults for n in names):
        return None  # a parameter without default: the history calls entries without arguments
    out = []
    for e in calls[0].args:
        if isinstance(e, ast.Name) and e.id in defaults:
            out.append(defaults[e.id])
        else:
            out.append(e)
    # free variables must not be reassigned after the definition
    return out[0], out[1]


def check_resettable(ctx) -> None:
    """resettable.wrapper: with an active context, every call of the wrapped setter with a changed value is preceded by
    the registration of `func(self, old_value)` - unconditionally (T1 must-pass-through)."""
    fn = None
    for f in ctx.prog.all_funcs():
        if f.short == "resettable.wrapper":
            fn = f
    if fn is None:
        raise AnalysisError("resettable.wrapper not found")
    g = ctx.flow.cfg(fn)
    regs = [n for n in walk_local(fn.node) if isinstance(n, ast.Call) and isinstance(n.func, ast.Name) and n.func.id == "context"]
    sets = [n for n in walk_local(fn.node) if isinstance(n, ast.Call) and isinstance(n.func, ast.Name) and n.func.id == "func" and len(n.args) == 2 and not any(isinstance(a, ast.Call) and norm(a.func) == "partial" for a in ancestors(n))]
    if not regs or not sets:
        raise AnalysisError("resettable.wrapper: registration or setter call not found")
    ok_filter = _ctx_guard_filter(ctx, fn)
    blockers = set()
    for r in regs:
        blockers |= {x for x in g.node_containing(r) if x.kind != "with_exit"}
    targets = set()
    for s_ in sets:
        targets |= {x for x in g.node_containing(s_) if x.kind != "with_exit"}
    w = g.reaches_without(targets, lambda x: x in blockers, edge_ok=lambda a, b, l: l != "exc" and ok_filter(a, b, l))
    if w is not None:
        ctx.bad("C03.inverse", fn, enclosing_stmt(regs[0]), "with an active context the wrapped setter can be reached without registering the old value (the registration is conditional on something other than `old == new`): e.g. after lower_bound, upper_bound, lower_bound on one reaction the replay restores the bounds in an order the validating setters reject, and the exit raises", path=describe_path(w))
    else:
        ctx.ok("C03.inverse", fn, enclosing_stmt(regs[0]), "every call of the wrapped setter under an active context is preceded by the registration of the old value (skipped only when old == new, where the function returns)")
    # the registered callable is the wrapped function itself with the same object and the old value
    r = regs[0]
    ent = _resettable_entry(ctx, fn, r)
    if ent is not None and norm(ent[0]) == (fn.node.args.args[0].arg if fn.node.args.args else "self"):
        ctx.ok("C03.inverse", fn, enclosing_stmt(r), "the entry calls the raw setter `func` on the same object with the value read before the change; it records nothing itself", nontrivial=False)
    else:
        ctx.bad("C03.inverse", fn, enclosing_stmt(r), "the registered entry does not call the raw setter `func` on the same object with the old value")


def check_incoming_links(ctx, regs: List[Registration]) -> None:
    """An incoming object (element of the collection an operation inserts into the model) may already hold the model's
    genes: a reaction that was removed from this model keeps its gene set while the genes no longer list it (frozen
    exception of C02.backref). update_genes_from_gpr registers the undo of an association only for genes that are new
    to the reaction's *own* set, so for such a reaction the links `gene._reaction.add(reaction)` it creates are not
    undone by it: the inserting operation has to register their removal itself."""
    for fn in sorted(ctx.prog.all_funcs(), key=lambda f: f.qualname):
        calls = [n for n in walk_local(fn.node) if isinstance(n, ast.Call) and isinstance(n.func, ast.Attribute) and n.func.attr == "update_genes_from_gpr" and isinstance(n.func.value, ast.Name) and incoming_element(ctx, fn, n.func.value.id)]
        if not calls or not ctx.eff.context_aware(fn):
            continue
        for c in calls:
            elem = c.func.value.id
            own = [r for r in regs if r.fn is fn and r.target is not None and isinstance(r.target, ast.Attribute) and r.target.attr in ("remove", "discard") and norm(r.target.value).endswith("._reaction") and r.args and norm(r.args[0]) == elem]
            # entries for the *metabolite* links are a different loop: the gene entry iterates genes of the element
            gene_entries = [r for r in own if any(isinstance(a, ast.For) and ("gene" in norm(a.iter).lower() or "gene" in norm(a.target).lower()) for a in ancestors(r.node))]
            if gene_entries:
                ctx.ok("C03.inverse", fn, enclosing_stmt(gene_entries[0].node), f"the gene links of an incoming `{elem}` that already holds the model's genes are removed again on exit")
            else:
                ctx.bad("C03.inverse", fn, enclosing_stmt(c), f"`{elem}.update_genes_from_gpr()` on an incoming reaction: a reaction that was removed from this model before still holds the model's genes (which no longer list it); the association made here is then not undone by update_genes_from_gpr (it registers the undo only for genes new to the reaction's own set) and no entry of this operation removes `{elem}` from `gene._reaction` - after `with model: model.add_reactions([removed_reaction])` the genes list a reaction that is not in the model")


def check_objective_atomic(ctx) -> None:
    """set_objective: every fallible look-up on the caller's reactions happens before the objective is replaced."""
    fn = ctx.prog.func("cobra.util.solver", "set_objective")
    g = ctx.flow.cfg(fn)
    repl = [n for n in walk_local(fn.node) if isinstance(n, ast.Assign) and norm(n.targets[0]).endswith("solver.objective")]
    lookups = [n for n in walk_local(fn.node) if isinstance(n, ast.Attribute) and n.attr in ("forward_variable", "reverse_variable")]
    if not repl or not lookups:
        raise AnalysisError("set_objective: anchors (objective replacement, variable look-ups) not found")
    rnodes = set()
    for r in repl:
        if any(isinstance(a, ast.FunctionDef) and a is not fn.node for a in ancestors(r)):
            continue  # the reset closure
        rnodes |= {x for x in g.node_containing(r) if x.kind != "with_exit"}
    after = g.reach(list(rnodes), edge_ok=lambda a, b, l: l != "exc")
    late = []
    for lk in lookups:
        for x in g.node_containing(lk):
            if x in after and x not in rnodes:
                late.append(lk)
    if late:
        ctx.bad("C03.exact", fn, enclosing_stmt(late[0]), "a reaction's variables are looked up after the objective has been replaced: for a reaction that is not in the model this raises with the objective already wiped and no undo registered (inside or outside a context)")
    else:
        ctx.ok("C03.exact", fn, enclosing_stmt(lookups[0]), "every variable is resolved before the objective is replaced: a bad key leaves the objective alone")
    # inside a context every completed call has registered the reset: callers (FVA, minimal_medium, the samplers)
    # assign a fresh objective in their context and then edit *that* objective in place, relying on the reset
    # to bring the caller's objective back - also when the new objective happens to equal the old one
    regs = [n for n in walk_local(fn.node) if isinstance(n, ast.Call) and ctx.eff.is_registration(fn, n) and not any(isinstance(a, ast.FunctionDef) and a is not fn.node for a in ancestors(n))]
    if not regs:
        ctx.bad("C03.exact", fn, fn.node, "set_objective no longer registers the reset of the objective")
        return
    reg_nodes = set()
    for r in regs:
        reg_nodes |= {x for x in g.node_containing(r) if x.kind != "with_exit"}
    guard = _ctx_guard_filter(ctx, fn)
    w = g.reaches_without([g.exit], lambda n: n in reg_nodes, edge_ok=lambda a, b, l: l != "exc" and guard(a, b, l))
    if w is not None:
        ctx.bad("C03.exact", fn, enclosing_stmt(regs[0]), "inside a context set_objective can complete without registering the reset of the objective: the caller's later in-place edits of the objective it believes to be its own (FVA, minimal_medium, sampling warm-up) then change the objective that was there before and are not undone", path=describe_path(w))
    else:
        ctx.ok("C03.exact", fn, enclosing_stmt(regs[0]), "inside a context every completed call registers the reset")


# ------------------------------------------------------------------------------ undo entries do no more than undo
class Reach:
    """Model cells a function may write when called with the given constant keyword bindings (path-sensitive on them)."""

    def __init__(self, ctx):
        self.ctx = ctx
        self.memo: Dict[Tuple, Optional[Set[Tuple[str, str]]]] = {}
        self.busy: Set[Tuple] = set()
        self.inert = Inert(ctx)

    def cells(self, fn: FuncInfo, bindings: Dict[str, object]) -> Set[Tuple[str, str]]:
        key = (id(fn), tuple(sorted((k, repr(v)) for k, v in bindings.items())))
        if key in self.memo:
            return self.memo[key] or set()
        if key in self.busy:
            return set()
        self.busy.add(key)
        try:
            res = self._compute(fn, bindings)
        finally:
            self.busy.discard(key)
        self.memo[key] = res
        return res

    def _compute(self, fn: FuncInfo, bindings: Dict[str, object]) -> Set[Tuple[str, str]]:
        ctx = self.ctx
        eff = ctx.eff
        g = ctx.flow.cfg(fn)
        env = dict(bindings)
        for p in fn.params:
            if p not in env:
                d = fn.param_default(p)
                if isinstance(d, ast.Constant):
                    env[p] = d.value
        live = g.live_nodes(edge_ok=self.inert.edge_filter(fn, env))
        out: Set[Tuple[str, str]] = set()
        for e in eff.own_effects(fn):
            nodes = [n for n in g.node_containing(e.node) if n.kind != "with_exit"]
            if nodes and not any(n in live for n in nodes):
                continue
            if e.kind in ("RAW", "REV") and e.cell:
                out.add((e.cell, e.op))
            elif e.kind == "CALL" and e.note != "remote" and e.chain:
                callee = e.chain[0][0]
                if isinstance(e.node, ast.Call) and self._noop_on_empty(fn, g, live, e.node, callee):
                    continue
                b2: Dict[str, object] = {}
                if isinstance(e.node, ast.Call) and e.note not in ("hof", "setter"):
                    skip_self = callee.is_method and e.recv is not None
                    try:
                        bound = bind_args(callee, e.node, skip_self=skip_self)
                    except Exception:
                        bound = {}
                    for p, arg in bound.items():
                        if isinstance(arg, ast.Constant):
                            b2[p] = arg.value
                        elif isinstance(arg, ast.Name) and arg.id in env:
                            b2[p] = env[arg.id]
                out |= self.cells(callee, b2)
        return out


    def _noop_on_empty(self, fn: FuncInfo, g, live, call: ast.Call, callee: FuncInfo) -> bool:
        """The call hands over a local collection that is provably empty on the live paths, and the callee only acts
        inside loops over that parameter."""
        eff = self.ctx.eff
        try:
            bound = bind_args(callee, call, skip_self=callee.is_method and isinstance(call.func, ast.Attribute))
        except Exception:
            return False
        for p, arg in bound.items():
            if not isinstance(arg, ast.Name):
                continue
            name = arg.id
            inits = [n for n in walk_local(fn.node) if isinstance(n, ast.Assign) and len(n.targets) == 1 and isinstance(n.targets[0], ast.Name) and n.targets[0].id == name]
            if len(inits) != 1 or not (isinstance(inits[0].value, (ast.List, ast.Set)) and not inits[0].value.elts or norm(inits[0].value) in ("set()", "list()", "[]")):
                continue
            growers = [n for n in walk_local(fn.node) if isinstance(n, ast.Call) and isinstance(n.func, ast.Attribute) and isinstance(n.func.value, ast.Name) and n.func.value.id == name and n.func.attr in ("append", "extend", "add", "update", "insert")]
            growers += [n for n in walk_local(fn.node) if isinstance(n, ast.AugAssign) and isinstance(n.target, ast.Name) and n.target.id == name]
            if any(any(x in live for x in g.node_containing(n)) for n in growers):
                continue
            # callee: every own effect sits inside a loop over p
            ok = True
            for ce in eff.own_effects(callee):
                if ce.kind not in ("RAW", "REV", "CALL", "REG"):
                    continue
                if ce.kind == "CALL" and ce.chain and not [x for x in eff.summary(ce.chain[0][0]) if x.kind in ("RAW", "REV", "REG")]:
                    continue  # a call without effects of its own (get_context, warn ...)
                inside = False
                for a in ancestors(ce.node):
                    if a is callee.node:
                        break
                    if isinstance(a, ast.For) and isinstance(a.iter, ast.Name) and a.iter.id == p:
                        inside = True
                if not inside:
                    ok = False
                    break
            if ok:
                return True
        return False


CONTAINER_CLASSES = {"DictList", "HistoryManager", "Group"}
_RG = ("core.reaction.Reaction.update_genes_from_gpr", "context(partial(remove_genes, model=self._model, gene_list=[model_genes.get_by_id(g_id)], remove_reactions=False))")
BOUNDED_EXCEPTIONS: Dict[Tuple[str, str, str], str] = {
    _RG + ("GPR.body",): "remove_genes(remove_reactions=False) strips the gene from the rules that mention it; the gene was created by this call for the rule being installed, and that rule is put back by the rule setter's own undo entry (resettable), so the stripped rule never survives the exit",
    _RG + ("Group._members",): "a gene created inside the block can only have joined a group inside the block; taking it out of its groups again is part of removing it",
}


def _removes_gene_created_here(ctx, r, bound: Dict[str, object]) -> bool:
    """remove_genes(..., remove_reactions=False) registered in a branch that constructs a Gene and appends it to a list."""
    if not any(t.name == "remove_genes" for t in r.target_fn) or bound.get("remove_reactions") is not False:
        return False
    st = enclosing_stmt(r.node)
    for a in ancestors(st):
        if not isinstance(a, ast.If):
            continue
        body = a.body if any(st is x or any(st is y for y in ast.walk(x)) for x in a.body) else a.orelse
        made = set()
        for x in body:
            for n in ast.walk(x):
                if isinstance(n, ast.Assign) and isinstance(n.value, ast.Call) and norm(n.value.func).split(".")[-1] == "Gene" and isinstance(n.targets[0], ast.Name):
                    made.add(n.targets[0].id)
        for x in body:
            for n in ast.walk(x):
                if isinstance(n, ast.Call) and isinstance(n.func, ast.Attribute) and n.func.attr in ("append", "add") and n.args and isinstance(n.args[0], ast.Name) and n.args[0].id in made:
                    return True
    return False


def check_bounded(ctx, regs: List[Registration]) -> None:
    """The cells an undo entry may write (under its bound arguments) are cells the registering operation writes itself."""
    reach = Reach(ctx)
    for r in regs:
        if not r.target_fn or r.fn.short == "resettable.wrapper" or r.closure is not None:
            continue
        if all((t.cls is not None and t.cls.name in CONTAINER_CLASSES) for t in r.target_fn):
            continue  # container primitives: their pairing with the forward operation is C03.inverse's table
        key_fn = r.fn.qualname.replace("cobra.", "", 1)
        construct = norm(enclosing_stmt(r.node))
        b: Dict[str, object] = {}
        for k, v in r.kwargs.items():
            if isinstance(v, ast.Constant):
                b[k] = v.value
        undo: Set[Tuple[str, str]] = set()
        for t in r.target_fn:
            pos = [p for p in t.params if not (t.is_method and p == t.params[0])] if t.is_method and r.recv is not None else list(t.params)
            b2 = dict(b)
            for p, a in zip(pos, r.args):
                if isinstance(a, ast.Constant):
                    b2[p] = a.value
            undo |= reach.cells(t, b2)
        fwd_ops = set(reach.cells(r.fn, {}))
        # a private helper registers on behalf of the operation(s) it was factored out of: what "the operation writes"
        # is then what those callers write (followed up to the first function that is not a private helper)
        op_fns, todo, seen_fns = [r.fn], [r.fn], {id(r.fn)}
        while todo:
            f_ = todo.pop()
            if not (f_.name.startswith("_") and not f_.name.startswith("__")):
                continue
            for g_ in ctx.prog.all_funcs():
                if id(g_) in seen_fns:
                    continue
                if any(e_.kind == "CALL" and e_.chain and e_.chain[0][0] is f_ for e_ in ctx.eff.own_effects(g_)):
                    seen_fns.add(id(g_))
                    op_fns.append(g_)
                    todo.append(g_)
        for g_ in op_fns[1:]:
            fwd_ops |= set(reach.cells(g_, {}))
        forward = {c for c, _ in fwd_ops}
        undo_cells = {c for c, _ in undo if c13_is_model_cell(c)}
        extra = sorted(c for c in undo_cells if c not in forward and c not in MIRROR_CELLS)
        extra = [c for c in extra if (key_fn, construct, c) not in BOUNDED_EXCEPTIONS]
        if extra and _removes_gene_created_here(ctx, r, b):
            # the entry takes a gene out again that this very branch created and listed: stripping it from rules and
            # groups (it can only have joined them inside the block) is part of removing it - the reasons given for the
            # two frozen entries above, recognised by what the branch does rather than by how it is spelled
            extra = [c for c in extra if c not in ("GPR.body", "Group._members", "Model.genes", "Reaction._genes", "Species._reaction", "Species._model")]
        if ("obj.expr", "replace") in undo and ("obj.expr", "replace") not in fwd_ops and not extra:
            ctx.bad("C03.bounded", r.fn, enclosing_stmt(r.node), f"with the arguments bound here the undo entry installs a new objective although {r.fn.short} only edits coefficients of the objective in place: on exit every other term of the objective (and any objective installed later in the block) is wiped (arguments: {sorted(b.items())})")
        elif extra:
            ctx.bad("C03.bounded", r.fn, enclosing_stmt(r.node), f"with the arguments bound here the undo entry may write {extra}, which {r.fn.short} itself never writes: on exit it does more than take the operation back (arguments: {sorted(b.items())})")
        else:
            ctx.ok("C03.bounded", r.fn, enclosing_stmt(r.node), f"under its bound arguments the undo entry writes only cells the operation writes ({len(undo_cells)} cell(s))")


def c13_is_model_cell(cell: str) -> bool:
    from . import c13

    return c13.is_model_cell(cell)


# ----------------------------------------------------------------------------------------- stack
def _check_history_semantics(ctx) -> None:
    """HistoryManager.__call__/reset and get_context evaluated by the analyser's interpreter over stand-ins: entries
    are replayed last-in-first-out, each removed from the history before it runs, entries recorded during the replay
    are replayed as well, the history ends empty; get_context hands out the innermost context of a model, of the model
    of an attached object, and None otherwise."""
    from ..interp import Interp
    from ..absint import Unknown as _U, EvalRaise as _ER

    prog = ctx.prog
    rs = prog.func("cobra.util.context", "HistoryManager.reset")
    cl = prog.func("cobra.util.context", "HistoryManager.__call__")
    gc = prog.func("cobra.util.context", "get_context")

    class _H:
        def __init__(self):
            self._history = []

    class _Entry:
        def __init__(self, name, log, hist, also=None):
            self.name, self.log, self.hist, self.also = name, log, hist, also

        def __call__(self):
            self.log.append((self.name, [e.name for e in self.hist._history]))
            if self.also is not None:
                self.hist._history.append(self.also)

    class _Obj:
        pass

    def run(fn, args, selfobj=None):
        it = Interp(prog, (_H, _Entry, _Obj), [], {})
        it.missing_attr_raises = True
        try:
            return it.call(fn, args, {}, selfobj=selfobj)
        except _U as exc:
            raise AnalysisError(f"C03.stack: {fn.short} cannot be evaluated: {exc}")

    h = _H()
    log: List = []
    e4 = _Entry("late", log, h)
    entries = [_Entry("first", log, h), _Entry("second", log, h, also=e4), _Entry("third", log, h)]
    try:
        for e in entries:
            run(cl, [e], selfobj=h)
        recorded = [e.name for e in h._history]
        run(rs, [], selfobj=h)
    except _ER as exc:
        ctx.bad("C03.stack", rs, rs.node, f"recording / replaying three entries raises {exc.exc_type}")
        return
    if recorded == ["first", "second", "third"]:
        ctx.ok("C03.stack", cl, cl.node, "the operation is appended at the end (evaluated)")
    else:
        ctx.bad("C03.stack", cl, cl.node, f"__call__ does not append the given operation to the end of the history (recorded order {recorded})")
    order = [n for n, _ in log]
    still_listed = [n for n, rest in log if n in rest]
    if order == ["third", "second", "late", "first"] and not h._history and not still_listed:
        ctx.ok("C03.stack", rs, rs.node, "entries are replayed last-in-first-out, each removed before it runs, entries recorded meanwhile included, until the history is empty (evaluated)")
    else:
        ctx.bad("C03.stack", rs, rs.node, f"reset() replays {order} for entries recorded as first, second (records `late` when it runs), third and leaves {[e.name for e in h._history]}: the history must be replayed last-in-first-out until it is empty, each entry removed before it runs")
    # get_context
    h1, h2 = _H(), _H()
    model = _Obj()
    model._contexts = [h1, h2]
    part = _Obj()
    part._model = model
    empty = _Obj()
    empty._contexts = []
    orphan = _Obj()
    orphan._model = None
    cases = (("a model inside two nested contexts", model, h2), ("an object of that model", part, h2), ("a model outside any context", empty, None), ("an object without model", orphan, None))
    bad = []
    for label, obj, want in cases:
        try:
            got = run(gc, [obj])
        except _ER as exc:
            bad.append(f"{label}: raises {exc.exc_type}")
            continue
        if got is not want:
            bad.append(f"{label}: {'the outer context' if got is h1 else 'None' if got is None else 'something else'} is handed out")
    if bad:
        ctx.bad("C03.stack", gc, gc.node, "get_context does not return the innermost (last) context: " + "; ".join(bad[:2]))
    else:
        ctx.ok("C03.stack", gc, gc.node, "innermost context of a model / of an attached object's model; None otherwise (evaluated)")


def check_stack(ctx) -> None:
    prog, eff = ctx.prog, ctx.eff
    allowed = {
        "Model._contexts": {
            ("Model.__enter__", "add"), ("Model.__enter__", "rebind"), ("Model.__exit__", "remove"),
            ("Model.__exit__", "add"),  # the scratch context that isolates the replay (checked by check_isolation)
            ("Model.copy", "rebind"), ("Model.__init__", "rebind"),
        },
        "HistoryManager._history": {
            ("HistoryManager.__init__", "rebind"), ("HistoryManager.__call__", "add"), ("HistoryManager.reset", "remove"),
        },
    }
    seen = 0
    for fn in prog.all_funcs():
        for e in eff.own_effects(fn):
            if e.kind != "RAW" or e.cell not in allowed:
                continue
            seen += 1
            if (fn.short, e.op) in allowed[e.cell]:
                ctx.ok("C03.stack", fn, enclosing_stmt(e.node), f"{e.op} of {e.cell} by its owner")
            else:
                ctx.bad("C03.stack", fn, enclosing_stmt(e.node), f"{e.cell} is modified ({e.op}) outside the functions that own the context stack")
    # __getstate__ drops the stack through the state dict
    gs = prog.func("cobra.core.model", "Model.__getstate__")
    ok = any(
        isinstance(n, ast.Assign) and isinstance(n.targets[0], ast.Subscript) and isinstance(n.targets[0].slice, ast.Constant)
        and n.targets[0].slice.value == "_contexts" and isinstance(n.value, ast.List) and not n.value.elts
        for n in walk_local(gs.node)
    )
    if ok:
        ctx.ok("C03.stack", gs, 'odict["_contexts"] = []', "pickled state carries an empty stack")
    else:
        ctx.bad("C03.stack", gs, gs.node, "the pickled state no longer resets the context stack")
    ctx.isolated = _check_enter_exit_semantics(ctx)
    _check_history_semantics(ctx)
    # resettable: registers the raw function with the OLD value, before calling the setter
    rt = prog.func("cobra.util.context", "resettable.wrapper")
    regs = [n for n in walk_local(rt.node) if isinstance(n, ast.Call) and ctx.eff.is_registration(rt, n)]
    body_calls = [n for n in walk_local(rt.node) if isinstance(n, ast.Call) and isinstance(n.func, ast.Name) and n.func.id == "func"]
    ok = False
    if regs and body_calls:
        ent = _resettable_entry(ctx, rt, regs[0])
        if ent is not None:
            old = ent[1]
            owner, defs = ctx.inf.lookup_name(rt, old.id) if isinstance(old, ast.Name) else (None, [])
            if defs and all(d.kind == "assign" and isinstance(d.value, ast.Call) and norm(d.value.func) == "getattr" for d in defs):
                ok = True
    if ok:
        ctx.ok("C03.stack", rt, enclosing_stmt(regs[0]), "resettable registers func(self, old_value)")
    else:
        ctx.bad("C03.stack", rt, rt.node, "resettable no longer registers the undecorated setter applied to the value read before the change")


def _check_enter_exit_semantics(ctx) -> bool:
    """Model.__enter__ / Model.__exit__ evaluated by the analyser's interpreter over a stand-in model: entering pushes
    one fresh, empty history on top; leaving removes exactly the innermost history, replays it, does not swallow an
    exception, and (isolation) whatever undo callables record while they are replayed ends up neither in the enclosing
    context nor as a stray context on the stack - on the normal and on the raising exit. Returns whether the replay
    is isolated. No shape of the code is prescribed."""
    from ..interp import Interp
    from ..absint import Unknown as _U, EvalRaise as _ER

    prog = ctx.prog
    en = prog.func("cobra.core.model", "Model.__enter__")
    ex = prog.func("cobra.core.model", "Model.__exit__")

    class _S:
        pass

    class _HM(_S):
        def __init__(self, name="fresh"):
            self._history = []
            self.name = name

        def __call__(self, op):
            self._history.append(op)

        def size(self):
            return len(self._history)

        def reset(self):
            while self._history:
                self._history.pop()()

    class _Entry(_S):
        def __init__(self, name, log, model, records=False, raises=False):
            self.name, self.log, self.model, self.records, self.raises = name, log, model, records, raises

        def __call__(self):
            self.log.append(self.name)
            if self.records and self.model._contexts:
                self.model._contexts[-1](_Entry("recorded by " + self.name, self.log, self.model))
            if self.raises:
                raise ValueError(self.name)

    class _M(_S):
        def __init__(self, contexts):
            self._contexts = contexts

    def run(fn, m, args):
        it = Interp(prog, (_S,), [], {"cobra.util.context.HistoryManager": lambda it_, ev, c, a, k: _HM(), "cobra.util.HistoryManager": lambda it_, ev, c, a, k: _HM()})
        it.missing_attr_raises = True
        try:
            return ("value", it.call(fn, args, {}, selfobj=m))
        except _ER as exc:
            return ("raise", exc.exc_type)
        except _U as exc:
            raise AnalysisError(f"C03.stack: {fn.short} cannot be evaluated: {exc}")

    # ---- __enter__
    outer = _HM("outer")
    outer(lambda: None)
    for start in ([], [outer]):
        m = _M(list(start))
        got = run(en, m, [])
        new = m._contexts[len(start):]
        if got[0] == "value" and m._contexts[: len(start)] == start and len(new) == 1 and isinstance(new[0], _HM) and new[0] is not outer and not new[0]._history and got[1] is m:
            ctx.ok("C03.stack", en, f"enter/{len(start)}", f"entering with {len(start)} open context(s) pushes one fresh, empty history on top and returns the model (evaluated)")
        else:
            ctx.bad("C03.stack", en, en.node, f"__enter__ with {len(start)} open context(s) does not push exactly one fresh empty HistoryManager on top of the stack and return the model (stack afterwards: {[getattr(c, 'name', c) for c in m._contexts]}, result {got})")
    # a model whose stack is missing altogether (unpickled by an old version): tolerated either way, not prescribed

    # ---- __exit__
    isolated = True
    for raising, block_failed in ((False, False), (True, False), (False, True)):
        for depth in (1, 2):
            log: List[str] = []
            outer, inner = _HM("outer"), _HM("inner")
            m = _M([outer, inner] if depth == 2 else [inner])
            keep = _Entry("outer entry", log, m)
            outer(keep)
            inner(_Entry("first", log, m))
            inner(_Entry("second", log, m, records=True, raises=raising))
            inner(_Entry("third", log, m, records=True))
            got = run(ex, m, ["<exception type>", "<exception>", "<traceback>"] if block_failed else [None, None, None])
            label = f"{'an undo callable raises' if raising else ('the block ended by an exception' if block_failed else 'normal exit')}, {depth} open context(s)"
            want_log = ["third", "second"] if raising else ["third", "second", "first"]
            replayed = [x for x in log if not x.startswith("recorded by")]
            if replayed[: len(want_log)] != want_log or "outer entry" in log:
                ctx.bad("C03.stack", ex, ex.node, f"__exit__ ({label}) replays {replayed} instead of the innermost history {want_log} last-in-first-out")
                continue
            if raising and got[0] != "raise":
                ctx.bad("C03.stack", ex, ex.node, f"__exit__ swallows the exception of a failing undo callable ({label})")
                continue
            if not raising and (got[0] != "value" or got[1]):
                ctx.bad("C03.stack", ex, ex.node, f"__exit__ {'raises ' + str(got[1]) if got[0] == 'raise' else 'returns a truthy value and swallows the exception that ended the block'} ({label})")
                continue
            want_stack = [outer] if depth == 2 else []
            if inner in m._contexts or m._contexts[: len(want_stack)] != want_stack:
                ctx.bad("C03.stack", ex, ex.node, f"__exit__ does not remove exactly the innermost context from the stack ({label}: stack afterwards {[getattr(c, 'name', c) for c in m._contexts]})")
                continue
            stray = m._contexts[len(want_stack):]
            leaked = outer._history != [keep]
            if stray:
                ctx.bad("C03.stack", ex, ex.node, f"the scratch context pushed for the replay is not popped on every exit ({label}: {len(stray)} stray context(s) stay on the stack, the model believes it is still inside a `with` block)")
                isolated = False
            elif leaked:
                isolated = False
                ctx.note(f"C03.stack: __exit__ does not isolate the replay ({label}: entries recorded by undo callables land in the enclosing context); undo callables must be context-inert")
            else:
                ctx.ok("C03.stack", ex, f"exit/{label}", f"{label}: innermost history popped and replayed last-in-first-out, entries recorded meanwhile discarded, stack back to the enclosing depth (evaluated)")
    return isolated


# ---------------------------------------------------------------------------------- registrations
def _is_callable_literal(e: ast.AST) -> bool:
    return isinstance(e, ast.Lambda) or (isinstance(e, ast.Call) and isinstance(e.func, ast.Name) and e.func.id == "partial" and bool(e.args))


def registrations_of(ctx, fn: FuncInfo) -> List[Registration]:
    """The undo registrations of one function, decoded.

    ``undo = partial(..)`` followed by ``context(undo)`` is the registration of that partial.  When several
    definitions (one per branch) flow into one ``context(undo)``, each definition stands for the registration
    on its own branch - provided every path from the definition arrives at the call (nothing in between can
    raise or return) and no other definition intervenes; otherwise the call is decoded as it stands."""
    out: List[Registration] = []
    for e in ctx.eff.own_effects(fn):
        if e.kind != "REG":
            continue
        call = e.node
        ce = call.args[0] if call.args else None
        if isinstance(ce, ast.Name) and ce.id not in fn.nested:
            owner, defs = ctx.inf.lookup_name(fn, ce.id)
            real = [d for d in defs if d.kind != "aug"]
            if owner is fn and real and len(real) == len(defs) and all(d.kind == "assign" and isinstance(d.value, ast.AST) and _is_callable_literal(d.value) for d in real):
                if len(real) == 1:
                    out.append(ctx.eff.decode_registration(fn, call, callable_expr=real[0].value))
                    continue
                g = ctx.flow.cfg(fn)
                here = set(g.node_containing(call))
                dnodes = {id(d): set(g.node_containing(d.value)) for d in real}
                flows = True
                for d in real:
                    others = set().union(*[dnodes[id(o)] for o in real if o is not d])
                    seen = g.reach(dnodes[id(d)], avoid=lambda n: n in here, edge_ok=lambda a, b, l, _s=dnodes[id(d)]: not (a in _s and l == "exc"))
                    if g.exit in seen or g.rexit in seen or (others & set(seen)):
                        flows = False
                        break
                if flows:
                    for d in real:
                        out.append(ctx.eff.decode_registration(fn, call, callable_expr=d.value, at=d.value))
                    continue
        out.append(ctx.eff.decode_registration(fn, call))
    return out


def all_registrations(ctx) -> List[Registration]:
    out = []
    for fn in ctx.prog.all_funcs():
        out.extend(registrations_of(ctx, fn))
    return out


class Inert:
    """may_register(fn, bindings): can calling fn with these bound constants register an undo entry?"""

    def __init__(self, ctx):
        self.ctx = ctx
        self.memo: Dict[tuple, Optional[List[str]]] = {}
        self.busy: Set[tuple] = set()

    def edge_filter(self, fn: FuncInfo, env: Dict[str, object]):
        def ok(a: Node, b: Node, label) -> bool:
            if label in ("true", "false") and a.kind == "test" and a.ast is not None:
                try:
                    t = Evaluator(env).truth(a.ast)
                except (Unknown, EvalRaise):
                    return True
                return (label == "true") == bool(t)
            return True

        return ok

    def may_register(self, fn: FuncInfo, bindings: Dict[str, object], raw: bool = False) -> Optional[List[str]]:
        key = (id(fn), tuple(sorted((k, repr(v)) for k, v in bindings.items())), raw)
        if key in self.memo:
            return self.memo[key]
        if key in self.busy:
            return None
        self.busy.add(key)
        try:
            res = self._compute(fn, bindings)
        finally:
            self.busy.discard(key)
        self.memo[key] = res
        return res

    def _compute(self, fn: FuncInfo, bindings: Dict[str, object]) -> Optional[List[str]]:
        ctx = self.ctx
        eff = ctx.eff
        g = ctx.flow.cfg(fn)
        live = g.live_nodes(edge_ok=self.edge_filter(fn, bindings))
        for e in eff.own_effects(fn):
            nodes = [n for n in g.node_containing(e.node) if n.kind != "with_exit"]
            if nodes and not any(n in live for n in nodes):
                continue
            if e.kind == "REG":
                return [f"{fn.short}:L{e.node.lineno} {norm(e.node, 70)}"]
            if e.kind != "CALL" or e.note == "remote":
                continue
            callee = e.chain[0][0]
            if e.note == "setter":
                if callee.resettable:
                    return [f"{fn.short}:L{e.node.lineno} assignment to resettable {callee.short}"]
                sub = self.may_register(callee, {})
            else:
                b2: Dict[str, object] = {}
                if isinstance(e.node, ast.Call) and e.note not in ("hof",):
                    skip_self = callee.is_method and e.recv is not None
                    bound = bind_args(callee, e.node, skip_self=skip_self)
                    for p, arg in bound.items():
                        if isinstance(arg, ast.Constant):
                            b2[p] = arg.value
                        elif isinstance(arg, ast.Name) and arg.id in bindings:
                            b2[p] = bindings[arg.id]
                sub = self.may_register(callee, b2)
            if sub:
                return [f"{fn.short}:L{getattr(e.node, 'lineno', 0)} -> {callee.short}"] + sub
        return None


def check_inert(ctx, regs: List[Registration]) -> None:
    inert = Inert(ctx)
    prog, inf = ctx.prog, ctx.inf
    for r in regs:
        fn = r.fn
        key = (fn.qualname.replace("cobra.", "", 1), norm(r.node))
        witness: Optional[List[str]] = None
        what = ""
        tgt = r.target
        if fn.short == "resettable.wrapper":
            continue  # handled per decorated setter below
        if isinstance(tgt, ast.Name) and tgt.id == "setattr" and len(r.args) >= 2 and isinstance(r.args[1], ast.Constant):
            attr = r.args[1].value
            fake = ast.Attribute(value=r.args[0], attr=attr, ctx=ast.Load())
            setter = inf.property_target(fn, fake, "setter")
            what = f"setattr(..., {attr!r})"
            if setter is not None:
                if setter.resettable:
                    witness = [f"{setter.short} is a resettable setter: it registers its own undo entry"]
                else:
                    witness = inert.may_register(setter, {})
        elif r.target_fn:
            bindings = {k: v.value for k, v in r.kwargs.items() if isinstance(v, ast.Constant)}
            for t in r.target_fn:
                # positional constants
                b = dict(bindings)
                pos = [p for p in t.pos_params if not (t.is_method and p == t.self_name)]
                for p, a in zip(pos, r.args):
                    if isinstance(a, ast.Constant):
                        b[p] = a.value
                if t.resettable and not (isinstance(tgt, ast.Name) and tgt.id == "func"):
                    witness = [f"{t.short} is a resettable setter"]
                else:
                    witness = inert.may_register(t, b)
                what = t.short
                if witness:
                    break
        elif getattr(r, "is_lambda", False):
            what = "lambda"
            for n in ast.walk(r.target):
                if isinstance(n, ast.Call):
                    for callee, _ in inf.call_targets(fn, n):
                        witness = witness or inert.may_register(callee, {})
        else:
            # optlang / container methods: leaves of the call graph that cannot register
            what = norm(tgt, 60)
            ts = inf.type_of(fn, tgt.value) if isinstance(tgt, ast.Attribute) else frozenset()
            if not ts and isinstance(tgt, ast.Attribute):
                ctx.note(f"C03.inert: receiver of {norm(tgt, 60)} in {fn.short} is untyped; treated as a leaf")
        if witness and getattr(ctx, "isolated", False):
            ctx.ok("C03.inert", fn, r.node, f"undo via {what} is context-aware, but the replay is isolated by __exit__ (C03.stack): nothing it records can leak")
        elif witness and key in INERT_EXCEPTIONS:
            ctx.ok("C03.inert", fn, r.node, f"frozen exception: {INERT_EXCEPTIONS[key]}")
        elif witness:
            ctx.bad(
                "C03.inert",
                fn,
                r.node,
                f"the registered undo ({what}) registers an undo entry itself when it is replayed: inside nested contexts that entry lands in the enclosing context and re-applies the change at the outer exit",
                path=" ; ".join(witness[:5]),
            )
        else:
            ctx.ok("C03.inert", fn, r.node, f"undo via {what} is context-inert")
    # resettable setters: the implicit entry is the undecorated setter applied to the old value
    for fn in prog.all_funcs():
        if not fn.resettable:
            continue
        w = inert._compute(fn, {})
        if w and getattr(ctx, "isolated", False):
            ctx.ok("C03.inert", fn, f"@resettable {fn.short}", "setter body is context-aware, but the replay is isolated by __exit__ (C03.stack)")
        elif w:
            ctx.bad(
                "C03.inert",
                fn,
                f"@resettable {fn.short}",
                "the undo entry of this resettable setter (the setter body applied to the old value) registers undo entries itself when replayed",
                path=" ; ".join(w[:5]),
            )
        else:
            ctx.ok("C03.inert", fn, f"@resettable {fn.short}", "setter body is context-inert")


# --------------------------------------------------------------------------------------- inverse
ADD_OPS = {"add"}
REMOVE_OPS = {"remove", "clear"}
CONTAINER_ADD = {"add", "append", "extend", "__iadd__", "update", "insert", "union", "__ior__", "add_members", "_associate_gene"}
CONTAINER_REMOVE = {"remove", "discard", "__isub__", "difference_update", "pop", "remove_members", "_dissociate_gene"}


class _Attached:
    """Stands for 'the model this object belongs to' on paths where a context is active."""

    def __bool__(self) -> bool:
        return True


def _held_tests(ctx, fn: FuncInfo, node: ast.AST) -> Dict[str, bool]:
    """{test text: outcome} of the `if` tests ``node`` is nested in, restricted to tests over names that are assigned
    at most once in the function (so a later, textually identical test decides the same way in the same iteration)."""
    out: Dict[str, bool] = {}
    child = node
    for a in ancestors(node):
        if a is fn.node:
            break
        if isinstance(a, ast.If):
            in_body = any(child is s or child in ast.walk(s) for s in a.body)
            names = {x.id for x in ast.walk(a.test) if isinstance(x, ast.Name)}
            calls = [x for x in ast.walk(a.test) if isinstance(x, ast.Call)]
            stable = not calls and all(
                sum(1 for n in walk_local(fn.node) if isinstance(n, ast.Name) and isinstance(n.ctx, ast.Store) and n.id == nm) <= 1 for nm in names
            ) and not any(isinstance(x, ast.Attribute) for x in ast.walk(a.test))
            if stable and names:
                out[norm(a.test)] = in_body
        child = a
    return out


def _ctx_guard_filter(ctx, fn: FuncInfo):
    """Edge filter: follow only the branches taken when a context is active (the object is then
    attached to a model; flags such as ``reversibly`` have their default value)."""
    inf = ctx.inf
    env: Dict[str, object] = {}
    sc = inf.scope(fn)
    for name in sc.defs:
        if any(t == ("cls", "HistoryManager") for t in inf.type_of(fn, ast.Name(id=name, ctx=ast.Load())) or []):
            pass
    # context names
    for n in walk_local(fn.node):
        if isinstance(n, ast.Name) and isinstance(n.ctx, ast.Store) or isinstance(n, ast.Name):
            pass
    ctx_names = set()
    for name, defs in sc.defs.items():
        for d in defs:
            if d.kind == "assign" and isinstance(d.value, ast.Call) and norm(d.value.func) == "get_context":
                ctx_names.add(name)
    for c in ctx_names:
        env[c] = True
    top = fn
    for p in top.params:
        d = top.param_default(p)
        if isinstance(d, ast.Constant) and isinstance(d.value, bool) and p in ("reversibly",):
            env[p] = d.value
    attached = _Attached()
    sn = fn.self_name

    def on_attr(ev, a: ast.Attribute):
        if sn and isinstance(a.value, ast.Name) and a.value.id == sn and a.attr in ("_model", "model"):
            return attached
        return NotImplemented

    # local aliases of the model pointer:  model = self.model
    for name, defs in sc.defs.items():
        if len(defs) == 1 and defs[0].kind == "assign" and isinstance(defs[0].value, ast.Attribute):
            v = defs[0].value
            if sn and isinstance(v.value, ast.Name) and v.value.id == sn and v.attr in ("_model", "model"):
                env[name] = attached

    def ok(a: Node, b: Node, label) -> bool:
        if label in ("true", "false") and a.kind == "test" and a.ast is not None:
            if not ctx_names and not sn:
                return True
            try:
                t = Evaluator(env, on_attr=on_attr).truth(a.ast)
            except (Unknown, EvalRaise):
                return True
            return (label == "true") == bool(t)
        return True

    return ok


def _guarded_insert_nodes(ctx, fn: FuncInfo, g: CFG) -> Set[Node]:
    """Statements inside ``if not X.has_id(k):`` / ``if k not in X:`` - the checked insertion into X
    in that branch cannot raise its duplicate-id error."""
    out: Set[Node] = set()
    for n in walk_local(fn.node):
        if not isinstance(n, ast.If):
            continue
        t = n.test
        guard = False
        if isinstance(t, ast.UnaryOp) and isinstance(t.op, ast.Not) and isinstance(t.operand, ast.Call) and isinstance(t.operand.func, ast.Attribute) and t.operand.func.attr == "has_id":
            guard = True
        if isinstance(t, ast.Compare) and len(t.ops) == 1 and isinstance(t.ops[0], ast.NotIn):
            guard = True
        if guard:
            for st in n.body:
                for sub in ast.walk(st):
                    if isinstance(sub, ast.Call) and isinstance(sub.func, ast.Attribute) and sub.func.attr in ("append", "add"):
                        out |= set(g.node_containing(sub))
    return out


def _recv_text(ctx, fn: FuncInfo, e: Optional[ast.AST]) -> str:
    if e is None:
        return ""
    return norm(ctx.inf.expand_alias(fn, e), 200)


def _binding_for(node: ast.AST, fn: FuncInfo, name: str):
    """The innermost enclosing `for` whose target binds ``name``."""
    lp = _enclosing_for(node, fn)
    while lp is not None:
        if any(isinstance(x, ast.Name) and x.id == name for x in ast.walk(lp.target)):
            return lp
        lp = _enclosing_for(lp, fn)
    return None


def _reg_covers(ctx, fn: FuncInfo, m: Eff, r: Registration) -> bool:
    """Is registration ``r`` a table inverse of own mutation ``m`` (same object)?"""
    inf, eff = ctx.inf, ctx.eff
    tgt = r.target
    cell_attr = m.cell.split(".", 1)[1] if "." in m.cell else m.cell
    # (a) setattr(obj, attr, value)
    if isinstance(tgt, ast.Name) and tgt.id == "setattr" and len(r.args) >= 2 and isinstance(r.args[1], ast.Constant):
        if m.op in ("rebind", "write") and isinstance(m.recv, ast.AST):
            if r.args[1].value == cell_attr and _recv_text(ctx, fn, r.args[0]) == _recv_text(ctx, fn, m.recv):
                return True
            # property name for a private cell (gpr -> _gpr)
            if r.args[1].value == cell_attr.lstrip("_") and _recv_text(ctx, fn, r.args[0]) == _recv_text(ctx, fn, m.recv):
                return True
        # replacing obj.attr by its old value also undoes every in-place change of that sub-object
        if isinstance(m.recv, ast.AST):
            base = _recv_text(ctx, fn, r.args[0])
            attr = str(r.args[1].value)
            mt = _recv_text(ctx, fn, m.recv)
            for cand in (f"{base}.{attr}", f"{base}._{attr.lstrip('_')}", f"{base}.{attr.lstrip('_')}"):
                if mt == cand or mt.startswith(cand + "."):
                    return True
        return False
    # (b) container / solver method on the same container expression, inverse operation class
    if isinstance(tgt, ast.Attribute):
        name = tgt.attr
        same_container = _recv_text(ctx, fn, tgt.value) == _recv_text(ctx, fn, m.recv)
        if same_container and isinstance(tgt.value, ast.Name):
            # the same *name* in two different loops is two different objects (`for group in ...` twice in one function)
            la, lb = _binding_for(r.node, fn, tgt.value.id), _binding_for(m.node, fn, tgt.value.id)
            if la is not None and lb is not None and la is not lb:
                same_container = False
        if same_container and m.recv is not None:
            if m.op == "add" and name in CONTAINER_REMOVE:
                return True
            if m.op in ("remove", "clear") and name in CONTAINER_ADD:
                return True
            if m.op == "reindex" and name == "_generate_index":
                return True
        if m.cell == "solver.members" and same_container:
            if (m.op == "add" and name == "remove") or (m.op == "remove" and name == "add"):
                return _args_match(m, r)
    # (c) a package function / closure that writes the same cell of the same object
    # provenance is coarse ("derives from the model"), so an entry registered in a *different* loop than the mutation
    # (another iteration space: other objects) is not accepted as acting on the same object
    if r.closure is None and _enclosing_for(r.node, fn) is not _enclosing_for(m.node, fn) and m.op in ("rebind", "write") and m.cell.endswith("._model"):
        return False
    if r.closure is None and m.cell == "Group._members" and _enclosing_for(r.node, fn) is not _enclosing_for(m.node, fn) and _enclosing_for(m.node, fn) is not None and _enclosing_for(r.node, fn) is not None:
        return False  # group membership of *other* objects (another loop): not the inverse of this removal
    list_cell = m.cell in ("Model.reactions", "Model.metabolites", "Model.genes", "Model.groups") and m.op in ("add", "remove")
    for t in r.target_fn:
        summ = eff.summary(t) + [e for e in eff.own_effects(t) if e.kind == "RAW"]
        for ce in summ:
            if ce.kind not in ("RAW", "REV"):
                continue
            if ce.cell != m.cell and not (_same_family(ce.cell, m.cell)):
                continue
            if list_cell:
                # membership of a model list: the sibling must do the inverse operation with an
                # element it is *given* (not one it creates itself)
                inv = {"add": ("remove", "clear"), "remove": ("add",)}[m.op]
                if ce.op not in inv:
                    continue
                if not isinstance(ce.value, ast.AST):
                    continue
                er = eff.roots_of(ce.fn, ce.value)
                if not any(x[0] in ("param", "self", "nparam") for x in er):
                    continue
            # object identity: receiver of the registered bound method / closure variable
            if r.recv is not None and isinstance(m.recv, ast.AST):
                rr = eff.roots_of(fn, r.recv)
                if rr & m.roots:
                    return True
            elif r.closure is not None:
                return True
            else:
                # plain function with arguments: some argument shares provenance with the mutated object
                for a in list(r.args) + list(r.kwargs.values()):
                    if eff.roots_of(fn, a) & m.roots:
                        return True
    return False


def _same_family(a: str, b: str) -> bool:
    fam = [{"obj.expr", "obj.direction"}]
    return any(a in f and b in f for f in fam)


def _args_match(m: Eff, r: Registration) -> bool:
    if not isinstance(m.node, ast.Call) or not m.node.args or not r.args:
        return True
    return norm(m.node.args[0]) == norm(r.args[0])


def _incoming_only(ctx, fn: FuncInfo, m: Eff) -> bool:
    """The mutated object only comes from the operation's arguments (not yet model state) or is new."""
    roots = {r for r in m.roots if r not in (FRESH, CONST)}
    if not roots:
        return True
    top = ctx.eff._top(fn)
    model_like = set()
    for r in roots:
        if r == SELF:
            model_like.add(r)
        elif r[0] == "param":
            ts = ctx.inf._param_type(top, r[1]) if r[1] in top.params else frozenset()
            if any(t == ("cls", "Model") for t in ts):
                model_like.add(r)
        elif r[0] in ("global", "selfattr", "unknown"):
            model_like.add(r)
    return not model_like


def check_inverse(ctx, regs: List[Registration]) -> None:
    prog, eff, inf = ctx.prog, ctx.eff, ctx.inf
    by_fn: Dict[int, List[Registration]] = {}
    for r in regs:
        by_fn.setdefault(id(r.fn), []).append(r)
    for fn in sorted(prog.all_funcs(), key=lambda f: f.qualname):
        if fn.short == "resettable.wrapper" or fn.short.startswith("HistoryManager"):
            continue
        if not eff.context_aware(fn):
            continue
        if fn.resettable:
            # the decorator registers the setter itself: covers every cell the setter writes
            ctx.ok("C03.inverse", fn, f"@resettable {fn.short}", "implicit inverse: the same setter applied to the old value", nontrivial=False)
            continue
        own = mutation_sites(ctx, fn)
        fregs = by_fn.get(id(fn), [])
        g = ctx.flow.cfg(fn)
        edge_ok = _ctx_guard_filter(ctx, fn)
        guarded = _guarded_insert_nodes(ctx, fn, g)
        base_edge_ok = edge_ok
        edge_ok = lambda x, y, l, _b=base_edge_ok: _b(x, y, l) and not (l == "exc" and x in guarded)  # noqa: E731
        fn_edge_ok = edge_ok
        for m in own:
            edge_ok = fn_edge_ok
            kfn, kcon = fn.qualname.replace("cobra.", "", 1), norm(enclosing_stmt(m.node))
            reason = _excepted(kfn, kcon, m.cell, "none")
            covering = [r for r in fregs if _reg_covers(ctx, fn, m, r)]
            if not covering:
                if reason:
                    ctx.ok("C03.inverse", fn, enclosing_stmt(m.node), f"frozen exception: {reason}")
                else:
                    ctx.bad("C03.inverse", fn, enclosing_stmt(m.node), f"{m.op} of {m.cell} has no registered inverse on the same object: leaving the context does not undo it")
                continue
            cnodes: Set[Node] = set()
            for r in covering:
                cnodes |= {n for n in g.node_containing(r.node) if n.kind != "with_exit"}
                # a registration inside a loop over (something derived from) the mutated object, or
                # over the same iterable as the mutation's own loop, covers every element: the loop
                # header stands for it
                lp = _enclosing_for(r.node, fn)
                while lp is not None:
                    it_roots = eff.roots_of(fn, lp.iter)
                    mlp = _enclosing_for(m.node, fn)
                    same_iter = mlp is not None and norm(mlp.iter) == norm(lp.iter)
                    # ... unless the mutation sits in that very loop: then the registration has to be reached in
                    # the same iteration, on every path through the loop body
                    holds_mutation = any(x is m.node for x in ast.walk(lp))
                    if (same_iter or (it_roots & m.roots)) and not holds_mutation:
                        cnodes |= set(g.nodes_for(lp))
                    lp = _enclosing_for(lp, fn)
            anchors = [n for n in g.node_containing(m.node) if n.kind != "with_exit"]
            # tests the mutation itself sits under hold for the rest of the iteration: `if c != 0: mutate` ...
            # `if context: if c != 0: register` are the same decision when the names of the test are assigned once
            held = _held_tests(ctx, fn, m.node)
            if held:
                edge_ok = (lambda _e, _h: (lambda x, y, l: _e(x, y, l) and not (x.kind == "test" and x.ast is not None and l in ("true", "false") and _h.get(norm(x.ast)) is not None and _h[norm(x.ast)] != (l == "true"))))(edge_ok, held)
            # normal completion: every context-active path through the mutation passes an inverse
            w = None
            for a in anchors:
                after = g.escapes([a], lambda n: n in cnodes, [g.exit], edge_ok=lambda x, y, l: l != "exc" and edge_ok(x, y, l))
                if after is None:
                    continue
                before = g.reaches_without([a], lambda n: n in cnodes, edge_ok=lambda x, y, l: l != "exc" and edge_ok(x, y, l))
                if before is None:
                    continue
                w = before + after
                break
            if w is not None:
                reason = _excepted(kfn, kcon, m.cell, "normal")
                if reason:
                    ctx.ok("C03.inverse", fn, enclosing_stmt(m.node), f"frozen exception: {reason}")
                else:
                    ctx.bad("C03.inverse", fn, enclosing_stmt(m.node), f"{m.op} of {m.cell}: a path with an active context completes without registering the inverse", path=describe_path(w))
                continue
            # exceptional completion after the mutation (the mutating statement raising is its own business)
            w2 = None
            for a in anchors:
                before = g.reaches_without([a], lambda n: n in cnodes, edge_ok=edge_ok)
                if before is None:
                    continue  # inverse registered before the mutation
                seen = g.reach([a], avoid=lambda n: n in cnodes, edge_ok=lambda x, y, l: edge_ok(x, y, l) and not (x is a and l == "exc"))
                if g.rexit in seen:
                    w2 = g.path_to(seen, g.rexit)
                    break
            _st = enclosing_stmt(m.node)
            _sk = isinstance(_st, ast.Assign) and len(_st.targets) == 1 and same_key_rebuild(fn, _st.targets[0], _st.value)
            if w2 is not None and _excepted(kfn, kcon, m.cell, "raise", _sk):
                ctx.ok("C03.inverse", fn, enclosing_stmt(m.node), f"frozen exception: {_excepted(kfn, kcon, m.cell, 'raise', _sk)}")
                continue
            if w2 is not None:
                ctx.bad(
                    "C03.inverse",
                    fn,
                    enclosing_stmt(m.node),
                    f"{m.op} of {m.cell}: a later step can raise before the inverse is registered, so the block exits with the change in place",
                    path=describe_path(w2),
                )
                continue
            ctx.ok("C03.inverse", fn, enclosing_stmt(m.node), f"{m.op} of {m.cell} <-> {norm(covering[0].callable_expr, 70)}")
        # objective reset closure restores expression and direction
        for r in fregs:
            if r.closure is not None:
                check_reset_closure(ctx, fn, r)


def _enclosing_for(node: ast.AST, fn: FuncInfo) -> Optional[ast.For]:
    p = parent(node)
    while p is not None and p is not fn.node:
        if isinstance(p, ast.For):
            return p
        p = parent(p)
    return None


def mutation_sites(ctx, fn: FuncInfo) -> List[Eff]:
    """Own mutations of model state that need an inverse: raw writes and calls to package mutators
    that are not context-aware themselves."""
    eff = ctx.eff
    out: List[Eff] = []
    seen: Set[int] = set()
    for e in eff.own_effects(fn):
        if e.kind == "RAW":
            if e.cell in MIRROR_CELLS or e.cell.startswith("<") or e.cell.startswith("global."):
                continue
            if _incoming_only(ctx, fn, e):
                continue
            out.append(e)
        elif e.kind == "CALL" and e.note not in ("remote",):
            callee = e.chain[0][0]
            if eff.context_aware(callee) or callee.resettable:
                continue
            if e.note == "setter" and callee.resettable:
                continue
            sub = [x for x in eff.summary(callee) if x.kind == "RAW" and x.cell not in MIRROR_CELLS and not x.cell.startswith("<")]
            if not sub:
                continue
            partial_call = e.value if (e.note == "hof" and isinstance(e.value, ast.Call)) else None
            for x in sub:
                roots = eff._resolve_globals(fn, eff.map_roots(fn, e.node, callee, x, e.recv, partial_call))
                xx = x.with_(roots=roots, node=e.node, fn=fn, recv=e.recv if e.recv is not None else x.recv, chain=((fn, e.node),) + x.chain)
                if _incoming_only(ctx, fn, xx):
                    continue
                k = (id(e.node), x.cell, x.op)
                if k in seen:
                    continue
                seen.add(k)
                out.append(xx)
    return out


def check_reset_closure(ctx, fn: FuncInfo, r: Registration) -> None:
    """set_objective.reset: restores the objective from a snapshot taken before the first mutation,
    expression and direction both."""
    eff = ctx.eff
    cl = r.closure
    cells = {e.cell for e in eff.own_effects(cl) if e.kind == "RAW"}
    if {"obj.expr", "obj.direction"} <= cells:
        # the restored value must be a snapshot captured before the first objective write of fn
        snaps = []
        for e in eff.own_effects(cl):
            if e.kind == "RAW" and e.cell == "obj.expr" and isinstance(e.value, ast.Name):
                snaps.append(e.value.id)
        ok = False
        for s in snaps:
            owner, defs = ctx.inf.lookup_name(cl, s)
            if owner is fn and defs:
                first_writes = [x.node for x in eff.own_effects(fn) if x.kind == "RAW" and x.cell in ("obj.expr", "obj.direction")]
                if all(eff.dominated_by(fn, w, [d.node for d in defs]) for w in first_writes):
                    ok = True
        if ok:
            ctx.ok("C03.inverse", fn, r.node, "reset closure restores expression and direction from a snapshot taken before the first objective write")
        else:
            ctx.bad("C03.inverse", fn, r.node, "the objective reset closure does not restore a snapshot taken before the objective was changed")
    elif cells & {"obj.expr", "obj.direction"}:
        ctx.bad("C03.inverse", fn, r.node, f"the objective reset closure restores only {sorted(cells & {'obj.expr', 'obj.direction'})}: expression and direction must both be restored")


# ----------------------------------------------------------------------------------------- total
def check_total(ctx) -> None:
    """Look-ups in a pre-state snapshot, keyed by the operation's arguments, must be total."""
    prog, inf, eff = ctx.prog, ctx.inf, ctx.eff
    n = 0
    for fn in prog.all_funcs():
        if not eff.context_aware(fn) or fn.resettable:
            continue
        # snapshot names: assigned once from a copy of / property over a tracked container of self/model
        snaps: Dict[str, ast.AST] = {}
        sc = inf.scope(fn)
        for name, defs in sc.defs.items():
            real = [d for d in defs if d.kind != "aug"]
            if len(real) != 1 or real[0].kind != "assign":
                continue
            v = real[0].value
            ts = inf.type_of(fn, v)
            if not any(t[0] == "dict" for t in ts):
                continue
            is_copy = (isinstance(v, ast.Attribute) and eff.is_local_container(fn, v)) or (
                isinstance(v, ast.Call) and isinstance(v.func, ast.Attribute) and v.func.attr == "copy"
            )
            if is_copy and not all(r in (FRESH, CONST) for r in eff.roots_of(fn, v)):
                snaps[name] = real[0].node
        if not snaps:
            continue
        for sub in walk_local(fn.node):
            if isinstance(sub, ast.Subscript) and isinstance(sub.ctx, ast.Load) and isinstance(sub.value, ast.Name) and sub.value.id in snaps:
                guarded = False
                for a in ancestors(sub):
                    if a is fn.node:
                        break
                    tests = []
                    if isinstance(a, ast.If):
                        tests.append(a.test)
                    if isinstance(a, ast.IfExp):
                        tests.append(a.test)
                    if isinstance(a, ast.comprehension):
                        tests += a.ifs
                    if isinstance(a, (ast.ListComp, ast.DictComp, ast.SetComp, ast.GeneratorExp)):
                        for gen in a.generators:
                            tests += gen.ifs
                    for t in tests:
                        for c in ast.walk(t):
                            if isinstance(c, ast.Compare) and any(isinstance(op, ast.In) for op in c.ops) and any(norm(x) == sub.value.id for x in c.comparators):
                                guarded = True
                n += 1
                if guarded:
                    ctx.ok("C03.total", fn, enclosing_stmt(sub), f"look-up in the snapshot '{sub.value.id}' is membership-guarded")
                else:
                    ctx.bad("C03.total", fn, enclosing_stmt(sub), f"the pre-state snapshot '{sub.value.id}' is indexed directly: a key the pre-state did not contain raises after the edit and before the undo entry is registered, so the block exits with the edit in place")
            elif isinstance(sub, ast.Call) and isinstance(sub.func, ast.Attribute) and sub.func.attr == "get" and isinstance(sub.func.value, ast.Name) and sub.func.value.id in snaps:
                n += 1
                ctx.ok("C03.total", fn, enclosing_stmt(sub), f"total look-up in the snapshot '{sub.func.value.id}'")


# ----------------------------------------------------------------------------------------- cover
REVERSIBLE_HELPERS = [
    ("cobra.util.solver", "set_objective"), ("cobra.util.solver", "add_cons_vars_to_problem"),
    ("cobra.util.solver", "remove_cons_vars_from_problem"), ("cobra.util.solver", "add_absolute_expression"),
    ("cobra.util.solver", "fix_objective_as_constraint"), ("cobra.util.solver", "add_lp_feasibility"),
    ("cobra.util.solver", "add_lexicographic_constraints"), ("cobra.util.solver", "choose_solver"),
    ("cobra.flux_analysis.parsimonious", "add_pfba"), ("cobra.flux_analysis.moma", "add_moma"),
    ("cobra.flux_analysis.room", "add_room"), ("cobra.flux_analysis.loopless", "add_loopless"),
    ("cobra.manipulation.delete", "knock_out_model_genes"), ("cobra.manipulation.delete", "remove_genes"),
    ("cobra.manipulation.modify", "rename_genes"),
    ("cobra.core.model", "Model.add_boundary"), ("cobra.core.model", "Model.add_reactions"),
    ("cobra.core.model", "Model.remove_reactions"), ("cobra.core.model", "Model.add_metabolites"),
    ("cobra.core.model", "Model.remove_metabolites"), ("cobra.core.model", "Model.add_cons_vars"),
    ("cobra.core.model", "Model.remove_cons_vars"), ("cobra.core.model", "Model.merge"),
    ("cobra.core.reaction", "Reaction.knock_out"), ("cobra.core.reaction", "Reaction.add_metabolites"),
    ("cobra.core.reaction", "Reaction.subtract_metabolites"), ("cobra.core.reaction", "Reaction.__imul__"),
    ("cobra.core.reaction", "Reaction.__iadd__"), ("cobra.core.reaction", "Reaction.__isub__"),
    ("cobra.core.reaction", "Reaction.build_reaction_from_string"), ("cobra.core.reaction", "Reaction.remove_from_model"),
    ("cobra.core.gene", "Gene.knock_out"), ("cobra.core.metabolite", "Metabolite.remove_from_model"),
]
REVERSIBLE_SETTERS = [
    ("cobra.core.model", "Model.objective"), ("cobra.core.model", "Model.medium"),
    ("cobra.core.reaction", "Reaction.objective_coefficient"), ("cobra.core.reaction", "Reaction.reaction"),
]


def check_cover(ctx) -> None:
    prog, eff = ctx.prog, ctx.eff
    fns = [prog.func(m, s) for m, s in REVERSIBLE_HELPERS] + [prog.func(m, s, setter=True) for m, s in REVERSIBLE_SETTERS]
    fns += [f for f in prog.all_funcs() if f.resettable]
    for fn in fns:
        raw = []
        for e in eff.summary(fn):
            if e.kind != "RAW" or e.cell in MIRROR_CELLS or e.cell.startswith("<"):
                continue
            roots = {r for r in e.roots if r not in (FRESH, CONST)}
            if not roots:
                continue
            xx = e.with_(roots=roots)
            if _incoming_only(ctx, fn, xx):
                continue
            owner = e.cell.split(".")[0]
            if owner not in ("Model", "Reaction", "Metabolite", "Gene", "Species", "Group", "Object", "GPR", "solver", "obj", "cons", "var", "config", "?"):
                continue
            raw.append(e)
        if not raw:
            ctx.ok("C03.cover", fn, None, "every effect on the model is reversible (context-aware), mirrored, or on a new object")
            continue
        for e in raw:
            ctx.bad(
                "C03.cover",
                e.fn,
                enclosing_stmt(e.node),
                f"raw {e.op} of {e.cell} reachable from the documented-reversible {fn.short}: it is not undone when the context exits",
                path=" <- ".join(f"{c[0].short}@L{getattr(c[1], 'lineno', 0)}" for c in e.chain[:5]),
            )
