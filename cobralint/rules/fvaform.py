"""Formulation-level check of flux_variability_analysis (shared by C05 and C14).

flux_variability_analysis, _init_worker, _fva_step, add_pfba and fix_objective_as_constraint are evaluated by
the analyser's interpreter over the symbolic LP model; the solver is an oracle that answers by the *meaning* of
the problem it is given (optimum of the original objective, smallest total flux, extreme flux of one reaction).
Every solve is compared with the problem the documentation describes.
"""
from __future__ import annotations

from typing import Any, Dict, List, Optional, Tuple

from .. import AnalysisError
from ..absint import EvalRaise, Unknown
from ..framemodel import Frame, Index, Ser, _At, _Loc
from ..framemodel import Unsupported as FUnsupported
from ..interp import Interp
from ..lpmodel import Cons, Container, Formulation, Lin, ModelLP, Obj, Problem, ReactionList, RxnLP, SolutionLP, SolverStub, Unsupported, Var

NATIVE = (Lin, Var, Cons, Obj, Problem, Container, SolverStub, RxnLP, ReactionList, SolutionLP, ModelLP, Formulation, Frame, Ser, Index, _At, _Loc)
FOLLOW = [
    "cobra.flux_analysis.variability.flux_variability_analysis",
    "cobra.flux_analysis.variability._init_worker",
    "cobra.flux_analysis.variability._fva_step",
    "cobra.flux_analysis.parsimonious.add_pfba",
    "cobra.util.solver.fix_objective_as_constraint",
]
OPT, TOTAL = 7.25, 13.5
RANGES = {"R_a": (-2.75, 6.5), "R_b": (0.0, 9.25), "R_c": (-11.5, -1.125), "R_d": (0.0, 0.0)}
OBJECTIVE = {"R_b": 1.0, "R_a": 0.25}


def _model(direction: str) -> ModelLP:
    rxns = [RxnLP("R_a", -11.0, 17.0), RxnLP("R_b", 0.0, 23.0), RxnLP("R_c", -29.0, 0.0), RxnLP("R_d", -5.0, 5.0)]
    m = ModelLP(rxns, OBJECTIVE, direction)
    m.script = _Oracle()
    return m


def _flux_vars(model):
    out = {}
    for r in model.reactions:
        out[r.forward_variable.name] = (r, 1.0)
        out[r.reverse_variable.name] = (r, -1.0)
    return out


def effective(model: ModelLP, f: Formulation) -> List[Tuple[Tuple, Optional[float], Optional[float]]]:
    """The restrictions a formulation puts on the fluxes, in canonical form.

    ``expr - aux == 0`` with a private variable ``aux`` (occurring nowhere else, not in the objective) is read as
    ``aux.lb <= expr <= aux.ub``; restrictions with the same expression are intersected; expressions are scaled to
    a leading coefficient of +1.
    """
    fv = _flux_vars(model)
    use: Dict[str, int] = {}
    for c in f.constraints:
        for v in c.expression.terms:
            use[v.name] = use.get(v.name, 0) + 1
    in_obj = {v.name for v in f.objective_terms}
    out: Dict[Tuple, List[Optional[float]]] = {}
    for c in f.constraints:
        e = c.expression
        own = [(v, k) for v, k in e.terms.items() if v.name not in fv]
        lb = None if c.lb is None else c.lb - e.const
        ub = None if c.ub is None else c.ub - e.const
        terms = {v.name: k for v, k in e.terms.items()}
        if own:
            if len(own) == 1 and use[own[0][0].name] == 1 and own[0][0].name not in in_obj and lb == 0 and ub == 0:
                v, k = own[0]
                del terms[v.name]
                # expr_rest + k * aux == 0  ->  expr_rest == -k * aux
                lo, hi = v.lb, v.ub
                if k > 0:
                    lb, ub = (None if hi is None else -k * hi), (None if lo is None else -k * lo)
                else:
                    lb, ub = (None if lo is None else -k * lo), (None if hi is None else -k * hi)
            else:
                out.setdefault((("<unrecognised>", c.name),), [None, None])
                continue
        if not terms:
            continue
        lead = sorted(terms)[0]
        k0 = terms[lead]
        key = tuple(sorted((n, round(k / k0, 9)) for n, k in terms.items()))
        if k0 < 0:
            lb, ub = (None if ub is None else ub / k0), (None if lb is None else lb / k0)
        else:
            lb, ub = (None if lb is None else lb / k0), (None if ub is None else ub / k0)
        cur = out.setdefault(key, [None, None])
        if lb is not None:
            cur[0] = lb if cur[0] is None else max(cur[0], lb)
        if ub is not None:
            cur[1] = ub if cur[1] is None else min(cur[1], ub)
    res = []
    for key, (lb, ub) in out.items():
        if lb is None and ub is None and key[0][0] != "<unrecognised>":
            continue
        res.append((key, None if lb is None else round(lb, 9), None if ub is None else round(ub, 9)))
    for r in model.reactions:
        if f.bounds[r.id] != (r.lower_bound, r.upper_bound):
            res.append(((("<bounds>", r.id),), f.bounds[r.id][0], f.bounds[r.id][1]))
    return sorted(res, key=repr)


def _canon(terms: Dict[str, float], lb, ub):
    lead = sorted(terms)[0]
    k0 = terms[lead]
    key = tuple(sorted((n, round(k / k0, 9)) for n, k in terms.items()))
    if k0 < 0:
        lb, ub = (None if ub is None else ub / k0), (None if lb is None else lb / k0)
    else:
        lb, ub = (None if lb is None else lb / k0), (None if ub is None else ub / k0)
    return (key, None if lb is None else round(lb, 9), None if ub is None else round(ub, 9))


class _Oracle:
    """Answers each problem by its meaning; records (kind, subject, direction, formulation, value)."""

    def __init__(self):
        self.log: List[Tuple[str, Optional[str], str, Formulation, float]] = []

    def __call__(self, model: ModelLP, f: Formulation):
        fv = _flux_vars(model)
        terms = {v.name: round(c, 9) for v, c in f.objective_terms.items() if c != 0}
        orig = {}
        for rid, k in OBJECTIVE.items():
            r = model.reactions.get_by_id(rid)
            orig[r.forward_variable.name] = k
            orig[r.reverse_variable.name] = -k
        total = {n: 1.0 for n in fv}
        fluxes = {r.id: 0.0 for r in model.reactions}
        if terms == orig:
            kind, subj, val = "objective", None, OPT
            # an optimal vertex: R_c at its upper bound (0), R_b at its lower bound (0), R_a at its upper bound -
            # where a flux sits in *this* solution says nothing about its range under the constraints of the later steps
            fluxes.update({"R_c": 0.0, "R_b": 0.0, "R_a": 17.0, "R_d": 1.5})
        elif terms == total:
            kind, subj, val = "total", None, TOTAL
        else:
            owners = {fv[n][0].id for n in terms if n in fv}
            kind, subj, val = "other", None, 0.0
            if len(owners) == 1 and set(terms) <= set(fv):
                rid = next(iter(owners))
                r = model.reactions.get_by_id(rid)
                if terms.get(r.forward_variable.name) == 1.0 and terms.get(r.reverse_variable.name) == -1.0:
                    kind, subj = "flux", rid
                    val = RANGES[rid][0] if f.direction == "min" else RANGES[rid][1]
                    fluxes[rid] = val
        self.log.append((kind, subj, f.direction, f, val))
        return val, fluxes, "optimal"


def _check_status(it, ev, c, args, kwargs):
    status = args[0] if args else kwargs.get("status")
    if status != "optimal":
        raise EvalRaise("OptimizationError", c)
    return None


def _add(it, ev, c, args, kwargs):
    args[0].add_cons_vars(args[1] if len(args) > 1 else kwargs["what"])


def _remove(it, ev, c, args, kwargs):
    args[0].remove_cons_vars(args[1] if len(args) > 1 else kwargs["what"])


def _get_solution(it, ev, c, args, kwargs):
    """The solution of the last solve (flux series keyed by reaction id, deliberately not in model order)."""
    from ..framemodel import Ser

    model = args[0] if args else kwargs["model"]
    reactions = kwargs.get("reactions", args[1] if len(args) > 1 else None)
    if not model.solves:
        raise Unsupported("get_solution before any solve")
    f, v = model.solves[-1]
    ids = [getattr(r, "id", r) for r in (list(model.reactions) if reactions is None else list(reactions))]
    ids = list(reversed(ids))
    return SolutionLP(f, ids, v, Ser([(model.last_fluxes or {}).get(i, 0.0) for i in ids], ids))


STUBS = {"cobra.core.solution.get_solution": _get_solution, "cobra.core.get_solution": _get_solution, "cobra.util.solver.check_solver_status": _check_status, "cobra.util.solver.add_cons_vars_to_problem": _add, "cobra.util.solver.remove_cons_vars_from_problem": _remove}


def _run(what: str, thunk):
    try:
        return thunk()
    except Unknown as exc:
        raise AnalysisError(f"{what} cannot be evaluated: {exc}")
    except (Unsupported, FUnsupported) as exc:
        raise AnalysisError(f"{what} is outside the LP/frame model: {exc}")


def check_fva_formulation(ctx, rule: str) -> None:
    prog = ctx.prog
    fn = prog.func("cobra.flux_analysis.variability", "flux_variability_analysis")
    step = prog.func("cobra.flux_analysis.variability", "_fva_step")
    problems: Dict[str, str] = {}
    n = 0
    base_objective, base_ranges = dict(OBJECTIVE), dict(RANGES)
    for single, direction in ((False, "max"), (False, "min"), (True, "max"), (True, "min")):
        # `single`: the objective is one reaction with a coefficient other than one - the optimum is coefficient x flux,
        # and the end of that reaction's range on the objective's side is optimum / coefficient
        OBJECTIVE.clear()
        OBJECTIVE.update({"R_b": 2.0} if single else base_objective)
        RANGES.clear()
        RANGES.update(base_ranges)
        if single:
            RANGES["R_b"] = (0.0, OPT / 2.0) if direction == "max" else (OPT / 2.0, 9.25)
        for frac in (1.0, 0.4, 0.0):
            for pf in (None, 1.125):
                for req in (None, ["R_c", "R_a"], "objects"):
                    if single and (frac == 0.0 or req == ["R_c", "R_a"]):
                        continue
                    model = _model(direction)
                    oracle: _Oracle = model.script
                    it = Interp(prog, NATIVE, FOLLOW, STUBS, globals_={"Zero": Lin()})
                    kwargs: Dict[str, Any] = {"fraction_of_optimum": frac, "processes": 1, "pfba_factor": pf}
                    if req == "objects":
                        kwargs["reaction_list"] = [model.reactions.get_by_id("R_d"), model.reactions.get_by_id("R_b")]
                        ids = ["R_d", "R_b"]
                    elif req is not None:
                        kwargs["reaction_list"] = list(req)
                        ids = list(req)
                    else:
                        ids = [r.id for r in model.reactions]
                    what = f"flux_variability_analysis({direction} problem{', objective 2*R_b' if single else ''}, fraction_of_optimum={frac:g}, pfba_factor={pf}, reaction_list={'None' if req is None else 'ids' if req != 'objects' else 'objects'})"
                    try:
                        out = _run(what, lambda: it.call(fn, [model], kwargs))
                    except EvalRaise as exc:
                        problems.setdefault("raise", f"{what} raises {exc.exc_type}")
                        continue
                    n += 1
                    if not isinstance(out, Frame):
                        raise AnalysisError(f"{what} did not return a table")
                    # --- the restrictions that must be in force
                    orig = {}
                    for rid, k in OBJECTIVE.items():
                        r = model.reactions.get_by_id(rid)
                        orig[r.forward_variable.name] = k
                        orig[r.reverse_variable.name] = -k
                    hold = _canon(orig, frac * OPT, None) if direction == "max" else _canon(orig, None, frac * OPT)
                    total = {x.name: 1.0 for r in model.reactions for x in (r.forward_variable, r.reverse_variable)}
                    cap = _canon(total, None, pf * TOTAL) if pf is not None else None
                    first = [e for e in oracle.log if e[0] == "objective"]
                    if not first or effective(model, first[0][3]) or first[0][2] != direction:
                        problems.setdefault("optimum", f"{what}: the optimum that is held is not that of the model's objective on the untouched model")
                    tot = [e for e in oracle.log if e[0] == "total"]
                    if pf is not None:
                        if len(tot) != 1 or tot[0][2] != "min":
                            problems.setdefault("pfba", f"{what}: the smallest total flux is not computed by one minimisation ({len(tot)} found)")
                        else:
                            got = effective(model, tot[0][3])
                            if got != [hold]:
                                problems.setdefault("pfba", f"{what}: the smallest total flux is computed under {_show(got)}, expected only the objective held at the requested fraction {_show([hold])}: the cap pfba_factor x total is then wrong")
                    elif tot:
                        problems.setdefault("pfba", f"{what}: a total-flux problem is solved although pfba_factor is None")
                    # --- per-reaction problems
                    want = [hold] + ([cap] if cap is not None else [])
                    flux = [e for e in oracle.log if e[0] == "flux"]
                    seen = {}
                    for kind, rid, d, f, val in flux:
                        got = effective(model, f)
                        if sorted(got, key=repr) != sorted(want, key=repr):
                            problems.setdefault("restrictions", f"{what}: the {d}imisation of {rid} runs under {_show(got)}, expected {_show(want)}")
                        seen.setdefault((rid, d), []).append(val)
                    others = [e for e in oracle.log if e[0] == "other"]
                    if others:
                        f = others[0][3]
                        problems.setdefault("objective", f"{what}: a problem with objective {others[0][2]} {Lin(f.objective_terms)} is solved; every FVA step must optimise the flux of exactly one reaction (coefficients of the previous reaction reset)")
                    for rid in ids:
                        for d, col in (("min", "minimum"), ("max", "maximum")):
                            if (rid, d) not in seen and not (single and rid == "R_b" and d == direction):
                                # (the end of the objective reaction's range on the objective's side may be taken from
                                # the optimum; the table clause decides whether it was taken correctly)
                                problems.setdefault("objective", f"{what}: the flux of {rid} is never {d}imised")
                    if list(out.index) != ids or set(out.cols) != {"minimum", "maximum"}:
                        problems.setdefault("table", f"{what}: the table has rows {list(out.index)} and columns {list(out.cols)}, expected rows {ids}")
                    else:
                        for rid in ids:
                            row = out.row(rid)
                            if (row["minimum"], row["maximum"]) != RANGES[rid]:
                                problems.setdefault("table", f"{what}: the row of {rid} is [{row['minimum']}; {row['maximum']}] while the solver's optima for it are [{RANGES[rid][0]}; {RANGES[rid][1]}]")
                    extra = sorted({r for (r, d) in seen} - set(ids))
                    if extra:
                        problems.setdefault("objective", f"{what}: reactions outside the request are optimised: {extra}")
                    if model._stack or model.solver.constraints.items or model.solver.objective.name != "original_objective" or model.solver.objective.direction != direction:
                        problems.setdefault("restore", f"{what}: the model is left modified (objective {model.solver.objective.name}, direction {model.solver.objective.direction}, {len(model.solver.constraints.items)} constraints)")
    OBJECTIVE.clear()
    OBJECTIVE.update(base_objective)
    RANGES.clear()
    RANGES.update(base_ranges)
    # the loopless option: the value of every step comes from the per-reaction loop removal (a stand-in that records
    # its calls and answers with a marked value), whatever the shape of the network - with more metabolites than
    # internal reactions, and with fewer
    for n_mets in (6, 2):
        for req in (None, ["R_c", "R_a"]):
            model = _model("max")
            model.metabolites = [object() for _ in range(n_mets)]
            calls: List[Tuple[str, str]] = []

            def _loop_iter(it_, ev, c, a, k, _m=model, _calls=calls):
                rxn = a[1] if len(a) > 1 else k.get("reaction")
                d = _m.solver.objective.direction
                _calls.append((rxn.id, d))
                return 1000.0 + (RANGES[rxn.id][0] if d == "min" else RANGES[rxn.id][1])

            stubs = dict(STUBS)
            stubs["cobra.flux_analysis.loopless.loopless_fva_iter"] = _loop_iter
            stubs["cobra.flux_analysis.variability.loopless_fva_iter"] = _loop_iter
            it = Interp(prog, NATIVE, FOLLOW, stubs, globals_={"Zero": Lin()})
            kwargs = {"fraction_of_optimum": 1.0, "processes": 1, "loopless": True}
            ids = [r.id for r in model.reactions] if req is None else list(req)
            if req is not None:
                kwargs["reaction_list"] = list(req)
            what = f"flux_variability_analysis(loopless=True, reaction_list={'None' if req is None else 'ids'}) on a model with {len(model.reactions)} internal reactions and {n_mets} metabolites"
            try:
                out = _run(what, lambda: it.call(fn, [model], kwargs))
            except EvalRaise as exc:
                problems.setdefault("raise", f"{what} raises {exc.exc_type}")
                continue
            n += 1
            for rid in ids:
                row = out.row(rid) if isinstance(out, Frame) and rid in list(out.index) else None
                want_row = (1000.0 + RANGES[rid][0], 1000.0 + RANGES[rid][1])
                if row is None or (row["minimum"], row["maximum"]) != want_row:
                    got_row = None if row is None else (row["minimum"], row["maximum"])
                    problems.setdefault("table", f"{what}: the row of {rid} is {got_row}; the loop removal for that reaction answers {want_row}" + ("" if (rid, "min") in calls and (rid, "max") in calls else f" - it was asked for {sorted(set(calls))} only: the plain LP values are handed out as loopless"))
    # two analyses in one process, on two models that share their reaction identifiers: every step of the second one
    # has to act on the second model's own variables (nothing about a model is remembered from one call to the next)
    it = Interp(prog, NATIVE, FOLLOW, STUBS, globals_={"Zero": Lin()})
    first_model, second_model = _model("max"), _model("max")
    what = "flux_variability_analysis on a second model (same reaction identifiers) after a first one in the same process"
    try:
        _run(what, lambda: it.call(fn, [first_model], {"fraction_of_optimum": 1.0, "processes": 1}))
        first_model.script.log.clear()
        first_obj = dict(first_model.solver.objective.expression.terms)
        _run(what, lambda: it.call(fn, [second_model], {"fraction_of_optimum": 1.0, "processes": 1}))
    except EvalRaise as exc:
        problems.setdefault("raise", f"{what} raises {exc.exc_type}")
    else:
        own = [x for r in second_model.reactions for x in (r.forward_variable, r.reverse_variable)]
        for kind, rid, d, f, val in [e for e in second_model.script.log if e[0] == "flux"]:
            foreign = [v.name for v in f.objective_terms if not any(v is x for x in own)]
            if foreign:
                problems.setdefault("objective", f"{what}: the {d}imisation of {rid} puts variables of the *first* model into the objective ({foreign[:2]}): what a worker remembers about one model is used for the next")
                break
        steps = {rid for kind, rid, d, f, val in second_model.script.log if kind == "flux"}
        if steps != {r.id for r in second_model.reactions}:
            problems.setdefault("objective", f"{what}: only {sorted(steps)} of the second model's reactions are optimised")
        if dict(first_model.solver.objective.expression.terms) != first_obj or first_model.script.log:
            problems.setdefault("restore", f"{what}: the second analysis changes (or solves) the first model")
        n += 1
    for clause, text in (("optimum", "the held optimum is that of the model's objective on the untouched model"), ("restrictions", "every step runs under exactly: objective held at fraction x optimum on the right side (+ total flux <= pfba_factor x smallest total)"),
                         ("pfba", "the smallest total flux is computed under the objective held at the requested fraction only"), ("objective", "each step optimises the flux of one requested reaction, both directions, nothing else"),
                         ("table", "row = requested id, minimum/maximum = the optima of that reaction's own problems"), ("restore", "the model is restored"), ("raise", "no scenario raises")):
        target = step if clause in ("objective",) else fn
        if clause in problems:
            ctx.bad(rule, target, f"FVA {clause}", problems[clause])
        else:
            ctx.ok(rule, target, f"FVA {clause}", f"{n} scenarios: {text}")


def _show(cons) -> str:
    out = []
    for key, lb, ub in cons:
        names = sorted(n for n, _ in key)
        label = "total flux" if len(names) == 8 else ("the objective" if {"R_a", "R_b"} <= {n.replace("_reverse", "") for n in names} and len(names) == 4 else " + ".join(f"{k:g}*{n}" for n, k in key))
        out.append(f"{'' if lb is None else f'{lb:g} <= '}{label}{'' if ub is None else f' <= {ub:g}'}")
    return "{" + "; ".join(out) + "}" if out else "{no restriction}"
