"""C16 - every flux sample is a feasible flux distribution (structural clauses)."""
from __future__ import annotations

import ast
import math
from typing import Dict, List

from .. import AnalysisError
from ..absint import EvalRaise, EvalReturn, Evaluator, Opaque, Unknown
from ..cfg import no_exc
from ..effects import CONST, FRESH
from ..program import FuncInfo, ancestors, enclosing_stmt, norm, walk_local
from . import c01, fa

EXPLANATION = (
    "Decided structurally: (private) the sampler keeps a private copy of the model and only reads the caller's "
    "model; (map) the forward/reverse index maps are built by looking every reaction's own forward/reverse "
    "variable up in the solver's variable order, over the same self.model.reactions iteration that produces the "
    "column names, and returned fluxes are X[:, fwd_idx] - X[:, rev_idx]; (bounds) constraint_matrices maps a "
    "missing bound (None) - and only a missing bound - to -/+inf, equalities when ub - lb < tolerance, evaluated "
    "over None/zero/non-zero bounds; (random) randomness comes from np.random only and every sampling entry seeds "
    "it from the sampler's seed before the first draw (ACHR at construction, OptGP per chain with the chain "
    "index); (count) OptGP rounds n up to a multiple of the process count and uses the rounded n for its "
    "bookkeeping; warm-up set-up resets the objective coefficients of each step. NOT decided: feasibility of the "
    "random walk, validate() numerics, projection accuracy."
)
ASSUMPTIONS = ["numpy's global generator is deterministic for a fixed seed", "the solver's variable order is stable while the sampler exists"]


def check_map(ctx) -> None:
    prog = ctx.prog
    fn = prog.func("cobra.sampling.hr_sampler", "HRSampler.__init__")
    assigns = {}
    for n in walk_local(fn.node):
        if isinstance(n, ast.Assign) and isinstance(n.targets[0], ast.Attribute) and n.targets[0].attr in ("fwd_idx", "rev_idx"):
            assigns[n.targets[0].attr] = n
    for attr, want in (("fwd_idx", "forward_variable"), ("rev_idx", "reverse_variable")):
        a = assigns.get(attr)
        if a is None:
            ctx.bad("C16.map", fn, fn.node, f"self.{attr} is no longer built in HRSampler.__init__")
            continue
        comps = [c for c in ast.walk(a.value) if isinstance(c, (ast.ListComp, ast.GeneratorExp))]
        ok = False
        for c in comps:
            gen = c.generators[0]
            v = gen.target.id if isinstance(gen.target, ast.Name) else "?"
            elt = c.elt
            if norm(gen.iter) == "self.model.reactions" and isinstance(elt, ast.Subscript) and norm(elt.slice) == f"{v}.{want}" and not gen.ifs:
                idx_map = elt.value
                if isinstance(idx_map, ast.Name) and _is_variable_index(ctx, fn, idx_map.id):
                    ok = True
        if ok:
            ctx.ok("C16.map", fn, a, f"{attr}: position of each reaction's own {want} in the solver's variable order, over all reactions")
        else:
            ctx.bad("C16.map", fn, a, f"self.{attr} is not obtained by looking up each reaction's {want} in the variable order: with any extra solver variable the reaction columns are wrong")
    for mod, short in (("cobra.sampling.achr", "ACHRSampler.sample"), ("cobra.sampling.optgp", "OptGPSampler.sample")):
        f = prog.func(mod, short)
        names = [n for n in walk_local(f.node) if isinstance(n, ast.Assign) and norm(n.targets[0]) == "names"]
        flux_names = [n for n in names if "self.model.reactions" in norm(n.value)]
        var_names = [n for n in names if "self.model.variables" in norm(n.value)]
        if flux_names and var_names:
            ctx.ok("C16.map", f, flux_names[0], "flux columns are named by iterating self.model.reactions, variable columns by self.model.variables")
        else:
            ctx.bad("C16.map", f, f.node, "column names are not produced by the same self.model.reactions / self.model.variables iteration that defines the index maps")
        subs = [n for n in walk_local(f.node) if isinstance(n, ast.BinOp) and isinstance(n.op, (ast.Sub, ast.Add)) and "fwd_idx" in norm(n) and "rev_idx" in norm(n)]
        if subs and all(isinstance(s.op, ast.Sub) and "fwd_idx" in norm(s.left) and "rev_idx" in norm(s.right) for s in subs):
            ctx.ok("C16.map", f, subs[0], "flux = forward columns - reverse columns")
        else:
            ctx.bad("C16.map", f, subs[0] if subs else f.node, "returned fluxes are not forward columns minus reverse columns")


def _is_variable_index(ctx, fn: FuncInfo, name: str) -> bool:
    owner, defs = ctx.inf.lookup_name(fn, name)
    for d in defs:
        if d.kind == "assign" and isinstance(d.value, ast.DictComp):
            dc = d.value
            gen = dc.generators[0]
            if isinstance(gen.iter, ast.Call) and norm(gen.iter.func) == "enumerate" and norm(gen.iter.args[0]) == "self.model.variables":
                if isinstance(gen.target, ast.Tuple) and norm(dc.key) == gen.target.elts[1].id and norm(dc.value) == gen.target.elts[0].id:
                    return True
    return False


def check_build_problem(ctx) -> None:
    """HRSampler.__build_problem evaluated on the matrices of a stand-in problem (constraint_matrices, nullspace and
    the shared-memory wrapper are stand-ins): the sampling problem it hands to the samplers describes the same region -
    every equality with its right-hand side, every inequality row with its own bounds (a row may only be left out when
    the variable bounds alone already imply it, decided here by interval arithmetic), every variable bound, the
    fixed-variable flags; a fixed non-zero variable becomes an equality."""
    from ..interp import Interp
    from .. import ndmodel
    from ..ndmodel import NA

    prog = ctx.prog
    fns = prog.find_method(prog.cls("HRSampler"), "_HRSampler__build_problem") or prog.find_method(prog.cls("HRSampler"), "__build_problem")
    if not fns:
        raise AnalysisError("C16.problem: HRSampler.__build_problem not found")
    fn = fns[0]

    class _S:
        pass

    class _Obj(_S):
        def __init__(self, **kw):
            self.__dict__.update(kw)

    class _Ctx(_S):
        _absint_context = True

        def _absint_enter(self):
            return self

        def _absint_exit(self):
            return None

    inf_ = float("inf")
    problems: List[str] = []
    n = 0
    for fixed_value in (0.0, 2.5):
        vb = [[-10.0, 10.0], [0.0, 5.0], [-3.0, 0.0], [fixed_value, fixed_value]]
        rows = [([1.0, 0.0, 0.0, 0.0], (-inf_, 1.0)), ([-1.0, 0.0, 0.0, 0.0], (-inf_, 1.0)), ([0.0, 1.0, -0.5, 0.0], (-inf_, 0.5)), ([1.0, 1.0, 1.0, 0.0], (-2.0, 3.0)), ([0.0, 1.0, 0.0, 0.0], (-1.0, 6.0)),
                ([0.0, -2.0, 1.0, 1.0], (-4.0, inf_))]
        eq = [[1.0, -1.0, 0.0, 0.0]]
        prob = _Obj(equalities=NA(eq), b=NA([0.0]), inequalities=NA([r for r, _ in rows]), bounds=NA([list(b) for _, b in rows]), variable_fixed=NA([False, False, False, True]), variable_bounds=NA(vb))
        stubs = {k: (lambda f_: (lambda it_, ev, c, a, kw: f_(*a, **kw)))(f) for k, f in ndmodel.NUMPY.items()}
        stubs["cobra.util.array.constraint_matrices"] = lambda it_, ev, c, a, kw: prob
        stubs["cobra.util.constraint_matrices"] = stubs["cobra.util.array.constraint_matrices"]
        stubs["cobra.util.array.nullspace"] = lambda it_, ev, c, a, kw: NA([[0.0] for _ in range(4)])
        stubs["cobra.util.nullspace"] = stubs["cobra.util.array.nullspace"]
        stubs["cobra.sampling.hr_sampler.shared_np_array"] = lambda it_, ev, c, a, kw: (a[1].copy() if isinstance(a[1], NA) else a[1])
        stubs["cobra.sampling.hr_sampler.Problem"] = lambda it_, ev, c, a, kw: _Obj(**kw)
        stubs["numpy.errstate"] = lambda it_, ev, c, a, kw: _Ctx()
        helpers = [f.qualname for f in prog.all_funcs() if f.qualname.startswith("cobra.sampling.hr_sampler.") and f.parent is None and f.cls is None and f.qualname not in stubs]
        from ..interp import ExtFunc

        it = Interp(prog, (_S, NA, ndmodel.NScalar), helpers, stubs, globals_={"Problem": ExtFunc(lambda *aa, **k: _Obj(**k), "Problem")})
        it.strict_calls = True
        me = _Obj(model=_Obj(), feasibility_tol=1e-6)
        what = f"HRSampler.__build_problem (a variable fixed at {fixed_value:g})"
        try:
            out = it.call(fn, [], {}, selfobj=me)
        except EvalRaise as exc:
            problems.append(f"{what} raises {exc.exc_type}")
            continue
        except Unknown as exc:
            raise AnalysisError(f"C16.problem: {what} cannot be evaluated: {exc}")
        except (ndmodel.Unsupported, TypeError, AttributeError, IndexError, ValueError) as exc:
            raise AnalysisError(f"C16.problem: {what} uses an array operation outside the array model: {type(exc).__name__}: {exc}")
        n += 1
        if not isinstance(out, _Obj):
            raise AnalysisError(f"C16.problem: {what} did not return a Problem ({type(out).__name__})")
        lst = lambda v: v.tolist() if isinstance(v, NA) else v  # noqa: E731
        got_rows = lst(getattr(out, "inequalities", None)) or []
        got_b = lst(getattr(out, "bounds", None)) or []
        if got_rows and not isinstance(got_rows[0], list):
            got_rows = [got_rows]
        # bounds: 2 x k (first row lower, second row upper)
        if got_b and len(got_b) == 2 and all(isinstance(x, list) for x in got_b):
            got_pairs = list(zip(got_b[0], got_b[1]))
        else:
            got_pairs = []
        if len(got_pairs) != len(got_rows):
            problems.append(f"{what}: {len(got_rows)} inequality rows but bounds of shape {getattr(getattr(out, 'bounds', None), 'shape', None)} (expected 2 x rows)")
            continue
        have = [(tuple(r), tuple(b)) for r, b in zip(got_rows, got_pairs)]
        for r, b in rows:
            if (tuple(r), tuple(b)) in have:
                continue
            lo = sum(k * (vb[j][0] if k > 0 else vb[j][1]) for j, k in enumerate(r) if k)
            hi = sum(k * (vb[j][1] if k > 0 else vb[j][0]) for j, k in enumerate(r) if k)
            if lo >= b[0] and hi <= b[1]:
                continue  # implied by the variable bounds
            problems.append(f"{what}: the constraint {b[0]} <= {r} . x <= {b[1]} (its activity ranges over [{lo:g}, {hi:g}] inside the variable bounds) is not part of the sampling problem: samples leave it, and validate() works on the same matrices")
        for r, b in have:
            if (list(r), tuple(b)) not in [(rr, tuple(bb)) for rr, bb in rows]:
                problems.append(f"{what}: the sampling problem has the row {b[0]} <= {list(r)} . x <= {b[1]}, which is no constraint of the model")
        got_vb = lst(getattr(out, "variable_bounds", None))
        if got_vb != [[x[0] for x in vb], [x[1] for x in vb]]:
            problems.append(f"{what}: variable bounds {got_vb!r:.120}, expected lower and upper row of {vb}")
        if [bool(x) for x in (lst(getattr(out, "variable_fixed", None)) or [])] != [False, False, False, True]:
            problems.append(f"{what}: the fixed-variable flags are {lst(getattr(out, 'variable_fixed', None))}")
        want_eq, want_b = ([eq[0], [0.0, 0.0, 0.0, 1.0]], [0.0, fixed_value]) if fixed_value else (eq, [0.0])
        if lst(getattr(out, "equalities", None)) != want_eq or lst(getattr(out, "b", None)) != want_b:
            problems.append(f"{what}: equalities {lst(getattr(out, 'equalities', None))} = {lst(getattr(out, 'b', None))}, expected {want_eq} = {want_b}")
        if bool(getattr(out, "homogeneous", None)) != (not fixed_value):
            problems.append(f"{what}: homogeneous = {getattr(out, 'homogeneous', None)!r}")
    if problems:
        ctx.bad("C16.problem", fn, fn.node, problems[0] + (f" (+{len(problems) - 1} more)" if len(problems) > 1 else ""))
    else:
        ctx.ok("C16.problem", fn, "sampling problem", f"{n} problems: the matrices handed to the samplers hold every equality, every inequality row with its own bounds (or one the variable bounds imply is left out), the variable bounds and flags; a fixed non-zero variable becomes an equality (evaluated)")


def check_bounds_eval(ctx) -> None:
    """constraint_matrices evaluated as a whole on a stand-in problem (3 variables, one of them fixed; constraints over
    every pattern of missing / negative / zero / positive / large bounds) and compared field by field with the
    matrices written down independently here."""
    from ..interp import ExtFunc, Interp
    from .. import ndmodel
    from ..ndmodel import NA

    prog = ctx.prog
    fn = prog.func("cobra.util.array", "constraint_matrices")

    class _S:
        pass

    class _Obj(_S):
        def __init__(self, **kw):
            self.__dict__.update(kw)

    class _Con(_S):
        def __init__(self, lb, ub, co):
            self.lb, self.ub, self.co = lb, ub, co

        def get_linear_coefficients(self, variables):
            return {v: self.co.get(v.name, 0.0) for v in variables}

    inf_ = float("inf")
    tol = 1e-6
    pairs = [(lb, ub) for lb in (None, -2.0, 0.0, 2.0) for ub in (None, -2.0, 0.0, 2.0) if lb is None or ub is None or lb <= ub]
    pairs += [(1e6, 1e6 + 5.0), (-1e6 - 3.0, -1e6), (1e6, 1e6), (3e-7, 3e-7)]
    variables = [_Obj(name="x0", lb=-1.0, ub=1.0), _Obj(name="x1", lb=2.0, ub=2.0), _Obj(name="x2", lb=0.0, ub=1000.0)]
    cons = [_Con(lb, ub, {"x0": float(i + 1), "x2": -0.5 * (i + 1)}) for i, (lb, ub) in enumerate(pairs)]
    model = _Obj(variables=variables, constraints=cons)
    want = {"equalities": [], "b": [], "inequalities": [], "bounds": [], "variable_fixed": [False, True, False], "variable_bounds": [[-1.0, 1.0], [2.0, 2.0], [0.0, 1000.0]]}
    for i, (lb, ub) in enumerate(pairs):
        wl, wu = (-inf_ if lb is None else lb), (inf_ if ub is None else ub)
        row = [float(i + 1), 0.0, -0.5 * (i + 1)]
        if wu - wl < tol:
            want["equalities"].append(row)
            want["b"].append(wl if abs(wl) > tol else 0.0)
        else:
            want["inequalities"].append(row)
            want["bounds"].append([wl, wu])
    stubs = {k: (lambda f_: (lambda it_, ev, c, a, kw: f_(*a, **kw)))(f) for k, f in ndmodel.NUMPY.items()}
    stubs["typing.NamedTuple"] = lambda it_, ev, c, a, kw: ExtFunc(lambda *aa, **k: _Obj(**k) if not aa else _Obj(**dict(zip(FIELDS, aa), **k)), "Problem")
    FIELDS = ["equalities", "b", "inequalities", "bounds", "variable_fixed", "variable_bounds"]
    it = Interp(prog, (_S, NA), [], stubs, globals_={})
    try:
        got = it.call(fn, [model], {"array_type": "dense", "zero_tol": tol})
    except EvalRaise as exc:
        ctx.bad("C16.bounds", fn, fn.node, f"constraint_matrices raises {exc.exc_type} on a problem with {len(cons)} constraints over every bound pattern")
        return
    except Unknown as exc:
        raise AnalysisError(f"C16.bounds: constraint_matrices cannot be evaluated: {exc}")
    except ndmodel.Unsupported as exc:
        raise AnalysisError(f"C16.bounds: constraint_matrices uses an array operation outside the array model: {exc}")
    problems = []
    for f in FIELDS:
        v = getattr(got, f, None) if isinstance(got, _Obj) else (got[FIELDS.index(f)] if isinstance(got, tuple) and len(got) == len(FIELDS) else None)
        lst = v.tolist() if isinstance(v, NA) else v
        if isinstance(lst, list) and not want[f] and lst in ([], [[]]):
            continue
        if lst != want[f]:
            k = next((i for i, (g, w) in enumerate(zip(lst, want[f])) if g != w), None) if isinstance(lst, list) and len(lst) == len(want[f]) else None
            problems.append(f"field `{f}` is {lst!r:.160}, expected {want[f]!r:.160}" if k is None else f"field `{f}`, row {k}: {lst[k]!r}, expected {want[f][k]!r}")
    if problems:
        ctx.bad("C16.bounds", fn, fn.node, f"the matrices built for the sampler differ from the problem: {problems[0]}" + (f" (+{len(problems) - 1} more field(s))" if len(problems) > 1 else "") + ": the sampler then ignores (or invents) a bound")
    else:
        ctx.ok("C16.bounds", fn, "matrices", f"{len(cons)} constraints over every bound pattern, 3 variables: equalities/b, inequalities/bounds, fixed flags and variable bounds as written down independently (evaluated as a whole)")


def check_bounds(ctx) -> None:
    prog = ctx.prog
    fn = prog.func("cobra.util.array", "constraint_matrices")
    loops = [n for n in walk_local(fn.node) if isinstance(n, ast.For) and norm(n.iter) == "model.constraints"]
    if not loops:
        raise AnalysisError("constraint_matrices: loop over the constraints not found")
    lp = loops[0]
    var = lp.target.id
    inf_ = float("inf")
    problems = []
    cases = 0
    pairs = [(lb, ub) for lb in (None, -2.0, 0.0, 2.0) for ub in (None, -2.0, 0.0, 2.0)]
    # wide in absolute terms, narrow relative to its magnitude: still a range, not an equality
    pairs += [(1e6, 1e6 + 5.0), (-1e6 - 3.0, -1e6), (1e6, 1e6)]
    for lb, ub in pairs:
        if True:
            if lb is not None and ub is not None and lb > ub:
                continue
            cases += 1
            appended: Dict[str, list] = {}

            def on_attr(ev, a: ast.Attribute):
                if isinstance(a.value, ast.Name) and a.value.id == var:
                    if a.attr == "lb":
                        return lb
                    if a.attr == "ub":
                        return ub
                t = norm(a)
                if t in ("np.inf", "numpy.inf"):
                    return inf_
                return NotImplemented

            def on_call(ev, c: ast.Call):
                f = c.func
                if isinstance(f, ast.Attribute) and f.attr == "append" and isinstance(f.value, ast.Name):
                    appended.setdefault(f.value.id, []).append(ev.eval(c.args[0]))
                    return None
                if isinstance(f, ast.Attribute) and f.attr == "get_linear_coefficients":
                    return Opaque("coefs")
                if norm(f) in ("np.isclose", "numpy.isclose", "math.isclose", "isclose") and len(c.args) >= 2:
                    x, y = ev.eval(c.args[0]), ev.eval(c.args[1])
                    kw = {k.arg: ev.eval(k.value) for k in c.keywords}
                    if abs(x) == inf_ or abs(y) == inf_:
                        return x == y
                    if norm(f).startswith("math") or norm(f) == "isclose":
                        rt, at = kw.get("rel_tol", 1e-9), kw.get("abs_tol", 0.0)
                        return abs(x - y) <= max(rt * max(abs(x), abs(y)), at)
                    rt, at = kw.get("rtol", 1e-5), kw.get("atol", 1e-8)
                    return abs(x - y) <= at + rt * abs(y)
                return NotImplemented

            ev = Evaluator({"zero_tol": 1e-6}, on_attr=on_attr, on_call=on_call)
            try:
                for st in lp.body:
                    try:
                        fa._run_stmt(ev, st)
                    except Unknown:
                        if isinstance(st, ast.Assign) and isinstance(st.targets[0], ast.Name):
                            ev.env[st.targets[0].id] = Opaque(st.targets[0].id)
                        else:
                            raise
            except (Unknown, EvalRaise) as exc:
                raise AnalysisError(f"C16.bounds: constraint_matrices cannot be evaluated: {exc}")
            wl = -inf_ if lb is None else lb
            wu = inf_ if ub is None else ub
            if (wu - wl) < 1e-6:
                want = {"b": [wl if abs(wl) > 1e-6 else 0.0]}
                got = {k: v for k, v in appended.items() if k == "b"}
                if "inequality_bounds" in appended:
                    got["inequality_bounds"] = appended["inequality_bounds"]
            else:
                want = {"inequality_bounds": [[wl, wu]]}
                got = {k: v for k, v in appended.items() if k in ("inequality_bounds", "b")}
            if got != want:
                problems.append(f"constraint bounds ({lb}, {ub}): recorded {got} (expected {want})")
    if problems:
        ctx.bad("C16.bounds", fn, lp, f"{len(problems)} of {cases} bound patterns are recorded wrongly, e.g. {problems[0]}: the sampler then ignores (or invents) a constraint bound")
    else:
        ctx.ok("C16.bounds", fn, lp, f"{cases} patterns over None/zero/non-zero: only a missing bound becomes infinite; equalities go to b, the rest to the inequality bounds")
    vb = [n for n in walk_local(fn.node) if isinstance(n, ast.Assign) and norm(n.targets[0]) == "var_bounds"]
    if vb and "v.lb" in norm(vb[0].value) and "v.ub" in norm(vb[0].value) and "model.variables" in norm(vb[0].value):
        ctx.ok("C16.bounds", fn, vb[0], "variable bounds taken as (lb, ub) in the solver's variable order")
    else:
        ctx.bad("C16.bounds", fn, vb[0] if vb else fn.node, "variable bounds are not recorded as (lb, ub) per solver variable")


def check_random(ctx) -> None:
    prog = ctx.prog
    mods = ["cobra.sampling.hr_sampler", "cobra.sampling.achr", "cobra.sampling.optgp", "cobra.sampling.core", "cobra.sampling.sampling"]
    draws = 0
    for m in mods:
        unit = prog.unit(m)
        for fn in [f for f in prog.all_funcs() if f.unit is unit]:
            for n in walk_local(fn.node):
                if isinstance(n, ast.Call):
                    f = norm(n.func)
                    if f.startswith(("random.", "secrets.")) or "default_rng" in f or "RandomState" in f or f in ("time", "time.time") and fn.short != "HRSampler.__init__":
                        ctx.bad("C16.random", fn, n, f"`{f}` is a source of randomness/time outside numpy's seeded global generator: samples are not reproducible for a fixed seed")
                    elif f.startswith(("np.random.", "numpy.random.")) and not f.endswith(".seed"):
                        draws += 1
    ctx.ok("C16.random", None, "sampling package", f"{draws} random draws, all through numpy's global generator")
    init = prog.func("cobra.sampling.hr_sampler", "HRSampler.__init__")
    seeds = [n for n in walk_local(init.node) if isinstance(n, ast.Assign) and norm(n.targets[0]) == "self._seed"]
    if any(norm(s.value) == "seed" for s in seeds) and any(isinstance(a, ast.If) and norm(a.test) == "seed is None" for s in seeds for a in ancestors(s)):
        ctx.ok("C16.random", init, seeds[0], "the user's seed is kept; a time-based seed is used only when none is given")
    else:
        ctx.bad("C16.random", init, seeds[0] if seeds else init.node, "the user's seed is not stored as the sampler's seed (or replaced when it is given)")
    achr = prog.func("cobra.sampling.achr", "ACHRSampler.__init__")
    s2 = [n for n in walk_local(achr.node) if isinstance(n, ast.Call) and norm(n.func) in ("np.random.seed", "numpy.random.seed")]
    if s2 and "_seed" in norm(s2[0].args[0]):
        ctx.ok("C16.random", achr, s2[0], "ACHR seeds numpy's generator from the sampler's seed at construction")
    else:
        ctx.bad("C16.random", achr, achr.node, "ACHRSampler does not seed the generator from its seed: samples differ between runs")
    fa.check_seed(ctx, "C16.random")


def check_count_eval(ctx) -> None:
    """OptGPSampler.sample evaluated for process counts 1..4 and requests 1, 4, 5, 7 (pool stand-in, chain function
    replaced by a recorder that hands back distinguishable rows): the chains are (ceil(n / processes), index) for every
    index 0..processes-1 exactly once, the frame holds every drawn row once, and the sample counter and the running
    centre are advanced by the rows actually drawn."""
    from ..interp import Interp
    from .. import ndmodel
    from ..ndmodel import NA
    import math

    prog = ctx.prog
    fn = prog.func("cobra.sampling.optgp", "OptGPSampler.sample")

    class _S:
        pass

    class _Obj(_S):
        def __init__(self, **kw):
            self.__dict__.update(kw)

    problems = []
    cases = 0
    for procs in (1, 2, 3, 4):
        for n in (1, 4, 5, 7):
            for fluxes in (False, True):
                cases += 1
                calls = []
                frames = []

                def chain(it_, ev, c, a, kw):
                    n_i, idx = a[0]
                    if not isinstance(n_i, int) or isinstance(n_i, bool) or n_i < 0:
                        raise EvalRaise("TypeError", c)
                    calls.append((n_i, idx))
                    return (idx + 1, NA([[100.0 * (idx + 1) + k, 1.0 + idx] for k in range(n_i)]) if n_i else ndmodel._empty((0, 2)))

                def frame(it_, ev, c, a, kw):
                    frames.append((a[0] if a else kw.get("data"), kw.get("columns")))
                    return frames[-1]

                model = _Obj(reactions=[_Obj(id="R0")], variables=[_Obj(name="x0"), _Obj(name="x1")])
                sampler = _Obj(processes=procs, n_samples=3, center=NA([1.0, 2.0]), retries=5, fwd_idx=[0], rev_idx=[1], model=model)
                stubs = {k: (lambda f_: (lambda it_, ev, c, a, kw: f_(*a, **kw)))(f) for k, f in ndmodel.NUMPY.items()}
                stubs["cobra.sampling.optgp._sample_chain"] = chain
                stubs["cobra.sampling.optgp.mp_init"] = lambda it_, ev, c, a, kw: None
                stubs["pandas.DataFrame"] = frame
                it = Interp(prog, (_S, NA, ndmodel.NScalar), [], stubs, globals_={"int": int, "float": float})
                label = f"processes={procs}, n={n}, fluxes={fluxes}"
                try:
                    got = it.call(fn, [n], {"fluxes": fluxes}, selfobj=sampler)
                except EvalRaise as exc:
                    problems.append(f"{label}: sample() raises {exc.exc_type}")
                    continue
                except Unknown as exc:
                    raise AnalysisError(f"C16.count: OptGPSampler.sample cannot be evaluated: {exc}")
                except ndmodel.Unsupported as exc:
                    raise AnalysisError(f"C16.count: OptGPSampler.sample uses an array operation outside the array model: {exc}")
                per = math.ceil(n / procs)
                want_calls = sorted((per, i) for i in range(procs))
                if sorted(calls) != want_calls:
                    problems.append(f"{label}: chains started with (length, index) {sorted(calls)}, expected {want_calls}: every process draws ceil(n / processes) samples under its own index (the index makes the seeds differ)")
                    continue
                drawn = sorted([100.0 * (i + 1) + k, 1.0 + i] for _, i in calls for k in range(per))
                total = len(drawn)
                if not frames or got is not frames[-1]:
                    problems.append(f"{label}: the result is not the frame built from the chains")
                    continue
                data, cols = got
                rows = data.tolist() if isinstance(data, NA) else None
                if fluxes:
                    want_rows = sorted([r[0] - r[1]] for r in drawn)
                    want_cols = ["R0"]
                else:
                    want_rows, want_cols = drawn, ["x0", "x1"]
                if rows is None or sorted(rows) != want_rows or list(cols or []) != want_cols:
                    problems.append(f"{label}: the frame has {len(rows) if rows is not None else '?'} row(s) for {total} drawn sample(s), or other values/columns than the chains returned")
                    continue
                if sampler.n_samples != 3 + total:
                    problems.append(f"{label}: the sample counter advanced by {sampler.n_samples - 3} for {total} drawn sample(s): the running centre is weighted wrongly from then on")
                    continue
                centre = sampler.center.tolist() if isinstance(sampler.center, NA) else sampler.center
                want_centre = [(3 * c0 + sum(r[j] for r in drawn)) / (3 + total) for j, c0 in enumerate((1.0, 2.0))]
                flat = centre[0] if isinstance(centre, list) and centre and isinstance(centre[0], list) else centre
                if not (isinstance(flat, list) and len(flat) == 2 and all(abs(a - b) < 1e-9 for a, b in zip(flat, want_centre))):
                    problems.append(f"{label}: the centre after the call is {centre}, the mean over the {3 + total} samples seen is {want_centre}")
                    continue
                if procs > 1 and sampler.retries != 5 + sum(i + 1 for _, i in calls):
                    problems.append(f"{label}: retries of the chains are not added up ({sampler.retries})")
    if problems:
        ctx.bad("C16.count", fn, fn.node, f"{len(problems)} of {cases} cases wrong, e.g. {problems[0]}")
    else:
        ctx.ok("C16.count", fn, "count bookkeeping", f"{cases} cases (1-4 processes x 4 requests x both spaces): chains (ceil(n/p), i) for every i once; frame, counter and centre account for exactly the drawn rows (evaluated)")
    return not problems


def check_count(ctx) -> None:
    prog = ctx.prog
    fn = prog.func("cobra.sampling.optgp", "OptGPSampler.sample")
    g = ctx.flow.cfg(fn)
    branch = [n for n in fn.node.body if isinstance(n, ast.If) and "processes > 1" in norm(n.test)]
    if not branch:
        raise AnalysisError("OptGPSampler.sample: the parallel branch was not found")
    b = branch[0]
    npp = [n for n in b.body if isinstance(n, ast.Assign) and "ceil" in norm(n.value) and "n / self.processes" in norm(n.value)]
    reassign = [n for n in b.body if isinstance(n, ast.Assign) and norm(n.targets[0]) == "n" and npp and norm(n.value) in (f"{norm(npp[0].targets[0])} * self.processes", f"self.processes * {norm(npp[0].targets[0])}")]
    if npp and reassign:
        ctx.ok("C16.count", fn, reassign[0], "n is rounded up to a multiple of the process count and the rounded value replaces n")
    elif npp:
        ctx.bad("C16.count", fn, npp[0], "the per-process count is rounded up but n itself keeps the requested value: the centre and the sample counter are updated with a number that differs from the rows actually drawn")
    else:
        ctx.bad("C16.count", fn, b, "the number of samples per process is not ceil(n / processes)")
    uses = [n for n in walk_local(fn.node) if isinstance(n, (ast.Assign, ast.AugAssign)) and ("self.n_samples" in norm(n) or "self.center" in norm(n))]
    if uses and all("n" in {x.id for x in ast.walk(u) if isinstance(x, ast.Name)} for u in uses):
        ctx.ok("C16.count", fn, uses[0], "centre and sample counter are updated with n")
    else:
        ctx.bad("C16.count", fn, uses[0] if uses else fn.node, "centre / sample counter are not updated with the number of samples drawn")
    args = [n for n in b.body if isinstance(n, ast.Assign) and norm(n.targets[0]) == "args"]
    if args and npp and norm(npp[0].targets[0]) in norm(args[0].value) and "range(self.processes)" in norm(args[0].value):
        ctx.ok("C16.count", fn, args[0], "one task per process: (samples per process, chain index)")
    else:
        ctx.bad("C16.count", fn, args[0] if args else b, "the chains are not given (samples per process, chain index) for every process")


def check_count_both(ctx) -> None:
    """The evaluated clause decides; the reading of the parallel branch explains when it fails."""
    n0 = len(ctx.findings)
    d0 = len(ctx.deferred)
    ctx.guard(check_count_eval, ctx)
    failed = len(ctx.findings) > n0 or len(ctx.deferred) > d0
    ctx.explain(failed, check_count, ctx)


def check_warmup(ctx) -> None:
    prog = ctx.prog
    fn = prog.func("cobra.sampling.hr_sampler", "HRSampler.generate_fva_warmup")
    # the step may live in the function itself or in a method it was factored into
    scope = [fn]
    for n in walk_local(fn.node):
        if isinstance(n, ast.Call) and isinstance(n.func, ast.Attribute) and isinstance(n.func.value, ast.Name) and n.func.value.id == (fn.self_name or "self") and fn.cls is not None:
            scope += [m for m in prog.find_method(fn.cls, n.func.attr) if m not in scope]
    sets = [(f, n) for f in scope for n in walk_local(f.node) if isinstance(n, ast.Call) and isinstance(n.func, ast.Attribute) and n.func.attr == "set_linear_coefficients" and n.args and isinstance(n.args[0], ast.Dict)]
    vals = [[norm(v) for v in s.args[0].values] for _, s in sets]
    if not sets:
        ctx.note("C16.warmup: no objective-coefficient dictionaries found in generate_fva_warmup or the methods it calls; the step is not read (spelling not recognised)")
        return
    if ["1", "-1"] in vals and ["0", "0"] in vals:
        ctx.ok("C16.warmup", sets[0][0], sets[0][1], "each warm-up step sets {fwd: 1, rev: -1} and resets the pair to zero")
    else:
        ctx.bad("C16.warmup", sets[0][0], sets[0][1], f"warm-up steps do not set {{fwd: 1, rev: -1}} and reset it ({vals}): later warm-up points optimise a sum of reactions")
    keys = [[norm(k) for k in s.args[0].keys] for _, s in sets]
    sets = [s for _, s in sets]
    if keys and all(k == ["variables[0]", "variables[1]"] for k in keys):
        va = [n for f in scope for n in walk_local(f.node) if isinstance(n, ast.Assign) and norm(n.targets[0]) == "variables"]
        if not va:
            ctx.note("C16.warmup: the stepped pair is built in a way that is not read (spelling not recognised)")
        elif "self.fwd_idx[i]" in norm(va[0].value) and "self.rev_idx[i]" in norm(va[0].value) and norm(va[0].value).index("fwd_idx") < norm(va[0].value).index("rev_idx"):
            ctx.ok("C16.warmup", fn, va[0], "the stepped pair is (forward, reverse) variable of reaction i through the index maps")
        else:
            ctx.bad("C16.warmup", fn, va[0] if va else fn.node, "the stepped variable pair is not (forward, reverse) of reaction i")


def check_argument_names(ctx) -> None:
    """An argument variable that is named like a parameter of the callee is bound to that parameter. (A seed handed
    over positionally to a constructor whose third parameter is `nproj` seeds nothing: the chain starts from the clock.)"""
    from ..effects import bind_args

    prog, inf = ctx.prog, ctx.inf
    n = 0
    for fn in prog.all_funcs():
        if not fn.qualname.startswith("cobra.sampling."):
            continue
        for c in walk_local(fn.node):
            if not isinstance(c, ast.Call) or not c.args:
                continue
            for callee, recv in inf.call_targets(fn, c):
                if callee.name == "__init__" or callee.is_method:
                    skip_self = True
                else:
                    skip_self = False
                try:
                    bound = bind_args(callee, c, skip_self=skip_self)
                except Exception:
                    continue
                params = set(callee.params)
                for p, arg in bound.items():
                    if p == "__unbound__" or not isinstance(arg, ast.Name) or arg not in c.args:
                        continue
                    n += 1
                    if arg.id in params and arg.id != p:
                        ctx.bad("C16.random", fn, c, f"`{arg.id}` is handed to {callee.short} positionally and lands in its parameter `{p}`; the callee's own `{arg.id}` keeps its default" + (": the chain is seeded from the clock, so the same seed gives different samples" if arg.id == "seed" else ""))
                    else:
                        ctx.ok("C16.random", fn, c, f"positional `{arg.id}` -> parameter `{p}` of {callee.short}", nontrivial=False)
    if n == 0:
        raise AnalysisError("C16: no positional arguments found in the sampling package")


def check_matrix_handling(ctx) -> None:
    """(a) `x.reshape(x.shape[::-1])` is not a transpose: for the (n, 2) bounds arrays it scrambles which number is the
    lower and which the upper bound of a constraint as soon as n > 1. (b) A matrix in solver-variable space is never
    projected to reaction space by taking the forward columns alone: flux = forward - reverse needs both."""
    prog = ctx.prog
    n = 0
    for fn in prog.all_funcs():
        if not fn.qualname.startswith("cobra.sampling."):
            continue
        for c in walk_local(fn.node):
            if isinstance(c, ast.Call) and isinstance(c.func, ast.Attribute) and c.func.attr == "reshape" and c.args:
                n += 1
                if any(isinstance(x, ast.Subscript) and isinstance(x.slice, ast.Slice) and x.slice.step is not None and norm(x.slice.step) == "-1" and "shape" in norm(x.value) for a in c.args for x in ast.walk(a)):
                    ctx.bad("C16.bounds", fn, c, f"`{norm(c)}` reshapes to the reversed shape, which is not a transpose: rows and columns are re-read in memory order, so lower and upper bounds of different constraints are mixed")
                else:
                    ctx.ok("C16.bounds", fn, c, "reshape to an explicit shape", nontrivial=False)
            if isinstance(c, ast.Subscript) and isinstance(c.ctx, ast.Load):
                txt = norm(c.slice)
                if "fwd_idx" in txt and "rev_idx" not in txt and "[i]" not in txt and "fwd_idx[" not in txt:
                    n += 1
                    st = enclosing_stmt(c)
                    if "rev_idx" in norm(st, 400):
                        ctx.ok("C16.map", fn, st, "forward columns are used together with the reverse columns", nontrivial=False)
                    else:
                        ctx.bad("C16.map", fn, st, f"`{norm(c)}` takes the forward columns alone: in reaction space a flux is forward minus reverse, so every term that sits in a reverse column (e.g. a reaction fixed at a negative flux) is lost")
    if n == 0:
        raise AnalysisError("C16: no reshape / forward-column selections found")


def check_validate(ctx) -> None:
    """HRSampler.validate evaluated on concrete small arrays (cobralint/ndmodel.py: values, shapes and numpy's
    broadcasting rule) and compared with an independent feasibility check written here: per sample, 'v' when every
    equality holds within the feasibility tolerance and every variable bound / inequality constraint within the bounds
    tolerance, else the letters l / u / e for a violated lower side, upper side, equality. Both spaces: solver
    variables (with two inequality constraints and right-hand sides of either sign) and reactions (metabolite
    balances with a non-zero right-hand side)."""
    from ..interp import Interp
    from .. import ndmodel
    from ..ndmodel import NA

    prog = ctx.prog
    fn = prog.func("cobra.sampling.hr_sampler", "HRSampler.validate")

    class _S:
        pass

    class _Obj(_S):
        def __init__(self, **kw):
            self.__dict__.update(kw)

    ftol, btol = 1e-6, 1e-6
    # variable space: 3 variables, 2 equalities (b = -0.5 and 2), 2 inequality constraints
    eq, b = [[1.0, -1.0, 0.0], [1.0, 0.0, 1.0]], [-0.5, 2.0]
    ineq, ib = [[1.0, 1.0, 0.0], [0.0, 1.0, -1.0]], [[1.0, -3.0], [9.0, 8.0]]
    vb = [[-10.0, -10.0, -5.0], [10.0, 10.0, 5.0]]
    samples_v = [[1.0, 1.5, 1.0], [8.0, 8.5, -6.0], [1.0, 1.5, 0.0], [-9.0, -8.5, 11.0], [0.25, 0.75, 1.75], [3.0, 3.5, -1.0], [1.0, 1.5, 1.0 + 5e-7], [-2.0, -1.5, 4.0], [1.0, 1.5, 3.0]]
    # reaction space: 2 reactions, 2 metabolites, balances S v = (1, -1)
    S, bm = [[1.0, -1.0], [0.0, 1.0]], [1.0, -1.0]
    rb = [(0.0, 10.0), (-5.0, 5.0)]
    samples_r = [[0.0, -1.0], [0.0, 0.0], [-1.0, -1.0], [12.0, 11.0], [-5.0, -6.0], [0.0, -1.0 - 5e-7]]

    def expected(rows, A, rhs, lo, hi, extra=None):
        out = []
        for x in rows:
            e = max(abs(sum(a * v for a, v in zip(r, x)) - t) for r, t in zip(A, rhs)) > ftol
            lows = [v - l for v, l in zip(x, lo)]
            ups = [h - v for v, h in zip(x, hi)]
            if extra is not None:
                rows_, (elo, ehi) = extra
                vals = [sum(a * v for a, v in zip(r, x)) for r in rows_]
                lows += [v - l for v, l in zip(vals, elo)]
                ups += [h - v for v, h in zip(vals, ehi)]
            l, u = min(lows) <= -btol, min(ups) <= -btol
            out.append(("v" if not (e or l or u) else "") + ("l" if l else "") + ("u" if u else "") + ("e" if e else ""))
        return out

    rxns = [_Obj(id=f"R{i}", bounds=bd, lower_bound=bd[0], upper_bound=bd[1]) for i, bd in enumerate(rb)]
    mets = [_Obj(id=f"M{i}") for i in range(2)]
    model = _Obj(reactions=rxns, variables=[_Obj(name=f"x{i}") for i in range(3)], metabolites=mets, constraints={f"M{i}": _Obj(lb=bm[i], ub=bm[i]) for i in range(2)})
    problem = _Obj(equalities=NA(eq), b=NA(b), inequalities=NA(ineq), bounds=NA(ib), variable_bounds=NA(vb), homogeneous=False)
    sampler = _Obj(model=model, problem=problem, feasibility_tol=ftol, bounds_tol=btol)
    stubs = {k: (lambda f_: (lambda it_, ev, c, a, kw: f_(*a, **kw)))(f) for k, f in ndmodel.NUMPY.items()}
    stubs["cobra.util.array.create_stoichiometric_matrix"] = lambda it_, ev, c, a, kw: NA(S)
    stubs["cobra.util.create_stoichiometric_matrix"] = stubs["cobra.util.array.create_stoichiometric_matrix"]
    problems = []
    for space, rows, want in (("solver-variable space (2 equalities with right-hand sides -0.5 and 2, 2 inequality constraints)", samples_v, expected(samples_v, eq, b, vb[0], vb[1], (ineq, ib))),
                              ("reaction space (balances with right-hand sides 1 and -1)", samples_r, expected(samples_r, S, bm, [x[0] for x in rb], [x[1] for x in rb]))):
        it = Interp(prog, (_S, NA), [], stubs, globals_={"str": str})
        try:
            got = it.call(fn, [NA(rows)], {}, selfobj=sampler)
        except EvalRaise as exc:
            problems.append(f"validate() of {len(rows)} samples in {space} raises {exc.exc_type}")
            continue
        except Unknown as exc:
            raise AnalysisError(f"C16.validate: HRSampler.validate cannot be evaluated: {exc}")
        except ndmodel.Unsupported as exc:
            raise AnalysisError(f"C16.validate: HRSampler.validate uses an array operation outside the array model: {exc}")
        codes = got.tolist() if isinstance(got, NA) else got
        if codes != want:
            k = next((i for i, (g, w) in enumerate(zip(codes, want)) if g != w), 0) if isinstance(codes, list) and len(codes) == len(want) else None
            if k is None:
                problems.append(f"validate() in {space} returns {codes!r} for {len(rows)} samples")
            else:
                problems.append(f"validate() in {space} gives {codes[k]!r} for the sample {rows[k]}, an independent check gives {want[k]!r} (all: {codes} vs {want})")
    if problems:
        ctx.bad("C16.validate", fn, fn.node, problems[0] + (f" (+{len(problems) - 1} more)" if len(problems) > 1 else ""))
    else:
        ctx.ok("C16.validate", fn, "validate", f"{len(samples_v)} + {len(samples_r)} samples in both spaces get the codes of an independent feasibility check (evaluated on concrete arrays)")


def run(ctx) -> None:
    ctx.rule("C16.validate", "finite evaluation: validate() agrees with an independent feasibility check in both spaces", floor=1)
    ctx.guard(check_validate, ctx)
    ctx.rule("C16.private", "T8: the sampler works on a private copy of the model", floor=1)
    ctx.rule("C16.map", "T5: index maps and column names come from the same iteration; flux = forward - reverse", floor=6)
    ctx.rule("C16.bounds", "finite domain: constraint_matrices maps only a missing bound to infinity", floor=2)
    ctx.rule("C16.problem", "finite evaluation on concrete arrays: __build_problem hands the samplers the region constraint_matrices describes (no constraint lost or invented)", floor=1)
    ctx.guard(check_build_problem, ctx)
    ctx.rule("C16.random", "T4/T6: numpy's seeded global generator only; seeding before any draw", floor=5)
    ctx.rule("C16.count", "OptGP sample count rounding and bookkeeping", floor=3)
    ctx.rule("C16.warmup", "T1: warm-up steps set and reset the objective pair", floor=2)
    prog, eff = ctx.prog, ctx.eff
    ci = prog.cls("HRSampler")
    prov = eff.class_attr_prov(ci, "model")
    init = prog.find_method(ci, "__init__")[0]
    site = [n for n in walk_local(init.node) if isinstance(n, ast.Assign) and norm(n.targets[0]) == "self.model"]
    if prov and all(r in (FRESH, CONST) for r in prov):
        ctx.ok("C16.private", init, site[0] if site else None, "self.model = model.copy(): sampling never touches the caller's model")
    else:
        ctx.bad("C16.private", init, site[0] if site else init.node, "the sampler keeps the caller's model itself: warm-up generation replaces its objective")
    raw = [e for e in eff.own_effects(init) if e.kind in ("RAW", "CALL") and any(r == ("param", "model") for r in e.roots) and (e.kind == "RAW" or any(x.kind in ("RAW", "REV") for x in eff.summary(e.chain[0][0])))]
    if raw:
        ctx.bad("C16.private", init, enclosing_stmt(raw[0].node), "HRSampler.__init__ modifies the model it was given")
    check_map(ctx)
    # the matrices are decided by evaluating constraint_matrices as a whole; the reading of its loop body explains
    n0, d0 = len(ctx.findings), len(ctx.deferred)
    ctx.guard(check_bounds_eval, ctx)
    ctx.explain(len(ctx.findings) > n0 or len(ctx.deferred) > d0, check_bounds, ctx)
    check_random(ctx)
    ctx.guard(check_argument_names, ctx)
    ctx.guard(check_matrix_handling, ctx)
    check_count_both(ctx)
    check_warmup(ctx)
    from . import stepform

    ctx.rule("C16.step", "finite evaluation on concrete arrays: one hit-and-run step stays inside the region, on the line, at the requested position of the whole feasible chord; distance-to-bounds, re-projection and restart point", floor=2)
    ctx.guard(stepform.check_step, ctx, "C16.step")
    ctx.guard(stepform.check_helpers, ctx, "C16.step")
