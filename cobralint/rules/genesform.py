"""C02.genes - what `Reaction.update_genes_from_gpr` does to the gene links, evaluated over stand-in objects.

After the call, for a reaction that belongs to a model: the reaction's genes are *the model's own gene objects* for
exactly the identifiers of the rule (a gene the model does not have yet is created, owned by the model and listed in
it), every one of them lists the reaction, and every gene object the reaction was linked to before and is not linked to
now no longer lists it. The case that matters for knock-outs (C07) is a reaction whose rule was set before it was added
to the model: it arrives with private gene objects that carry the same identifiers as genes of the model - a test by
identifier says "nothing to do", a test by identity re-links. For a reaction without a model the genes are objects
of its own. The methods of the stand-in reaction are the real ones (`_associate_gene`, `_dissociate_gene`, the `genes`
property ...), evaluated by the interpreter; nothing of /repo runs.
"""
from __future__ import annotations

import ast
from typing import Any, Dict, List, Optional

from .. import AnalysisError
from ..absint import EvalRaise, Unknown
from ..interp import Interp, RealMethods, _BoundReal, real_methods_class
from ..program import norm


class _S:
    pass


class GeneS(_S):
    def __init__(self, gid, name="", functional=True):
        self.id, self.name, self._functional = gid, name, functional
        self._model = None
        self._reaction: set = set()

    def __repr__(self):
        return f"<gene {self.id}#{id(self) % 997}>"


class GeneList(_S, list):
    """model.genes with DictList's semantics: membership, has_id and get_by_id go by identifier."""

    def has_id(self, gid):
        return any(g.id == gid for g in self)

    def get_by_id(self, gid):
        for g in self:
            if g.id == gid:
                return g
        raise KeyError(gid)

    def __contains__(self, x):
        gid = x.id if hasattr(x, "id") else x
        return any(g.id == gid for g in self)

    def __hash__(self):
        return id(self)


class ModelS(_S):
    def __init__(self, gene_ids):
        self.genes = GeneList()
        for gid in gene_ids:
            g = GeneS(gid)
            g._model = self
            self.genes.append(g)
        self._contexts: list = []


class RuleS(_S):
    def __init__(self, ids):
        self.body = object() if ids else None
        self.genes = frozenset(ids)


class Ctx(_S):
    def __init__(self):
        self.entries: List[Any] = []

    def __call__(self, entry):
        self.entries.append(entry)

    def __bool__(self):
        return True


def check_update_genes(ctx, rule: str) -> None:
    prog = ctx.prog
    fn = prog.func("cobra.core.reaction", "Reaction.update_genes_from_gpr")
    cls = prog.units["cobra.core.reaction"].classes.get("Reaction")
    if cls is None:
        raise AnalysisError("C02.genes: class Reaction not found")
    problems: List[str] = []
    n = 0
    # scenario: (description, attached?, model gene ids, rule ids, old links: list of (id, kind)) where kind is
    # "model" (the model's object, linked), "private" (an object of the reaction's own with that id, linked)
    scenarios = [
        ("a reaction of the model gets `b` added to its rule", True, ["a", "b"], ["a", "b"], [("a", "model")]),
        ("a reaction added to the model with a rule set beforehand: private gene objects whose identifiers the model already has", True, ["a", "b", "c"], ["a", "b"], [("a", "private"), ("b", "private")]),
        ("as before, one of the two identifiers is new to the model", True, ["a"], ["a", "z"], [("a", "private"), ("z", "private")]),
        ("a gene the model does not have yet", True, ["a"], ["a", "n"], [("a", "model")]),
        ("the rule is emptied", True, ["a", "b"], [], [("a", "model"), ("b", "model")]),
        ("one gene leaves the rule", True, ["a", "b"], ["b"], [("a", "model"), ("b", "model")]),
        ("the rule is assigned again unchanged", True, ["a", "b"], ["a", "b"], [("a", "model"), ("b", "model")]),
        ("a gene that was put into model.genes by hand (listed, but without its model pointer)", True, ["a", "h!"], ["a", "h"], [("a", "model")]),
        ("a reaction without a model", False, [], ["a", "b"], []),
        ("a reaction without a model whose rule loses a gene", False, [], ["a"], [("a", "private"), ("b", "private")]),
    ]
    for with_context in (False, True):
        for what, attached, model_ids, rule_ids, old in scenarios:
            n += 1
            holder: Dict[str, Any] = {}
            context = Ctx() if with_context and attached else None
            stubs = {
                "cobra.core.gene.Gene": lambda it_, ev, c, a, k: GeneS(*a, **k),
                "cobra.util.context.get_context": lambda it_, ev, c, a, k: context,
                "cobra.manipulation.delete.remove_genes": lambda it_, ev, c, a, k: None,
            }
            it = Interp(prog, (_S, RealMethods, _BoundReal), [f.qualname for f in prog.all_funcs() if f.qualname.startswith("cobra.core.reaction.Reaction.")], stubs, globals_={})
            RxS = real_methods_class("ReactionStandIn", prog, cls, it, bases=(_S,), skip=("__init__", "__setstate__", "__getstate__", "model"))
            model = ModelS([i.rstrip("!") for i in model_ids]) if attached else None
            for i in model_ids:
                if i.endswith("!"):
                    model.genes.get_by_id(i[:-1])._model = None   # listed by hand: the pointer was never set
            r = RxS()
            object.__setattr__(r, "_id", "R1")
            object.__setattr__(r, "id", "R1") if "id" not in RxS._getters else None
            object.__setattr__(r, "_model", model)
            object.__setattr__(r, "model", model) if "model" not in RxS._getters else None
            object.__setattr__(r, "_gpr", RuleS(rule_ids))
            old_objs = []
            for gid, kind in old:
                g = model.genes.get_by_id(gid) if kind == "model" else GeneS(gid)
                g._reaction.add(r)
                old_objs.append(g)
            object.__setattr__(r, "_genes", set(old_objs))
            label = f"update_genes_from_gpr ({what}" + ("; inside a context" if context else "") + ")"
            try:
                it.call(fn, [], {}, selfobj=r)
            except EvalRaise as exc:
                problems.append(f"{label} raises {exc.exc_type}")
                continue
            except Unknown as exc:
                raise AnalysisError(f"C02.genes: {label} cannot be evaluated: {exc}")
            genes_now = object.__getattribute__(r, "_genes")
            if not isinstance(genes_now, (set, frozenset, list)) or not all(isinstance(g, GeneS) for g in genes_now):
                raise AnalysisError(f"C02.genes: {label} leaves a gene collection outside the stand-in world: {genes_now!r:.80}")
            ids_now = sorted(g.id for g in genes_now)
            if ids_now != sorted(rule_ids) or len(genes_now) != len(rule_ids):
                problems.append(f"{label}: the reaction's genes are {ids_now}, the rule names {sorted(rule_ids)}")
                continue
            bad = None
            for g in genes_now:
                if attached:
                    if not model.genes.has_id(g.id):
                        bad = f"gene {g.id} of the rule is not listed in the model"
                    elif model.genes.get_by_id(g.id) is not g:
                        bad = f"the reaction is linked to a gene object {g.id} of its own, not to the model's gene {g.id}: knocking out the model's gene leaves this reaction alone"
                    elif g._model is not model:
                        bad = f"gene {g.id} does not belong to the model"
                elif g._model is not None:
                    bad = f"a reaction without a model got a gene that belongs to a model"
                if bad is None and r not in g._reaction and not any(x is r for x in g._reaction):
                    bad = f"gene {g.id} does not list the reaction"
                if bad:
                    break
            if bad is None:
                for g in old_objs:
                    if not any(g is x for x in genes_now) and any(x is r for x in g._reaction):
                        bad = f"gene object {g.id} the reaction was linked to before still lists the reaction although the reaction no longer links to it"
                        break
            if bad is None and attached and len({g.id for g in model.genes}) != len(model.genes):
                bad = "the model lists a gene identifier twice"
            if bad:
                problems.append(f"{label}: {bad}")
    if problems:
        ctx.bad(rule, fn, "gene links", "; ".join(list(dict.fromkeys(problems))[:2]))
    else:
        ctx.ok(rule, fn, "gene links", f"{n} scenarios (attached / detached, private gene objects with identifiers the model has, new and leaving genes, emptied and unchanged rules; with and without a context): the reaction links to the model's own gene objects for exactly the identifiers of the rule, they list it, dropped ones do not")


# ------------------------------------------------------------------------------------------ group membership
class MemberS(_S):
    def __init__(self, mid, model):
        self.id, self._model = mid, model

    def __repr__(self):
        return f"<member {self.id}>"


def check_group_members(ctx, rule: str) -> None:
    """Group.add_members / remove_members evaluated: adding puts *every* given object into the group whatever state the
    object is in (the undo of a removal re-adds a reaction to its groups while the reaction is still without its
    model pointer - later-registered entries are replayed first), removing takes exactly the given objects out, a
    single object is accepted in place of a list, and nothing else about the group changes."""
    prog = ctx.prog
    cls = prog.units["cobra.core.group"].classes.get("Group") if "cobra.core.group" in prog.units else None
    if cls is None:
        raise AnalysisError("C02.group: class Group not found")
    add = prog.func("cobra.core.group", "Group.add_members")
    rem = prog.func("cobra.core.group", "Group.remove_members")
    problems: List[str] = []
    n = 0
    for group_attached in (True, False):
        it = Interp(prog, (_S, RealMethods, _BoundReal), [f.qualname for f in prog.all_funcs() if f.qualname.startswith("cobra.core.group.")], {}, globals_={})
        GS = real_methods_class("GroupStandIn", prog, cls, it, bases=(_S,), skip=("__init__", "__getstate__", "__setstate__"))
        model = ModelS([])
        other = ModelS([])
        own, detached, foreign = MemberS("own", model), MemberS("detached", None), MemberS("foreign", other)
        old = MemberS("old", model)
        for label, members in (("objects of the group's model", [own]), ("an object that has no model at the moment (a reaction being put back by an undo entry)", [detached]),
                               ("a mixture", [own, detached, foreign]), ("a single object instead of a list", detached), ("nothing", [])):
            n += 1
            g = GS()
            for k, v in (("_id", "g1"), ("name", ""), ("_members", {old}), ("_kind", "collection"), ("_model", model if group_attached else None), ("notes", {}), ("_annotation", {})):
                object.__setattr__(g, k, v)
            what = f"add_members({label}) on a group {'of a model' if group_attached else 'without a model'}"
            try:
                it.call(add, [members], {}, selfobj=g)
            except EvalRaise as exc:
                problems.append(f"{what} raises {exc.exc_type}")
                continue
            except Unknown as exc:
                raise AnalysisError(f"C02.group: {what} cannot be evaluated: {exc}")
            given = members if isinstance(members, list) else [members]
            now = object.__getattribute__(g, "_members")
            want = {old, *given}
            if not isinstance(now, (set, frozenset)) or len(now) != len(want) or not all(any(x is y for y in now) for x in want):
                missing = [x.id for x in want if not any(x is y for y in now)]
                problems.append(f"{what}: the members are {sorted(getattr(x, 'id', x) for x in now)}; " + (f"{missing} were given and are not members" if missing else "objects nobody gave were added") + " (an undo entry that re-adds a reaction to its groups runs before the reaction has its model pointer back)")
                continue
            # and out again
            try:
                it.call(rem, [members], {}, selfobj=g)
            except EvalRaise as exc:
                problems.append(f"remove_members({label}) raises {exc.exc_type}")
                continue
            except Unknown as exc:
                raise AnalysisError(f"C02.group: remove_members cannot be evaluated: {exc}")
            now = object.__getattribute__(g, "_members")
            if not (len(now) == 1 and any(x is old for x in now)):
                problems.append(f"remove_members({label}) leaves {sorted(getattr(x, 'id', x) for x in now)}, expected exactly the member that was not named")
            # membership goes by object: a member of another kind that happens to carry the same identifier stays
            if isinstance(members, list) and members:
                twin = MemberS(members[0].id, model)
                object.__setattr__(g, "_members", {old, twin, *members})
                try:
                    it.call(rem, [list(members)], {}, selfobj=g)
                    now = object.__getattribute__(g, "_members")
                    if not (len(now) == 2 and any(x is old for x in now) and any(x is twin for x in now)):
                        problems.append(f"remove_members({label}) also drops another member that carries the same identifier ({members[0].id!r}, e.g. a gene and a reaction of one name): left {sorted(getattr(x, 'id', x) for x in now)}")
                except EvalRaise as exc:
                    problems.append(f"remove_members({label}) with a same-named member of another kind raises {exc.exc_type}")
                except Unknown as exc:
                    raise AnalysisError(f"C02.group: remove_members cannot be evaluated: {exc}")
                object.__setattr__(g, "_members", {old})
            if object.__getattribute__(g, "_kind") != "collection" or object.__getattribute__(g, "_model") is not (model if group_attached else None):
                problems.append(f"{what} changes the kind or the model of the group")
    if problems:
        ctx.bad(rule, add, "group membership", "; ".join(list(dict.fromkeys(problems))[:2]))
    else:
        ctx.ok(rule, add, "group membership", f"{n} scenarios (group with / without a model x members of that model, of no model, of another model, a single object, nothing): add_members adds every given object, remove_members takes exactly those out")


# ------------------------------------------------------------------------------------------ metabolite adoption
class MetS(_S):
    def __init__(self, mid, model=None):
        self.id, self._model = mid, model
        self._reaction: set = set()
        self.copied_from = None

    @property
    def model(self):
        return self._model

    def copy(self):
        m = MetS(self.id, None)
        m.copied_from = self
        return m

    def __str__(self):
        return self.id

    def __repr__(self):
        return f"<met {self.id}#{id(self) % 997}>"


class ConsS(_S):
    def __init__(self):
        self.coefs: Dict[Any, float] = {}

    def set_linear_coefficients(self, d):
        self.coefs.update(d)


class ConsMap(_S, dict):
    def __missing__(self, key):
        self[key] = ConsS()
        return self[key]


class MModelS(_S):
    def __init__(self, ids):
        self.metabolites = GeneList()
        for i in ids:
            self.metabolites.append(MetS(i, self))
        self.constraints = ConsMap()
        self.added: List[Any] = []
        self._contexts: list = []

    def add_metabolites(self, mets):
        for m in mets:
            if not self.metabolites.has_id(m.id):
                m._model = self
                self.metabolites.append(m)
                self.added.append(m)

    def __bool__(self):
        return True


def check_metabolite_adoption(ctx, rule: str) -> None:
    """Reaction.add_metabolites evaluated over stand-in models: whose metabolite object ends up in the reaction.

    A metabolite that belongs to a model other than the reaction's is never taken over - the reaction holds a copy (or,
    when its own model knows the identifier, that model's object) and the foreign model's metabolite does not list the
    reaction; this holds in particular for a reaction *without* a model (reaction arithmetic builds such reactions from
    model reactions). A metabolite without a model is taken over as it is; a metabolite of the reaction's own model is
    used as it is."""
    prog = ctx.prog
    cls = prog.units["cobra.core.reaction"].classes.get("Reaction")
    fn = prog.func("cobra.core.reaction", "Reaction.add_metabolites")
    problems: List[str] = []
    n = 0
    # (label, reaction attached?, where the given metabolite lives: "other" / "none" / "own", id known to the reaction's model?)
    cases = [
        ("a reaction without a model gets a metabolite of some model", False, "other", False),
        ("a reaction without a model gets a metabolite without a model", False, "none", False),
        ("a reaction of a model gets a metabolite of that model", True, "own", True),
        ("a reaction of a model gets a metabolite of another model whose identifier the model does not have", True, "other", False),
        ("a reaction of a model gets a metabolite of another model whose identifier the model has", True, "other", True),
        ("a reaction of a model gets a metabolite without a model whose identifier is new", True, "none", False),
    ]
    for combine in (True, False):
        for label, attached, where, known in cases:
            n += 1

            def _isinstance(it_, ev, c, a, k):
                names = [norm(y).split(".")[-1] for y in (c.args[1].elts if isinstance(c.args[1], ast.Tuple) else [c.args[1]])]
                if isinstance(a[0], MetS):
                    return "Metabolite" in names or "Species" in names or "Object" in names
                if isinstance(a[0], str):
                    return "str" in names
                return False

            stubs = {"cobra.util.context.get_context": lambda it_, ev, c, a, k: None, "isinstance": _isinstance}
            it = Interp(prog, (_S, RealMethods, _BoundReal), [f.qualname for f in prog.all_funcs() if f.qualname.startswith("cobra.core.reaction.Reaction.")], stubs, globals_={"str": str, "list": list, "dict": dict})
            RxS = real_methods_class("ReactionStandIn", prog, cls, it, bases=(_S,), skip=("__init__", "__setstate__", "__getstate__", "forward_variable", "reverse_variable"))
            own_model = MModelS(["x", "k"] if known else ["x"]) if attached else None
            other = MModelS(["k", "y"])
            r = RxS()
            for key, v in (("_id", "R1"), ("_model", own_model), ("_metabolites", {}), ("_genes", set()), ("forward_variable", "R1"), ("reverse_variable", "R1_reverse"), ("_lower_bound", 0.0), ("_upper_bound", 1000.0)):
                object.__setattr__(r, key, v)
            if attached:
                x = own_model.metabolites.get_by_id("x")
                object.__getattribute__(r, "_metabolites")[x] = -1.0
                x._reaction.add(r)
            given = other.metabolites.get_by_id("k") if where == "other" else (MetS("k", None) if where == "none" else own_model.metabolites.get_by_id("k"))
            what = f"add_metabolites ({label}; combine={combine})"
            try:
                it.call(fn, [{given: 2.0}], {"combine": combine}, selfobj=r)
            except EvalRaise as exc:
                problems.append(f"{what} raises {exc.exc_type}")
                continue
            except Unknown as exc:
                raise AnalysisError(f"C12.detach: {what} cannot be evaluated: {exc}")
            mets = object.__getattribute__(r, "_metabolites")
            held = [m for m in mets if getattr(m, "id", None) == "k"]
            if len(held) != 1 or mets[held[0]] != 2.0:
                problems.append(f"{what}: the reaction holds {[(getattr(m, 'id', m), c) for m, c in mets.items()]}, expected k with coefficient 2")
                continue
            h = held[0]
            theirs = other.metabolites.get_by_id("k")
            if where == "other":
                if h is theirs:
                    problems.append(f"{what}: the reaction holds the other model's own metabolite object" + ("" if attached else " (a sum or difference of model reactions then shares its metabolites with the model)"))
                    continue
                if any(x_ is r for x_ in theirs._reaction):
                    problems.append(f"{what}: the other model's metabolite now lists this reaction, which is not in that model")
                    continue
                if attached and known and h is not own_model.metabolites.get_by_id("k"):
                    problems.append(f"{what}: the reaction's model has a metabolite k, but the reaction holds another object")
                    continue
                if attached and not known and not (own_model.metabolites.has_id("k") and own_model.metabolites.get_by_id("k") is h and h._model is own_model):
                    problems.append(f"{what}: the copy the reaction holds is not the metabolite k listed in (and owned by) the reaction's model")
                    continue
                if not attached and h._model is not None:
                    problems.append(f"{what}: the reaction has no model, yet the metabolite it holds belongs to one")
                    continue
            elif where == "none":
                if h is not given:
                    problems.append(f"{what}: a metabolite without a model is taken over as it is; the reaction holds another object")
                    continue
                if attached and h._model is not own_model:
                    problems.append(f"{what}: the metabolite taken into the model does not belong to it")
                    continue
            else:
                if h is not given:
                    problems.append(f"{what}: the reaction holds an object other than its model's metabolite k")
                    continue
            if not any(x_ is r for x_ in h._reaction):
                problems.append(f"{what}: the metabolite the reaction holds does not list the reaction")
    if problems:
        ctx.bad(rule, fn, "metabolite adoption", "; ".join(list(dict.fromkeys(problems))[:2]))
    else:
        ctx.ok(rule, fn, "metabolite adoption", f"{n} cases (reaction with / without a model x metabolite of the same model, of another model with a known / unknown identifier, of no model; combine on/off): a metabolite of another model is never taken over, the object held lists the reaction and belongs to the reaction's model (if any)")


# ------------------------------------------------------------------------------------------ rule copies
class NodeS(_S):
    """A node of a stand-in rule tree (Name / BoolOp with And / Or)."""

    def __init__(self, kind, **kw):
        self.kind = kind
        self.__dict__.update(kw)


def _tree_nodes(t):
    if t is None:
        return
    yield t
    for v in getattr(t, "values", []) or []:
        yield from _tree_nodes(v)
    if getattr(t, "op", None) is not None:
        yield t.op


def _tree_text(t):
    if t is None:
        return "<empty>"
    if t.kind == "Name":
        return t.id
    return "(" + (" and " if t.op.kind == "And" else " or ").join(_tree_text(v) for v in t.values) + ")"


def check_rule_copies(ctx, rule: str) -> None:
    """GPR.copy / GPR.__copy__ (what copy.copy(rule) and Model.copy use) evaluated on stand-in rule trees: the copy says
    the same, and shares no tree node and no gene set with the original - for an empty rule, a rule of one gene and
    nested rules alike (rename_genes and remove_genes rewrite the nodes of a rule in place)."""
    import copy as _copy

    prog = ctx.prog
    cls = prog.units["cobra.core.gene"].classes.get("GPR")
    if cls is None:
        raise AnalysisError("C12.gpr: class GPR not found")
    problems: List[str] = []
    n = 0
    N = lambda i: NodeS("Name", id=i)  # noqa: E731
    B = lambda k, *v: NodeS("BoolOp", op=NodeS(k), values=list(v))  # noqa: E731
    trees = [None, N("a"), B("Or", N("a"), N("b")), B("And", N("a"), B("Or", N("b"), N("c")))]
    for entry in ("copy", "__copy__", "__deepcopy__"):
        fns = cls.methods.get(entry)
        if not fns:
            continue
        for t in trees:
            n += 1

            def _isinstance(it_, ev, c, a, k):
                names = [norm(y).split(".")[-1] for y in (c.args[1].elts if isinstance(c.args[1], ast.Tuple) else [c.args[1]])]
                v = a[0]
                if isinstance(v, NodeS):
                    return v.kind in names or (v.kind in ("And", "Or") and "boolop" in names) or "AST" in names
                if isinstance(v, RealMethods):
                    return any(x in names for x in ("GPR", "Module", "AST"))
                return False

            stubs = {"copy.deepcopy": lambda it_, ev, c, a, k: _copy.deepcopy(a[0]) if len(a) == 1 else _copy.deepcopy(a[0], a[1]), "copy.copy": lambda it_, ev, c, a, k: _copy.copy(a[0]), "isinstance": _isinstance}
            it = Interp(prog, (_S, RealMethods, _BoundReal), [f.qualname for f in prog.all_funcs() if f.qualname.startswith("cobra.core.gene.GPR.")], stubs, globals_={"set": set, "frozenset": frozenset, "list": list})
            Base = real_methods_class("RuleStandIn", prog, cls, it, bases=(_S,), skip=("__init__", "genes", "update_genes", "__repr__", "__str__", "_repr_html_", "__eq__"))

            class G(Base):  # noqa: N801
                def __init__(self, gpr_from=None, **kw):
                    object.__setattr__(self, "body", getattr(gpr_from, "body", None))
                    object.__setattr__(self, "_genes", set())

                def update_genes(self):
                    object.__setattr__(self, "_genes", {x.id for x in _tree_nodes(self.body) if x.kind == "Name"})

                @property
                def genes(self):
                    self.update_genes()
                    return frozenset(object.__getattribute__(self, "_genes"))

            for mod in ("cobra.core.gene", "cobra.core", "cobra"):
                stubs[f"{mod}.GPR"] = lambda it_, ev, c, a, k, _G=G: _G(*a, **k)
            g = G()
            object.__setattr__(g, "body", t)
            g.update_genes()
            what = f"GPR.{entry} of the rule `{_tree_text(t)}`"
            try:
                new = it.call(fns[-1], [{}] if entry == "__deepcopy__" else [], {}, selfobj=g)
            except EvalRaise as exc:
                problems.append(f"{what} raises {exc.exc_type}")
                continue
            except Unknown as exc:
                raise AnalysisError(f"C12.gpr: {what} cannot be evaluated: {exc}")
            if not isinstance(new, RealMethods) or new is g:
                problems.append(f"{what} returns {'the rule itself' if new is g else type(new).__name__}")
                continue
            nb = object.__getattribute__(new, "__dict__").get("body")
            if _tree_text(nb) != _tree_text(t):
                problems.append(f"{what} says `{_tree_text(nb)}`")
                continue
            mine = {id(x) for x in _tree_nodes(t)}
            shared = [x for x in _tree_nodes(nb) if id(x) in mine]
            if shared:
                problems.append(f"{what} shares the node `{getattr(shared[0], 'id', shared[0].kind)}` with the original: renaming or removing a gene in one model rewrites that node in place and changes the rule of the other model's reaction as well")
                continue
            if object.__getattribute__(new, "__dict__").get("_genes") is object.__getattribute__(g, "__dict__").get("_genes"):
                problems.append(f"{what} shares the gene set object with the original")
    if problems:
        ctx.bad(rule, cls.methods["copy"][-1] if "copy" in cls.methods else None, "rule copies", "; ".join(list(dict.fromkeys(problems))[:2]))
    else:
        ctx.ok(rule, cls.methods["copy"][-1] if "copy" in cls.methods else None, "rule copies", f"{n} cases (copy / __copy__ x empty, one gene, flat and nested rules): the copy says the same and shares no tree node and no gene set with the original")
