#!/usr/bin/env python3
"""Maintenance helper: print the seeded-change detection matrix (markdown) from /verif/seeded/*/meta.json."""
import glob, json, os
rows = []
for d in sorted(glob.glob('/verif/seeded/*')):
    mp = os.path.join(d, 'meta.json')
    if not os.path.exists(mp):
        continue
    m = json.load(open(mp))
    det = m.get('detected_by', {})
    title = m.get('title', '').split(' - ', 1)[-1].replace('|', '/')
    caught = ', '.join(f"{r} (check {p})" if p != m['property'] else r for p, r in det.items()) or '**not caught** - ' + m.get('why_missed', 'see text')
    rows.append(f"| {os.path.basename(d)} | {title[:110]} | {caught} |")
print("| seed | change | reported by |\n|------|--------|-------------|")
print("\n".join(rows))
n = len(rows); miss = sum('not caught' in r for r in rows)
print(f"\n{n} confirmed seeded changes, {n - miss} reported by a rule, {miss} not.")
