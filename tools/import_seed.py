#!/usr/bin/env python3
"""Maintenance helper (not used by the checks): import a confirmed seeded change into /verif/seeded.

usage: [ROUND=3] [NOTE="history note"] import_seed.py <src_dir> <name> <property> [other properties to try ...]
The source directory must hold patch.diff, demo.py, README.md and confirm.json (written by the confirmation run).
The detecting rule is found by replaying the patch on an overlay with the property's rule set.
"""
import json, os, re, shutil, subprocess, sys

src, name, prop, *others = sys.argv[1:]
conf = json.load(open(os.path.join(src, "confirm.json")))
assert conf.get("applies") and conf.get("demo_exit_clean") == 0 and conf.get("demo_exit_with_change") not in (0, None) and conf.get("baseline_tests_missing_with_change") == 0, conf
dst = f"/verif/seeded/{name}"
os.makedirs(dst, exist_ok=True)
for f in os.listdir(src):
    if f in ("patch.diff", "README.md", "confirm.json") or f.startswith("demo"):
        shutil.copy(os.path.join(src, f), os.path.join(dst, f))
readme = open(os.path.join(src, "README.md")).read() if os.path.exists(os.path.join(src, "README.md")) else ""
title = readme.splitlines()[0].lstrip("# ").strip() if readme else name
m = re.search(r"(?:What is needed(?: to manifest)?|Needed to manifest|What it needs|Needs)\**:?\**:?\s*(.*?)(?:\n[*-] |\n\n|\Z)", readme, re.S | re.I)
needs = " ".join(m.group(1).split()) if m else ""
det = {}
for p in [prop] + others:
    out = subprocess.run(["/venv/bin/python", "-B", "-m", "cobralint.selftest", "--prop", p, "--patch", os.path.join(dst, "patch.diff")], capture_output=True, text=True, cwd="/verif").stdout
    rules = re.findall(r"^NEW (\S+) ", out, re.M)
    if rules:
        own = [r for r in rules if r.startswith(p + ".")]
        det[p] = (own or rules)[0]
        break
meta = {"property": prop, "title": title, "needs_to_manifest": needs, "round": int(os.environ.get("ROUND", "2")),
        "origin": "written by a fresh sub-agent that saw only the property text and a scratch worktree of /repo",
        "confirmed": {"by": "re-run by the main session in a scratch worktree (git worktree add, git apply patch.diff)",
                      "commands": ["PYTHONPATH=<worktree>/src /venv/bin/python demo.py  # exit 0 on the clean tree, non-zero with the change",
                                   "baseline test command of /root/.vp/BASELINE.json in the worktree; per-test outcomes compared with the clean tree (tests/test_io/test_sbml.py re-run serially because of an xdist race on a shared file)"],
                      "result": conf},
        "detected_by": det}
if os.environ.get("NOTE"):
    meta["history"] = [os.environ["NOTE"]]
json.dump(meta, open(os.path.join(dst, "meta.json"), "w"), indent=1)
print(name, "|", title[:80], "|", det or "NOT DETECTED")
