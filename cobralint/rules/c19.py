"""C19 - blocked-reaction and consistency analyses rest on exact flux ranges."""
from __future__ import annotations

import ast
from typing import Any, Dict, List, Optional, Tuple

from .. import AnalysisError
from ..absint import EvalRaise, Unknown
from ..framemodel import Frame, Index, Ser
from ..framemodel import Unsupported as FUnsupported
from ..interp import Interp
from ..lpmodel import Cons, Container, Formulation, Lin, ModelCopy, ModelLP, Obj, Problem, ReactionList, RxnLP, SolutionLP, SolverStub, Unsupported, Var

EXPLANATION = (
    "Blockedness is a statement about the flux cone; what the code contributes is which optimisation problems it poses "
    "and how it turns their answers into a verdict. Both functions are evaluated by the analyser's interpreter over a "
    "symbolic model whose solver is played by an oracle (nothing is solved): find_blocked_reactions - exchanges are "
    "opened to (min(lb, -1000), max(ub, 1000)) only when asked and only inside the context, the candidates are the "
    "requested reactions whose flux in one feasible solution is below the cutoff (a reaction that carries flux there is "
    "not blocked), FVA is asked at fraction_of_optimum 0 and under a zero objective (fraction 0 still means objective >= 0 x optimum, which cuts the flux cone when the objective can be negative) for exactly these on the same (opened) model, and the result is "
    "exactly the candidates whose FVA minimum and maximum are both below the cutoff in magnitude (row classes: range "
    "[0,0], one-sided, two-sided, sub-cutoff noise); fastcc - a reaction is kept only if some solve returned a non-zero "
    "flux for it, a reaction is dropped only when, for each direction its bounds allow, an optimisation of its own flux "
    "on the unrestricted problem returned zero - a sparse-mode (LP-7) optimum is never evidence for a zero: it maximises "
    "the sum of the auxiliary variables and, under capacity bounds, may leave a reaction without flux that could carry "
    "some, so the oracle shows flux for a member only in the rounds its table says and never vouches for a zero; the "
    "result is a copy of the untouched model, taken after all contexts are closed, minus exactly the "
    "dropped reactions. NOT decided: the FVA ranges themselves (C05) and the numbers the solver returns."
)
ASSUMPTIONS = ["flux_variability_analysis returns the exact flux ranges (C05)", "the solver returns an optimum of the problem it is given",
               "cobralint/lpmodel.py and cobralint/framemodel.py model the Model / pandas operations used; anything outside is an ANALYSIS-ERROR"]

NATIVE = (Lin, Var, Cons, Obj, Problem, Container, SolverStub, RxnLP, ReactionList, SolutionLP, ModelLP, ModelCopy, Formulation, Frame, Ser, Index)
CUT = 1e-7


def _run(what: str, thunk):
    try:
        return thunk()
    except Unknown as exc:
        raise AnalysisError(f"C19: {what} cannot be evaluated: {exc}")
    except (Unsupported, FUnsupported) as exc:
        raise AnalysisError(f"C19: {what} is outside the model: {exc}")


# ---------------------------------------------------------------------------------------- find_blocked_reactions
# id: (bounds, flux in the one solution, true FVA range at fraction 0)
FB_ROWS = {
    "EX_a": ((-10.0, 10.0), 2.0, (-10.0, 10.0)),
    "EX_b": ((0.0, 2000.0), 0.0, (0.0, 0.0)),
    "EX_c": ((-5000.0, 0.0), 0.0, (-3.0, 0.0)),
    "R_zero": ((-10.0, 10.0), 0.0, (0.0, 0.0)),
    "R_noise": ((-10.0, 10.0), 3e-10, (-2e-11, 4e-10)),
    "R_up": ((0.0, 10.0), 0.0, (0.0, 5.0)),
    "R_down": ((-10.0, 0.0), 0.0, (-3.0, 0.0)),
    "R_both": ((-10.0, 10.0), 0.0, (-4.0, 6.0)),
    "R_flux": ((0.0, 10.0), 1.5, (0.5, 9.0)),
    "R_tiny": ((-10.0, 10.0), -4e-9, (-2.0, 0.0)),
    "DM_x": ((0.0, 10.0), 0.0, (0.0, 0.0)),      # a demand: a boundary reaction that is no exchange, never opened
    "SK_y": ((-3.0, 1000.0), 0.0, (-3.0, 8.0)),  # a sink
}


def _fb_model():
    rxns = [RxnLP(rid, *b) for rid, (b, _, _) in FB_ROWS.items()]
    m = ModelLP(rxns, {"R_flux": 1.0})
    m.exchanges = [r for r in rxns if r.id.startswith("EX_")]
    m.boundary = [r for r in rxns if r.id.startswith(("EX_", "DM_", "SK_"))]
    m.demands = [r for r in rxns if r.id.startswith("DM_")]
    m.sinks = [r for r in rxns if r.id.startswith("SK_")]
    for r in m.boundary:
        r.boundary = True
    m.script = lambda model, f: (1.5, {rid: fl for rid, (_, fl, _) in FB_ROWS.items()}, "optimal")
    # the model has been optimised before, under other bounds: a stale solution is lying around
    m.solver.status = "optimal"
    m.last_fluxes = {rid: 5.0 for rid in FB_ROWS}
    m.solver.objective.value = 42.0
    return m


def check_find_blocked(ctx) -> None:
    prog = ctx.prog
    fn = prog.func("cobra.flux_analysis.variability", "find_blocked_reactions")
    problems: Dict[str, str] = {}
    n = 0
    for open_ex in (False, True):
        for subset in (None, ["R_zero", "R_up", "R_flux", "EX_b", "R_noise"]):
            for cutoff in (None, 1e-6):
                model = _fb_model()
                calls: List[Dict[str, Any]] = []
                stale: List[str] = []
                cut = CUT if cutoff is None else cutoff

                def fva_stub(it, ev, c, args, kwargs):
                    f = prog.func("cobra.flux_analysis.variability", "flux_variability_analysis")
                    kw = dict(kwargs)
                    for p, v in zip(f.params, args):
                        kw[p] = v
                    m = kw.get("model")
                    kw["_bounds"] = {r.id: (r.lower_bound, r.upper_bound) for r in m.reactions} if isinstance(m, ModelLP) else None
                    kw["_open_contexts"] = len(m._stack) if isinstance(m, ModelLP) else None
                    kw["_objective"] = {v.name: k for v, k in Lin.of(m.solver.objective.expression).terms.items() if k} if isinstance(m, ModelLP) else None
                    calls.append(kw)
                    ids = [getattr(r, "id", r) for r in (kw.get("reaction_list") if kw.get("reaction_list") is not None else m.reactions)]
                    return Frame({"minimum": [FB_ROWS[i][2][0] for i in ids], "maximum": [FB_ROWS[i][2][1] for i in ids]}, ids)

                def get_solution_stub(it, ev, c, args, kwargs):
                    m = args[0] if args else kwargs["model"]
                    reactions = kwargs.get("reactions", args[1] if len(args) > 1 else None)
                    ids = [getattr(r, "id", r) for r in (reactions if reactions is not None else m.reactions)]
                    if not m.solves:
                        stale.append("get_solution")
                        return SolutionLP(Formulation(m), ids, 42.0, Ser([m.last_fluxes[i] for i in ids], ids))
                    sol = SolutionLP(m.solves[-1][0], ids, m.solves[-1][1], Ser([m.last_fluxes[i] for i in ids], ids))
                    return sol

                it = Interp(prog, NATIVE, ["cobra.flux_analysis.helpers.normalize_cutoff"], {
                    "cobra.flux_analysis.variability.flux_variability_analysis": fva_stub,
                    "cobra.core.solution.get_solution": get_solution_stub,
                }, globals_={"Zero": Lin()})
                it.tolerance = CUT
                model.tolerance = CUT
                kwargs: Dict[str, Any] = {"open_exchanges": open_ex}
                if subset is not None:
                    kwargs["reaction_list"] = list(subset)
                if cutoff is not None:
                    kwargs["zero_cutoff"] = cutoff
                what = f"find_blocked_reactions(open_exchanges={open_ex}{', reaction_list=subset' if subset else ''}{', zero_cutoff=1e-6' if cutoff else ''})"
                try:
                    out = _run(what, lambda: it.call(fn, [model], kwargs))
                except EvalRaise as exc:
                    problems.setdefault("raise", f"{what} raises {exc.exc_type}")
                    continue
                n += 1
                requested = subset if subset is not None else list(FB_ROWS)
                truth = [rid for rid in requested if max(abs(FB_ROWS[rid][2][0]), abs(FB_ROWS[rid][2][1])) < cut]
                got = [getattr(r, "id", r) for r in (out or [])]
                if sorted(got) != sorted(truth):
                    extra = sorted(set(got) - set(truth))
                    miss = sorted(set(truth) - set(got))
                    cls = lambda rid: f"{rid} (flux {FB_ROWS[rid][1]:g} in the first solution, FVA range [{FB_ROWS[rid][2][0]:g}; {FB_ROWS[rid][2][1]:g}])"
                    problems.setdefault("verdict", f"{what}: " + ("; ".join(["reports " + cls(r) + " as blocked" for r in extra[:2]] + ["misses the blocked " + cls(r) for r in miss[:2]])))
                if stale:
                    problems.setdefault("candidates", f"{what}: on a model that was optimised earlier (under other bounds) the candidates are taken from that stale solution instead of a solve made in this call; reactions that carried flux then are never examined")
                if len(calls) != 1:
                    problems.setdefault("fva", f"{what}: {len(calls)} FVA runs")
                    continue
                kw = calls[0]
                if kw.get("fraction_of_optimum") != 0.0:
                    problems.setdefault("fva", f"{what}: FVA is asked at fraction_of_optimum={kw.get('fraction_of_optimum')!r}; at any fraction above 0 a reaction that cannot carry flux at the optimum only is reported as blocked")
                if kw.get("_objective"):
                    problems.setdefault("fva", f"{what}: FVA is run with the model's objective in place ({kw['_objective']}): also at fraction_of_optimum 0 it keeps the objective at or beyond 0 x optimum, i.e. only flux distributions with a non-negative (maximisation) objective value are considered - with an objective that can be negative (a reversible objective reaction, a minimisation) reactions that can carry flux are reported as blocked; the objective has to be neutral (zero) for the ranges")
                if kw.get("model") is not model or kw.get("_open_contexts") != 1:
                    problems.setdefault("fva", f"{what}: FVA is not run on the model inside the function's own context")
                ids = [getattr(r, "id", r) for r in (kw.get("reaction_list") or [])]
                want_ids = [rid for rid in requested if abs(FB_ROWS[rid][1]) < cut]
                if kw.get("reaction_list") is None or not set(truth) <= set(ids) or not set(ids) <= set(requested):
                    problems.setdefault("candidates", f"{what}: FVA is asked for {ids}; it must cover every requested reaction whose flux in the first solution is below the cutoff ({want_ids}) and nothing outside the request")
                if kw.get("pfba_factor") is not None or kw.get("loopless"):
                    problems.setdefault("fva", f"{what}: FVA is asked with pfba_factor/loopless, which shrink the ranges")
                for r in model.reactions:
                    b0 = FB_ROWS[r.id][0]
                    at_fva = kw["_bounds"][r.id]
                    want = (min(b0[0], -1000), max(b0[1], 1000)) if (open_ex and r.id.startswith("EX_")) else b0
                    if tuple(at_fva) != tuple(want):
                        problems.setdefault("open", f"{what}: during the FVA the bounds of {r.id} are {at_fva}, expected {want}")
                    if (r.lower_bound, r.upper_bound) != b0:
                        problems.setdefault("open", f"{what}: the bounds of {r.id} are left at {(r.lower_bound, r.upper_bound)} after the call")
                if model._stack:
                    problems.setdefault("open", f"{what}: the model context is left open")
    for clause, text in (("verdict", "blocked = requested reactions whose FVA minimum and maximum are both below the cutoff"), ("fva", "one FVA, fraction_of_optimum 0 under a neutral (zero) objective, same model, inside the context"),
                         ("candidates", "FVA covers every requested reaction without flux in the first solution, nothing outside the request"),
                         ("open", "exchanges opened to (min(lb,-1000), max(ub,1000)) only when asked, bounds restored"), ("raise", "no scenario raises")):
        if clause in problems:
            ctx.bad("C19.blocked", fn, f"find_blocked_reactions {clause}", problems[clause])
        else:
            ctx.ok("C19.blocked", fn, f"find_blocked_reactions {clause}", f"{n} scenarios x {len(FB_ROWS)} reaction classes: {text}")


# ---------------------------------------------------------------------------------------- fastcc
# id: (bounds, max of its own flux, min of its own flux, sparse-mode round in which a solution shows flux for it or None)
FC_FULL = {
    "I1": ((0.0, 10.0), 6.0, 0.0, 1),
    "I2": ((0.0, 10.0), 0.0, 0.0, None),
    "I3": ((-10.0, 0.0), 0.0, -4.0, None),
    "V1": ((-10.0, 10.0), 3.0, -3.0, 2),
    "V2": ((-10.0, 10.0), 2.5, 0.0, None),
    "V3": ((-10.0, 10.0), 0.0, -1.5, None),
    "V4": ((-10.0, 10.0), 0.0, 0.0, None),
    "V5": ((-10.0, float("inf")), float("inf"), 0.0, None),
}
FC_ALL_FOUND = {
    "I1": ((0.0, 10.0), 6.0, 0.0, 1),
    "V1": ((-10.0, 10.0), 3.0, -3.0, 2),
    "V2": ((-10.0, 10.0), 2.5, -1.0, 3),
}
FC_NO_IRREVERSIBLE = {
    "V1": ((-10.0, 10.0), 3.0, -3.0, 1),
    "V2": ((-10.0, 10.0), 0.0, -2.0, None),
    "V4": ((-10.0, 10.0), 0.0, 0.0, None),
}


class _Oracle:
    """Plays the solver for fastcc.

    * `optimise the flux of r` gets r's true optimum (exact evidence for that direction);
    * a sparse-mode problem (maximise a sum of auxiliary variables z) gets an optimum in which a member carries flux
      only in the round the table schedules for it: such a problem maximises the *sum*, and under capacity bounds an
      optimum may leave a reaction at zero that could carry flux, so the verdict "cannot carry flux" must never rest
      on it.
    """

    def __init__(self, table):
        self.table = table
        self.sparse_round = 0
        self.evidence: Dict[str, Dict[str, List[Any]]] = {}
        self.shown: Dict[str, float] = {}
        self.other = 0

    def _note(self, rid, sense, opt, restricted):
        self.evidence.setdefault(rid, {}).setdefault(sense, []).append((opt, restricted))

    def __call__(self, model: ModelLP, f: Formulation):
        flux_vars = {}
        for r in model.reactions:
            flux_vars[r.forward_variable.name] = (r, 1.0)
            flux_vars[r.reverse_variable.name] = (r, -1.0)
        terms = {v.name: c for v, c in f.objective_terms.items()}
        fluxes = {rid: 0.0 for rid in self.table}
        if terms and all(n not in flux_vars for n in terms):
            rewarded = {n for n, c in terms.items() if (c > 0) == (f.direction == "max")}
            if rewarded == set(terms):
                self.sparse_round += 1
                restricted = [x for x in _restricting(model, f)]
                for c in f.constraints:
                    own = [(v, k) for v, k in c.expression.terms.items() if v.name not in flux_vars]
                    rest = {v.name: k for v, k in c.expression.terms.items() if v.name in flux_vars}
                    owners = {flux_vars[n][0].id for n in rest}
                    if len(own) != 1 or len(owners) != 1 or own[0][0].name not in rewarded or own[0][1] >= 0 or c.lb is None or c.lb > 0 or c.ub is not None:
                        continue
                    z = own[0][0]
                    if not (z.ub is None or z.ub > 0):
                        continue
                    rid = owners.pop()
                    r = model.reactions.get_by_id(rid)
                    a = rest.get(r.forward_variable.name, 0.0)
                    b = rest.get(r.reverse_variable.name, 0.0)
                    (lb0, ub0), mx, mn, rnd = self.table[rid]
                    fwd_open, rev_open = f.bounds[rid][1] > 0, f.bounds[rid][0] < 0
                    tight = None
                    if a > 0 and (b == -a or not rev_open):
                        tight = "max"
                    elif b > 0 and (a == -b or not fwd_open):
                        tight = "min"
                    # A sparse-mode optimum is no evidence that a member *cannot* carry flux, not even for a member
                    # whose constraint ties z to its net flux in the one direction its bounds allow: the optimum
                    # maximises the *sum* of the z, and under capacity bounds (a limited source feeding competing
                    # branches) it may leave a reaction at zero that could carry flux. The oracle therefore shows
                    # flux for a member only in the rounds the table says, and never vouches for a zero.
                    if rnd is not None and rnd <= self.sparse_round:
                        fluxes[rid] = 0.5 * (mx if mx not in (0.0, float("inf")) else mn)
            else:
                self.other += 1  # e.g. a flipped objective: the oracle returns the zero solution
            for rid, v in fluxes.items():
                if v:
                    self.shown[rid] = v
            return sum(abs(v) for v in fluxes.values()), fluxes, "optimal"
        # objective over flux variables: is it +-k times the flux of one reaction?
        owners = {flux_vars[n][0].id for n in terms if n in flux_vars}
        if len(owners) == 1 and all(n in flux_vars for n in terms):
            rid = owners.pop()
            r = model.reactions.get_by_id(rid)
            k_f = terms.get(r.forward_variable.name, 0.0)
            k_r = terms.get(r.reverse_variable.name, 0.0)
            if k_f != 0 and k_r == -k_f:
                sense = f.direction if k_f > 0 else {"max": "min", "min": "max"}[f.direction]
                _, mx, mn, _ = self.table[rid]
                opt = mx if sense == "max" else mn
                self._note(rid, sense, opt, _restricting(model, f))
                if opt in (float("inf"), float("-inf")):
                    self.shown[rid] = opt  # an unbounded optimum proves the reaction can carry flux
                    return float("nan"), fluxes, "unbounded"
                fluxes[rid] = opt
                if opt:
                    self.shown[rid] = opt
                return abs(k_f) * opt if k_f > 0 else -abs(k_f) * opt, fluxes, "optimal"
        self.other += 1
        return 0.0, fluxes, "optimal"


def _restricting(model: ModelLP, f: Formulation) -> List[str]:
    """Constraints of the formulation that can exclude a flux distribution (i.e. are not satisfiable by their own slack)."""
    out = []
    flux_names = {x.name for r in model.reactions for x in (r.forward_variable, r.reverse_variable)}
    use: Dict[str, int] = {}
    for c in f.constraints:
        for v in c.expression.terms:
            use[v.name] = use.get(v.name, 0) + 1
    for c in f.constraints:
        own = [(v, k) for v, k in c.expression.terms.items() if v.name not in flux_names]
        rest = [(v, k) for v, k in c.expression.terms.items() if v.name in flux_names]
        ok = False
        if len(own) == 1 and use[own[0][0].name] == 1 and c.expression.const == 0:
            v, k = own[0]
            # sum(k_i * x_i) + k * s within [lb, ub], x_i >= 0: satisfiable for every x when s can absorb it
            if all(kk >= 0 for _, kk in rest) and k < 0 and (v.lb is None or v.lb <= 0) and (v.ub is None or v.ub >= 0) and (c.lb is None or c.lb <= 0) and c.ub is None:
                ok = True  # s = 0 works
        if not ok:
            out.append(f"{c.name}: {c.lb} <= {c.expression} <= {c.ub}")
    for r in model.reactions:
        if f.bounds[r.id] != (r.lower_bound, r.upper_bound):
            out.append(f"bounds of {r.id}")
    return out


def _fc_model(table):
    rxns = [RxnLP(rid, *b) for rid, (b, _, _, _) in table.items()]
    m = ModelLP(rxns, {next(iter(table)): 1.0})
    m.tolerance = CUT
    m.script = _Oracle(table)
    return m


def check_fastcc(ctx) -> None:
    prog = ctx.prog
    fn = prog.func("cobra.flux_analysis.fastcc", "fastcc")
    problems: Dict[str, str] = {}
    n = 0
    for label, table in (("irreversible, reversible, blocked and one-directional reactions", FC_FULL), ("every reaction found by the sparse mode", FC_ALL_FOUND), ("no irreversible reaction", FC_NO_IRREVERSIBLE)):
        model = _fc_model(table)
        oracle: _Oracle = model.script
        def fva_in_fastcc(it_, ev, c, args, kwargs, _m=model, _t=table):
            """A flux variability analysis called from fastcc poses, per requested reaction, one maximisation and one
            minimisation of its flux on the model as it is at the call - under the restriction FVA always adds:
            the model's objective held at fraction x optimum (also for fraction 0, unless the objective is empty)."""
            f = prog.func("cobra.flux_analysis.variability", "flux_variability_analysis")
            kw = dict(kwargs)
            for p_, v_ in zip(f.params, args):
                kw[p_] = v_
            m = kw.get("model")
            if m is not _m:
                raise Unknown("flux_variability_analysis on a model other than the one fastcc works on")
            form = Formulation(m)
            restricted = list(_restricting(m, form))
            obj = {v.name: k for v, k in Lin.of(m.solver.objective.expression).terms.items() if k}
            if obj:
                restricted.append(f"flux_variability_analysis holds the model's objective at {kw.get('fraction_of_optimum', 1.0)!r} x its optimum (an objective that can be negative cuts the cone even at fraction 0)")
            if kw.get("loopless") or kw.get("pfba_factor") is not None:
                restricted.append("loopless / total-flux cap")
            ids = [getattr(r, "id", r) for r in (kw.get("reaction_list") if kw.get("reaction_list") is not None else m.reactions)]
            lo, hi = [], []
            for rid in ids:
                _, mx, mn, _ = _t[rid]
                # on a restricted cone the answer can be zero for a reaction that can carry flux: answer adversarially
                a, b = ((0.0, 0.0) if restricted else (mn, mx))
                oracle._note(rid, "max", b, restricted)
                oracle._note(rid, "min", a, restricted)
                if b:
                    oracle.shown[rid] = b
                elif a:
                    oracle.shown[rid] = a
                lo.append(a)
                hi.append(b)
            return Frame({"minimum": lo, "maximum": hi}, ids)

        it = Interp(prog, NATIVE, ["cobra.flux_analysis.helpers.normalize_cutoff", "cobra.flux_analysis.fastcc._find_sparse_mode", "cobra.flux_analysis.fastcc._flip_coefficients"], {"cobra.flux_analysis.variability.flux_variability_analysis": fva_in_fastcc, "cobra.flux_analysis.flux_variability_analysis": fva_in_fastcc}, globals_={"Zero": Lin()})
        what = f"fastcc on a network with {label}"
        # solutions expose fluxes as a series
        orig_opt = model.optimize

        def optimize(objective_sense=None, raise_error=False, _m=model, _o=orig_opt):
            sol = _o(objective_sense, raise_error)
            ids = [r.id for r in _m.reactions]
            sol.fluxes = Ser([sol.fluxes.get(i, 0.0) for i in ids], ids)
            return sol

        model.optimize = optimize  # type: ignore[method-assign]
        try:
            out = _run(what, lambda: it.call(fn, [model], {}))
        except EvalRaise as exc:
            problems.setdefault("raise", f"{what} raises {exc.exc_type}")
            continue
        n += 1
        if not isinstance(out, ModelCopy):
            problems.setdefault("result", f"{what}: the result is not a copy of the model")
            continue
        dropped = sorted(out.removed)
        kept = sorted(set(table) - set(dropped))
        truly_blocked = sorted(rid for rid, (_, mx, mn, _) in table.items() if mx == 0.0 and mn == 0.0)
        for rid in kept:
            if rid not in oracle.shown:
                problems.setdefault("keep", f"{what}: {rid} is kept although no solve returned a non-zero flux for it")
        for rid in sorted(dropped, key=lambda x: (x in truly_blocked, x)):
            (lb0, ub0), mx, mn, _ = table[rid]
            rec = oracle.evidence.get(rid, {})
            truth = "blocked" if (mx == 0.0 and mn == 0.0) else f"able to carry flux (its range is [{mn:g}; {mx:g}])"
            for sense, closed in (("max", ub0 <= 0), ("min", lb0 >= 0)):
                if closed:
                    continue  # that direction is excluded by the bounds
                ev = rec.get(sense, [])
                if not ev:
                    problems.setdefault("drop", f"{what}: {rid} is removed although no problem that is exact for its {'forward' if sense == 'max' else 'backward'} direction was posed (no optimisation of its own flux in that direction; a sparse-mode optimum does not show that a reaction cannot carry flux); the verdict rests on which optimum the solver happened to return, and {rid} is in fact {truth}")
                    break
                if all(r for _, r in ev):
                    problems.setdefault("drop", f"{what}: the only {sense}imisation evidence for {rid} was obtained on a restricted flux cone ({ev[0][1][0]})")
                    break
                if any(o != 0.0 for o, r in ev if not r):
                    problems.setdefault("drop", f"{what}: {rid} is removed although a problem that is exact for it returned a non-zero optimum")
                    break
        if "drop" not in problems and "keep" not in problems and dropped != truly_blocked:
            problems.setdefault("drop", f"{what}: removed {dropped}, blocked are {truly_blocked}")
        if out.open_contexts != 0 or out.extra_variables or out.extra_constraints:
            problems.setdefault("result", f"{what}: the copy is taken while the analysis set-up is still in the model (open contexts: {out.open_contexts}, extra variables: {out.extra_variables[:2]})")
        if out.bounds != {rid: b for rid, (b, _, _, _) in table.items()} or out.objective != Formulation(_fc_model(table)).objective:
            problems.setdefault("result", f"{what}: the copy does not carry the input's bounds and objective")
        if model._stack or [c.name for c in model.solver.constraints.items] or model.solver.objective.name != "original_objective":
            problems.setdefault("result", f"{what}: the input model is left modified")
        for r in model.reactions:
            if (r.lower_bound, r.upper_bound) != table[r.id][0]:
                problems.setdefault("result", f"{what}: the bounds of {r.id} are left modified")
    for clause, text in (("keep", "a reaction is kept only if some solve returned a non-zero flux for it"),
                         ("drop", "a reaction is removed only when an exact problem returned zero for every direction its bounds allow"),
                         ("result", "the result is a copy of the untouched model, taken after all contexts are closed, minus the removed reactions"), ("raise", "no scenario raises")):
        if clause in problems:
            ctx.bad("C19.fastcc", fn, f"fastcc {clause}", problems[clause])
        else:
            ctx.ok("C19.fastcc", fn, f"fastcc {clause}", f"{n} networks: {text}")


def run(ctx) -> None:
    ctx.rule("C19.blocked", "oracle evaluation: find_blocked_reactions = requested reactions with an all-zero exact range", floor=5)
    ctx.rule("C19.fastcc", "oracle evaluation: fastcc verdicts rest on exact per-reaction problems", floor=4)
    for chk in (check_find_blocked, check_fastcc):
        try:
            chk(ctx)
        except AnalysisError as exc:
            ctx.defer(str(exc))
    # find_blocked_reactions hands FVA the list that is left after its pre-filter - possibly an empty one: an item list
    # is defaulted only when it is None, or an empty request is answered for the whole model (shared with C05/C14)
    from .common import check_none_defaults

    ctx.rule("C19.nonedefault", "T5: reaction lists are defaulted only when None (an empty request is not 'all reactions')", floor=2)
    p_ = ctx.prog
    check_none_defaults(ctx, "C19.nonedefault", [p_.func("cobra.flux_analysis.variability", "flux_variability_analysis"), p_.func("cobra.flux_analysis.variability", "find_blocked_reactions")])
    # the pre-filter of find_blocked_reactions reads one solution through get_solution(model, reactions=reaction_list):
    # each flux has to stand under the identifier of its own reaction for any order of the request (shared with C04)
    from . import solform

    ctx.rule("C04.labels", "finite evaluation: get_solution puts every value under the identifier of its own reaction / metabolite, whatever the order of the request (shared with C04)", floor=1)
    ctx.guard(solform.check_get_solution, ctx, "C04.labels")
    # open_exchanges=True widens `model.exchanges`: which reactions that list holds is decided by is_boundary_type over
    # the annotation / identifier tables - a reaction wrongly left out stays closed and everything behind it is reported
    # as blocked (shared with C18)
    from . import medform

    ctx.rule("C18.boundary", "finite domain: which reactions are exchanges / demands / sinks (is_boundary_type, find_boundary_types evaluated over the case table they distinguish; shared with C18)", floor=2)
    ctx.guard(medform.check_boundary_types, ctx, "C18.boundary")
