"""C08 - a gene rule is a Boolean function and its text form is faithful (tables and siblings)."""
from __future__ import annotations

import ast
import re
from typing import Dict, List, Optional, Set, Tuple

from .. import AnalysisError
from ..program import FuncInfo, ancestors, enclosing_stmt, norm, walk_local
from . import c07

EXPLANATION = (
    "Decided from tables and sibling implementations: (table) the identifier-escaping table is well-formed "
    "(distinct characters, identifier-safe tokens, no token containing another token or a table character), "
    "writer (from_string) and reader (GPRCleaner.visit_Name) iterate the same table, the prefix marker agrees "
    "between the substitutions, the startswith test and the removal (slice of exactly its length / removeprefix), "
    "the keyword alternation is built from keyword.kwlist minus and/or; (inband) whether an identifier can "
    "spell an escape token - it can: known finding K4; (siblings) the six interpreters of a rule tree "
    "(_eval_gpr, _ast2str, _symbolic_gpr, from_symbolic, GPRCleaner.visit_BinOp, SBML process_association) "
    "cover Name/Or/And and map Or/And to the or-/and-member of their target pair, recursing over all values; "
    "_ast2str parenthesises nested operators; (pickle) the rule is stored as text by __getstate__ and re-parsed "
    "by __setstate__, GPR.copy deep-copies; (remover) _GeneRemover implements gene := false (And with a lost "
    "child dies, Or keeps survivors, a single survivor is lifted), comparing against the child count taken "
    "before the children were visited; (nocache) reading methods of GPR keep no derived state that in-place "
    "rewrites would leave stale. The evaluator clauses of C07.eval are included. NOT decided: faithfulness for "
    "every expression (needs evaluation), sympy's equals."
)
ASSUMPTIONS = ["Python's ast.parse implements the usual and/or grammar and precedence", "sympy's Or/And are the Boolean connectives"]

IDENT = re.compile(r"^[A-Za-z_][A-Za-z0-9_]*$")


def run(ctx) -> None:
    ctx.rule("C08.table", "T7: escape table / prefix marker / keyword alternation are well-formed and shared by writer and reader", floor=8)
    ctx.rule("C08.inband", "T7: no identifier can spell an escape token (escape character itself escaped)", floor=1)
    ctx.rule("C08.siblings", "T5: the interpreters of a rule tree agree on node kinds and on the or/and polarity", floor=12)
    ctx.rule("C08.pickle", "T7: rule pickled as text and re-parsed; GPR.copy deep-copies", floor=3)
    ctx.rule("C08.remover", "finite evaluation: _GeneRemover implements gene := false; remove_genes rewrites every rule that mentions a removed gene", floor=3)
    ctx.rule("C08.nocache", "T4: GPR reading methods keep no derived state", floor=5)
    ctx.rule("C07.eval", "T5: _eval_gpr is the and/or homomorphism (shared with C07)", floor=8)
    from . import gprform

    n0, d0 = len(ctx.findings), len(ctx.deferred)
    ctx.guard(gprform.check_from_string, ctx, "C08.table")
    parse_failed = len(ctx.findings) > n0 or len(ctx.deferred) > d0
    # the structural reading of the escape table explains what the evaluated text -> rule clause decides; the in-band
    # token clause (K4) is a statement about the table itself and is always read
    held = []
    real_bad = ctx.bad
    ctx.bad = lambda *a, **k: (real_bad(*a, **k) if a and a[0] != "C08.table" else held.append((a, k)))  # type: ignore[method-assign]
    try:
        ctx.guard(check_table, ctx)
    finally:
        del ctx.bad
    for a, k in held:
        if parse_failed:
            ctx.bad(*a, **k)
        else:
            ctx.note(f"structural reading not confirmed by the evaluated text -> rule clause (no report): {a[3] if len(a) > 3 else a}"[:300])
    ctx.explain(parse_failed, check_table_spelling, ctx)
    ctx.guard(check_parser_tokens, ctx)
    check_siblings(ctx, parse_failed)
    check_pickle(ctx)
    check_remover(ctx)
    check_nocache(ctx)
    c07.check_eval(ctx)


# ----------------------------------------------------------------------------------------- table
def _literal_pairs(v: ast.AST) -> List[Tuple[str, str]]:
    out = []
    if isinstance(v, (ast.Tuple, ast.List)):
        for e in v.elts:
            if isinstance(e, (ast.Tuple, ast.List)) and len(e.elts) == 2 and all(isinstance(x, ast.Constant) and isinstance(x.value, str) for x in e.elts):
                out.append((e.elts[0].value, e.elts[1].value))
    return out


def check_table(ctx) -> None:
    prog = ctx.prog
    unit = prog.unit("cobra.core.gene")
    vals = unit.globals.get("replacements")
    if not vals:
        raise AnalysisError("core.gene.replacements not found")
    pairs = _literal_pairs(vals[-1])
    if len(pairs) < 5:
        # not written as a literal: take the value the module's own top-level statements compute
        from ..interp import Interp

        env = Interp(prog, (), [], {}, globals_={})._module_env(unit)
        v = env.get("replacements")
        if isinstance(v, (tuple, list)) and all(isinstance(p, (tuple, list)) and len(p) == 2 and all(isinstance(x, str) for x in p) for p in v):
            pairs = [(p[0], p[1]) for p in v]
    if len(pairs) < 5:
        raise AnalysisError("core.gene.replacements cannot be computed as a table of (character, token) pairs from the module's top-level statements")
    chars = [c for c, _ in pairs]
    toks = [t for _, t in pairs]
    rel = unit.rel
    if len(set(chars)) == len(chars) and all(len(c) == 1 for c in chars):
        ctx.ok("C08.table", None, "replacements characters", f"{len(chars)} distinct single characters")
    else:
        ctx.bad("C08.table", None, "replacements", "the escaped characters are not distinct single characters", file=rel)
    if len(set(toks)) == len(toks) and all(IDENT.match(t) for t in toks):
        ctx.ok("C08.table", None, "replacements tokens", "tokens are distinct and identifier-safe")
    else:
        ctx.bad("C08.table", None, "replacements", f"tokens are not distinct identifier-safe words: {[t for t in toks if not IDENT.match(t)]}", file=rel)
    nested = [(a, b) for a in toks for b in toks if a != b and a in b]
    nested = [(a, b) for a, b in nested if not (b.startswith(a) and False)]
    with_chars = [t for t in toks if any(c in t for c in chars)]
    if with_chars:
        ctx.bad("C08.table", None, "replacements", f"tokens {with_chars} contain a character that is itself escaped: decoding is order dependent", file=rel)
    elif nested:
        # a token that is a prefix of another decodes wrongly when the shorter one is replaced first
        order = {t: i for i, t in enumerate(toks)}
        wrong = [(a, b) for a, b in nested if order[a] < order[b]]
        if wrong:
            ctx.bad("C08.table", None, "replacements", f"token {wrong[0][0]!r} is contained in {wrong[0][1]!r} and is decoded first", file=rel)
        else:
            ctx.ok("C08.table", None, "replacements nesting", "contained tokens are decoded after the longer ones")
    else:
        ctx.ok("C08.table", None, "replacements nesting", "no token contains another token or an escaped character")
    _check_inband(ctx, toks, rel)


def check_table_spelling(ctx) -> None:
    """How writer and reader are spelled (shared loop over the table, prefix marker, keyword list): explains only."""
    prog = ctx.prog
    unit = prog.unit("cobra.core.gene")
    rel = unit.rel
    # writer and reader iterate the same table
    fs = prog.func("cobra.core.gene", "GPR.from_string")
    vn = prog.func("cobra.core.gene", "GPRCleaner.visit_Name")
    for fn, direction in ((fs, "encode"), (vn, "decode")):
        loops = [n for n in walk_local(fn.node) if isinstance(n, ast.For) and norm(n.iter) == "replacements"]
        if not loops:
            ctx.bad("C08.table", fn, fn.node, f"{fn.short} does not iterate the shared table `replacements`")
            continue
        lp = loops[0]
        a, b = (lp.target.elts[0].id, lp.target.elts[1].id) if isinstance(lp.target, ast.Tuple) else ("?", "?")
        reps = [n for n in ast.walk(lp) if isinstance(n, ast.Call) and isinstance(n.func, ast.Attribute) and n.func.attr == "replace" and len(n.args) == 2]
        want = (a, b) if direction == "encode" else (b, a)
        if reps and (norm(reps[0].args[0]), norm(reps[0].args[1])) == want:
            ctx.ok("C08.table", fn, reps[0], f"{direction}s with the shared table ({want[0]} -> {want[1]})")
        else:
            ctx.bad("C08.table", fn, lp, f"{fn.short} does not replace {want[0]} by {want[1]} for every table entry")
    # prefix marker
    subs = [n for n in walk_local(fs.node) if isinstance(n, ast.Call) and isinstance(n.func, ast.Attribute) and n.func.attr == "sub" and n.args and isinstance(n.args[0], ast.Constant)]
    markers = {n.args[0].value for n in subs if norm(n.func.value) in ("keyword_re", "number_start_re")}
    starts = [n for n in walk_local(vn.node) if isinstance(n, ast.Call) and isinstance(n.func, ast.Attribute) and n.func.attr == "startswith" and n.args and isinstance(n.args[0], ast.Constant)]
    if len(markers) != 1 or not starts:
        ctx.bad("C08.table", fs, fs.node, f"the prefix marker is not a single shared literal (writer uses {sorted(markers)})")
    else:
        marker = next(iter(markers))
        if starts[0].args[0].value != marker:
            ctx.bad("C08.table", vn, starts[0], f"the reader tests for {starts[0].args[0].value!r} but the writer inserts {marker!r}")
        else:
            ctx.ok("C08.table", vn, starts[0], "reader and writer use the same prefix marker")
        guard = [a for a in ancestors(starts[0]) if isinstance(a, ast.If)]
        body = guard[0].body if guard else []
        removal_ok = False
        site = None
        for st in body:
            if isinstance(st, ast.Assign) and norm(st.targets[0]).endswith(".id"):
                site = st
                v = st.value
                if isinstance(v, ast.Subscript) and isinstance(v.slice, ast.Slice) and v.slice.upper is None and v.slice.step is None:
                    lo = v.slice.lower
                    if isinstance(lo, ast.Constant) and lo.value == len(marker):
                        removal_ok = True
                    if isinstance(lo, ast.Call) and norm(lo.func) == "len" and lo.args and isinstance(lo.args[0], ast.Constant) and lo.args[0].value == marker:
                        removal_ok = True
                if isinstance(v, ast.Call) and isinstance(v.func, ast.Attribute) and v.func.attr == "removeprefix" and v.args and isinstance(v.args[0], ast.Constant) and v.args[0].value == marker:
                    removal_ok = True
        if removal_ok:
            ctx.ok("C08.table", vn, site, f"exactly the {len(marker)} characters of the marker are removed")
        else:
            ctx.bad("C08.table", vn, site or starts[0], f"the prefix marker is not removed as exactly its {len(marker)} leading characters (a character-set strip or a wrong slice mangles identifiers that start with those characters)")
        if not IDENT.match(marker):
            ctx.bad("C08.table", fs, subs[0], "the prefix marker is not identifier-safe")
    # keyword alternation from kwlist minus and/or
    kw = unit.globals.get("keywords")
    removed = set()
    for n in ast.walk(unit.tree):
        if isinstance(n, ast.Call) and isinstance(n.func, ast.Attribute) and n.func.attr == "remove" and norm(n.func.value) == "keywords" and n.args and isinstance(n.args[0], ast.Constant):
            removed.add(n.args[0].value)
    from_kwlist = bool(kw) and "kwlist" in norm(kw[0])
    if from_kwlist and removed == {"and", "or"}:
        ctx.ok("C08.table", None, "keywords", "built from keyword.kwlist minus exactly and/or")
    else:
        ctx.bad("C08.table", None, "keywords", f"the escaped keyword list is {'not built from keyword.kwlist' if not from_kwlist else 'kwlist minus ' + str(sorted(removed))}: it must be every keyword except and/or", file=rel)
    kre = unit.globals.get("keyword_re")
    if kre and "keywords" in norm(kre[-1]) and "\\\\b" in norm(kre[-1]).replace("\\b", "\\\\b"):
        ctx.ok("C08.table", None, "keyword_re", "alternation joined from the keyword list with word boundaries", nontrivial=False)


def _check_inband(ctx, toks, rel) -> None:
    # ---- in-band tokens (K4)
    inband = [t for t in toks if IDENT.match(t)]
    if inband:
        ctx.bad(
            "C08.inband",
            None,
            "replacements",
            f"the tokens are spelled only with identifier characters and those are not escaped themselves: a gene identifier that contains e.g. {inband[-2] if len(inband) > 1 else inband[0]!r} is decoded to a different identifier",
            file=rel,
        )
    else:
        ctx.ok("C08.inband", None, "replacements", "tokens cannot occur in an identifier")


# -------------------------------------------------------------------------------------- siblings
def _polarity(ctx, fn: FuncInfo, or_test, and_test, or_member, and_member, label: str) -> None:
    """Within fn, the branch selected by or_test must use or_member (and never and_member); same for and."""
    found = {"or": False, "and": False}
    for test, body in c07._branches_all(fn.node):
        if test is None:
            continue
        t = norm(test)
        which = "or" if or_test(t) else "and" if and_test(t) else None
        if which is None:
            continue
        found[which] = True
        txt = " ".join(" ".join(ast.unparse(s).split()) for s in body)
        good, wrong = (or_member, and_member) if which == "or" else (and_member, or_member)
        rec_all = ("values" in txt or "args" in txt or "getListOfAssociations" in txt or ("left" in txt and "right" in txt))
        if good(txt) and not wrong(txt) and rec_all:
            ctx.ok("C08.siblings", fn, test, f"{label}: {which} branch builds the {which}-member over all operands")
        elif not rec_all:
            ctx.bad("C08.siblings", fn, test, f"{label}: the {which} branch does not recurse over all operands")
        else:
            ctx.bad("C08.siblings", fn, test, f"{label}: the {which} branch builds the {'and' if which == 'or' else 'or'}-member (polarity swapped)")
    for k, v in found.items():
        if not v:
            ctx.bad("C08.siblings", fn, fn.node, f"{label}: no case for the {k} operator")


def check_siblings(ctx, parse_failed: bool = True) -> None:
    check_operand_lists(ctx)
    ctx.guard(check_equivalence, ctx)
    from . import gprform

    ctx.guard(gprform.check_interpreters, ctx, "C08.siblings")
    ctx.guard(gprform.check_remove_genes, ctx, "C08.remover")
    prog = ctx.prog
    # to_string/_ast2str, as_symbolic/_symbolic_gpr and from_symbolic are evaluated (gprform) instead of read by shape
    vb = prog.func("cobra.core.gene", "GPRCleaner.visit_BinOp")
    # visit_BinOp is evaluated as part of the text -> rule clause (`(a & b) | c`): its reading explains only
    ctx.explain(parse_failed, _polarity, ctx, vb, lambda t: "BitOr" in t, lambda t: "BitAnd" in t, lambda x: "BoolOp(Or()" in x, lambda x: "BoolOp(And()" in x, "GPRCleaner.visit_BinOp")
    pa = prog.func("cobra.io.sbml", "_sbml_to_model.process_association")
    _polarity(ctx, pa, lambda t: "isFbcOr" in t, lambda t: "isFbcAnd" in t, lambda x: "BoolOp(Or()" in x, lambda x: "BoolOp(And()" in x, "SBML process_association")


# ---------------------------------------------------------------------------------------- pickle
def check_pickle(ctx) -> None:
    prog = ctx.prog
    rg = prog.func("cobra.core.reaction", "Reaction.__getstate__")
    rs = prog.func("cobra.core.reaction", "Reaction.__setstate__")
    as_text = [n for n in walk_local(rg.node) if isinstance(n, ast.Assign) and isinstance(n.targets[0], ast.Subscript) and norm(n.targets[0].slice) == "'_gpr'"]
    if as_text and isinstance(as_text[0].value, ast.Call) and norm(as_text[0].value.func) == "str" and norm(as_text[0].value.args[0]).endswith("._gpr"):
        ctx.ok("C08.pickle", rg, as_text[0], "rule stored as its text form")
    else:
        ctx.bad("C08.pickle", rg, rg.node, "the pickled state does not hold the rule as text produced by str(rule)")
    parse = [n for n in walk_local(rs.node) if isinstance(n, ast.Call) and norm(n.func) == "GPR.from_string"]
    if parse and "_gpr" in norm(parse[0].args[0]):
        ctx.ok("C08.pickle", rs, parse[0], "text rule re-parsed on unpickling")
    else:
        ctx.bad("C08.pickle", rs, rs.node, "a rule stored as text is not re-parsed with GPR.from_string on unpickling")
    cp = prog.func("cobra.core.gene", "GPR.copy")
    if any(isinstance(n, ast.Call) and norm(n.func) == "deepcopy" for n in walk_local(cp.node)):
        ctx.ok("C08.pickle", cp, cp.node.body[-1], "GPR.copy deep-copies the tree")
    else:
        ctx.bad("C08.pickle", cp, cp.node, "GPR.copy is not a deep copy: the copy shares nodes with the original")
    st = prog.func("cobra.core.gene", "GPR.__str__")
    calls = [n for n in walk_local(st.node) if isinstance(n, ast.Call) and norm(n.func).endswith("to_string")]
    if calls:
        ctx.ok("C08.pickle", st, calls[0], "str(rule) is the id-based text form", nontrivial=False)
    else:
        ctx.bad("C08.pickle", st, st.node, "str(rule) is no longer produced by to_string")


# --------------------------------------------------------------------------------------- remover
def check_remover(ctx) -> None:
    """_GeneRemover is evaluated (gprform.check_gene_remover): no spelling of its two visit methods is prescribed."""
    from . import gprform

    ctx.guard(gprform.check_gene_remover, ctx, "C08.remover")


# --------------------------------------------------------------------------------------- nocache
def check_operand_lists(ctx) -> None:
    """Every BoolOp built by the package holds its operands in a list: ast.NodeTransformer / NodeVisitor descend into
    lists only, so a tuple hides the operands from the gene remover and the renamer."""
    prog = ctx.prog
    n = 0
    for fn in prog.all_funcs():
        if not fn.qualname.startswith(("cobra.core.gene", "cobra.io.sbml", "cobra.manipulation")):
            continue
        for c in walk_local(fn.node):
            if not (isinstance(c, ast.Call) and norm(c.func).split(".")[-1] == "BoolOp"):
                continue
            vals = c.args[1] if len(c.args) > 1 else next((k.value for k in c.keywords if k.arg == "values"), None)
            if vals is None:
                continue
            n += 1
            ok = isinstance(vals, (ast.List, ast.ListComp)) or (isinstance(vals, ast.Call) and norm(vals.func) == "list")
            if not ok and isinstance(vals, ast.Name):
                defs = [d for d in walk_local(fn.node) if isinstance(d, ast.Assign) and len(d.targets) == 1 and isinstance(d.targets[0], ast.Name) and d.targets[0].id == vals.id]
                ok = bool(defs) and all(isinstance(d.value, (ast.List, ast.ListComp)) or (isinstance(d.value, ast.Call) and norm(d.value.func) == "list") for d in defs)
            if ok:
                ctx.ok("C08.siblings", fn, c, "operands are held in a list (visible to the node transformers)")
            else:
                ctx.bad("C08.siblings", fn, c, f"the operands of this BoolOp are `{norm(vals)}`, not a list: ast.NodeTransformer does not descend into tuples, so remove_genes and rename_genes leave rules built here untouched")
    if n == 0:
        raise AnalysisError("no BoolOp construction found")


def check_parser_tokens(ctx) -> None:
    """from_string rewrites operator spellings only as whole words: every textual substitution of and/or/AND/OR goes
    through a regular expression with word boundaries on both sides (regex AST), never through str.replace - a gene id
    such as YOR374W or RAND1 contains the letters of an operator."""
    import re._parser as sre  # type: ignore
    import re._constants as sc  # type: ignore

    fn = ctx.prog.func("cobra.core.gene", "GPR.from_string")
    words = {"and", "or", "AND", "OR", "And", "Or"}
    n = 0
    for c in walk_local(fn.node):
        if not isinstance(c, ast.Call) or not isinstance(c.func, ast.Attribute):
            continue
        if c.func.attr == "replace" and c.args and isinstance(c.args[0], ast.Constant) and str(c.args[0].value).strip() in words:
            n += 1
            ctx.bad("C08.table", fn, c, f"`.replace({c.args[0].value!r}, ...)` rewrites the letters wherever they occur: identifiers that contain them (YOR374W, RAND1, ORF19) are changed and the rule names the wrong genes")
        if c.func.attr == "compile" and norm(c.func.value) == "re" and c.args and isinstance(c.args[0], ast.Constant) and isinstance(c.args[0].value, str):
            pat = c.args[0].value
            if not any(w in pat for w in ("AND", "OR")) or "|" in pat and "(" in pat and "keyword" in norm(enclosing_stmt(c)):
                continue
            n += 1
            items = list(sre.parse(pat))
            bounded = len(items) >= 3 and items[0] == (sc.AT, sc.AT_BOUNDARY) and items[-1] == (sc.AT, sc.AT_BOUNDARY)
            if bounded:
                ctx.ok("C08.table", fn, c, f"operator spelling `{pat}` is matched as a whole word only")
            else:
                ctx.bad("C08.table", fn, c, f"the operator pattern `{pat}` is not anchored by word boundaries on both sides: it also matches inside identifiers")
        if c.func.attr in ("sub", "subn") and norm(c.func.value) == "re" and c.args and isinstance(c.args[0], ast.Constant) and isinstance(c.args[0].value, str) and any(w in c.args[0].value for w in ("AND", "OR")):
            pat = c.args[0].value
            n += 1
            items = list(sre.parse(pat))
            bounded = len(items) >= 3 and items[0] == (sc.AT, sc.AT_BOUNDARY) and items[-1] == (sc.AT, sc.AT_BOUNDARY)
            if bounded:
                ctx.ok("C08.table", fn, c, f"operator spelling `{pat}` is matched as a whole word only")
            else:
                ctx.bad("C08.table", fn, c, f"the operator pattern `{pat}` is not anchored by word boundaries on both sides: it also matches inside identifiers")
    if n == 0:
        ctx.note("C08.table: no familiar spelling of the upper-case operator handling in GPR.from_string; decided by the evaluated text -> rule clause (identifiers that contain AND / OR)")


def check_equivalence(ctx) -> None:
    """__eq__ decides logical equivalence of the two symbolic forms with `equals` on those very expressions: anything
    that compares up to a renaming of the genes (bool_map) or by atoms/shape calls different rules equal."""
    fn = ctx.prog.func("cobra.core.gene", "GPR.__eq__")
    rets = [r for r in walk_local(fn.node) if isinstance(r, ast.Return) and r.value is not None]
    bad = [c for c in walk_local(fn.node) if isinstance(c, ast.Call) and norm(c.func).split(".")[-1] in ("bool_map", "simplify_logic", "atoms", "count_ops")]
    last = max(rets, key=lambda r: r.lineno) if rets else None
    ok = last is not None and isinstance(last.value, ast.Call) and isinstance(last.value.func, ast.Attribute) and last.value.func.attr == "equals" and len(last.value.args) == 1
    if bad:
        ctx.bad("C08.siblings", fn, enclosing_stmt(bad[0]), f"`{norm(bad[0])}`: equality is decided by a test that is blind to which gene sits where (equal up to renaming / same atoms): '(a or b) and c' == '(a or c) and b'")
    elif ok:
        ctx.ok("C08.siblings", fn, last, "general case: sympy equivalence (`equals`) of the two symbolic forms")
    else:
        ctx.bad("C08.siblings", fn, last or fn.node, "the general case of __eq__ is not decided by `equals` on the symbolic forms")


def check_nocache(ctx) -> None:
    prog, eff = ctx.prog, ctx.eff
    gpr = prog.cls("GPR")
    allowed = {"__init__": None, "update_genes": {"_genes"}, "from_string": None, "from_symbolic": None}
    # the constructor may only set up the tree and the gene set: any other attribute is derived state waiting to go stale
    init_ok = {"body", "_genes"}
    for name, ms in gpr.methods.items():
        for m in ms:
            writes = []
            for n in walk_local(m.node):
                if isinstance(n, (ast.Assign, ast.AugAssign)):
                    tgts = n.targets if isinstance(n, ast.Assign) else [n.target]
                    for t in tgts:
                        if isinstance(t, ast.Attribute) and isinstance(t.value, ast.Name) and t.value.id == (m.self_name or "self"):
                            writes.append((t.attr, n))
                        # self.<attr>[key] = value : a memo table kept on the object
                        if isinstance(t, ast.Subscript) and isinstance(t.value, ast.Attribute) and isinstance(t.value.value, ast.Name) and t.value.value.id == (m.self_name or "self"):
                            writes.append((t.value.attr, n))
                elif isinstance(n, ast.Call) and isinstance(n.func, ast.Attribute) and n.func.attr in ("setdefault", "update", "append", "add", "__setitem__") \
                        and isinstance(n.func.value, ast.Attribute) and isinstance(n.func.value.value, ast.Name) and n.func.value.value.id == (m.self_name or "self") and n.func.value.attr != "body":
                    writes.append((n.func.value.attr, n))
            if not writes:
                if name in ("eval", "to_string", "as_symbolic", "__eq__", "_eval_gpr", "_ast2str", "_symbolic_gpr"):
                    ctx.ok("C08.nocache", m, None, "computes from the tree on every call", nontrivial=True)
                continue
            for attr, node in writes:
                if name == "__init__" and attr not in init_ok:
                    ctx.bad("C08.nocache", m, node, f"GPR.__init__ creates self.{attr}: besides the tree (body) and the gene set a GPR holds no state; a memo table is not invalidated by in-place rewrites of the tree (remove_genes, rename_genes)")
                    continue
                if name in allowed and (allowed[name] is None or attr in allowed[name]):
                    continue
                ctx.bad("C08.nocache", m, node, f"GPR.{name} stores derived state in self.{attr}: in-place rewrites of the tree (remove_genes, rename_genes) do not invalidate it, so later reads describe the old rule")
    # the cached gene set is read through the `genes` property only (which re-derives it first)
    for name, ms in gpr.methods.items():
        if name in ("genes", "update_genes", "__init__", "copy", "__copy__", "__deepcopy__", "from_string", "from_symbolic"):
            continue
        for m in ms:
            for n in walk_local(m.node):
                if isinstance(n, ast.Attribute) and n.attr == "_genes" and isinstance(n.ctx, ast.Load) and isinstance(n.value, ast.Name) and n.value.id == (m.self_name or "self"):
                    ctx.bad("C08.nocache", m, enclosing_stmt(n), f"GPR.{name} reads the cached gene set `self._genes` directly: it holds identifier strings as of the last update, so the answer depends on the type of the caller's collection (a DictList of Gene objects never intersects it) and goes stale after in-place rewrites")
    # update_genes re-derives the set on every path (an emptied rule has no genes, not the old ones)
    ug = prog.func("cobra.core.gene", "GPR.update_genes")
    gg = ctx.flow.cfg(ug)
    writes = set()
    for n in walk_local(ug.node):
        if isinstance(n, ast.Assign) and any(isinstance(t, ast.Attribute) and t.attr == "_genes" and isinstance(t.value, ast.Name) and t.value.id == (ug.self_name or "self") for t in n.targets):
            writes |= {x for x in gg.node_containing(n) if x.kind != "with_exit"}
    exits = [x for x in gg.nodes if x.kind == "exit"]
    w = gg.reaches_without(exits, lambda x: x in writes, edge_ok=lambda a, b, l: l != "exc")
    if not writes or w is not None:
        ctx.bad("C08.nocache", ug, ug.node, "update_genes can return without assigning the gene set (e.g. for a rule without body): after a rule has been emptied in place GPR.genes still reports the genes of the old rule")
    else:
        ctx.ok("C08.nocache", ug, ug.node, "every path through update_genes assigns the gene set")
    g = prog.func("cobra.core.gene", "GPR.genes")
    if any(isinstance(n, ast.Call) and norm(n.func).endswith("update_genes") for n in walk_local(g.node)):
        ctx.ok("C08.nocache", g, "self.update_genes()", "the gene set is re-derived from the tree on every read")
    else:
        ctx.bad("C08.nocache", g, g.node, "GPR.genes returns the cached gene set without re-deriving it from the tree")
