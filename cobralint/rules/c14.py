"""C14 - results do not depend on process count, scheduling or item order (structural clauses)."""
from __future__ import annotations

from ..program import enclosing_stmt, norm
from . import c06, c13, c16, fa
from .common import check_none_defaults

EXPLANATION = (
    "Decided structurally: (keyed) results of an unordered pool primitive are placed by a key the worker returns "
    "(FVA) or are order-free rows carrying their own ids (deletions); positional consumption only with ordered "
    "primitives (OptGP uses pool.map); (residue) each task function leaves nothing behind on the worker model: "
    "the FVA step resets its objective coefficient on every normal exit, deletion workers do everything inside a "
    "per-task context, and the per-item helpers loopless_fva_iter/_reaction_deletion/_gene_deletion have no effect on "
    "the worker's model that outlives the item (scope analysis of C13); (tasks) the deletion task set is the set of "
    "frozensets over the full product, whatever the order of the lists; (count) OptGP's bookkeeping uses the number "
    "of samples actually produced; (chunk) chunk size >= 1 through the dominating clamp; (seed) each chain seeds the generator "
    "with sampler seed + chain index before any draw; (shared) a chain never modifies in place what it aliases from "
    "the shared-memory sampler; (nonedefault) item lists are defaulted only when None, so a request that happens "
    "to be empty is not turned into 'all items'. NOT decided: actual schedules, solver warm-start effects, "
    "numerical equality across processes."
)
ASSUMPTIONS = ["worker processes operate on pickled copies of the model", "multiprocessing's map preserves argument order"]


def _relabel(ctx, check, old: str, new: str) -> None:
    before = len(ctx.instances)
    ctx.guard(check, ctx)
    for i in ctx.instances[before:]:
        if i["rule"] == old:
            i["rule"] = new
    for f in ctx.findings:
        if f.rule == old:
            f.rule = new


def run(ctx) -> None:
    ctx.rule("C14.tasks", "the set of deletion tasks does not depend on the order of the requested items (shared with C06)", floor=3, hard=0)
    ctx.rule("C14.count", "OptGP: sample count bookkeeping is independent of the process count (shared with C16)", floor=1)
    ctx.rule("C14.keyed", "T5: unordered pool primitive => keyed / order-free consumption", floor=3)
    ctx.rule("C14.residue", "T1/T2: task functions leave no residue on the worker model", floor=6)
    ctx.rule("C14.chunk", "T6: chunk size >= 1", floor=2)
    ctx.rule("C14.seed", "T6: per-chain seed distinct and set before any draw", floor=2)
    ctx.rule("C14.shared", "T8: shared sampler state is never modified in place by a chain", floor=1)
    ctx.rule("C14.nonedefault", "T5: item lists / process counts are defaulted only when None", floor=4)
    fa.check_keyed(ctx, "C14.keyed", [fa.FVA, ("cobra.flux_analysis.deletion", "_multi_deletion"), ("cobra.sampling.optgp", "OptGPSampler.sample")])
    fa.check_fva_step(ctx, "C14.residue", covered_by="C05.formulation")
    from . import fvaform

    ctx.rule("C05.formulation", "formulation: every FVA step optimises one reaction with the previous coefficients reset (shared with C05)", floor=7)
    ctx.guard(fvaform.check_fva_formulation, ctx, "C05.formulation")
    # deletion workers: reuse the scope clause under this rule id
    before = len(ctx.instances)
    c06.check_scope(ctx)
    for i in ctx.instances[before:]:
        i["rule"] = "C14.residue"
    for f in ctx.findings:
        if f.rule == "C06.scope":
            f.rule = "C14.residue"
    # per-item helpers that run on the worker's model: no effect may outlive the item (C13's scope analysis on them)
    check_item_helpers(ctx, "C14.residue", (("cobra.flux_analysis.loopless", "loopless_fva_iter"), ("cobra.flux_analysis.deletion", "_reaction_deletion"), ("cobra.flux_analysis.deletion", "_gene_deletion")))
    # the deletion functions evaluated end to end, serially and through the pool stand-in with 2 and 3 processes (shared
    # with C06): the rows must be the same set whatever the process count; the reading of the task set only explains
    from . import delform

    ctx.rule("C06.formulation", "oracle evaluation: one row per combination whatever the process count (shared with C06)", floor=6)
    n0 = len(ctx.findings)
    ctx.guard(delform.check_deletions, ctx, "C06.formulation")
    deletions_failed = len(ctx.findings) > n0 or bool(ctx.deferred)
    _relabel(ctx, lambda c: c.explain(deletions_failed, c06.check_tasks, c), "C06.tasks", "C14.tasks")
    _relabel(ctx, c16.check_count_both, "C16.count", "C14.count")
    fa.check_chunk(ctx, "C14.chunk", [fa.FVA, ("cobra.flux_analysis.deletion", "_multi_deletion")])
    fa.check_seed(ctx, "C14.seed")
    fa.check_shared_state(ctx, "C14.shared")
    from . import poolform

    ctx.rule("C14.pool", "evaluation: the process pool wrapper starts every worker with initializer(*initargs) as given, on every platform, and cleans up on every exit", floor=1)
    ctx.guard(poolform.check_pool, ctx, "C14.pool")
    p = ctx.prog
    fns = [p.func(*fa.FVA), p.func("cobra.flux_analysis.variability", "find_blocked_reactions"), p.func("cobra.flux_analysis.deletion", "_multi_deletion"), p.func("cobra.sampling.optgp", "OptGPSampler.__init__")]
    check_none_defaults(ctx, "C14.nonedefault", fns)


def check_item_helpers(ctx, rule: str, helpers) -> None:
    """Per-item helpers that run on the worker's model: no effect may outlive the item (C13's scope analysis)."""
    for mod, short in helpers:
        fn = ctx.prog.func(mod, short)
        bad = []
        for e in ctx.eff.summary(fn):
            if not c13.is_model_cell(e.cell) or not c13.visible_roots(ctx, fn, e):
                continue
            key = (e.fn.qualname.replace("cobra.", "", 1), norm(enclosing_stmt(e.node)))
            if key in c13.FROZEN_EXCEPTIONS:
                continue
            bad.append(e)
        if bad:
            e = bad[0]
            via = " <- ".join(f"{c[0].short}@L{getattr(c[1], 'lineno', 0)}" for c in e.chain[:5])
            ctx.bad(rule, e.fn, enclosing_stmt(e.node), f"(reached via {via or short}) {e.op} of {e.cell} made while handling one item of {short} is not undone before the next item: later items of the same worker see it, so results depend on request order, chunking and process count")
        else:
            ctx.ok(rule, fn, None, "every effect on the worker's model is scoped to the item")
