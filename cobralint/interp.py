"""A small interpreter for package functions over stand-in objects (no code of /repo is executed).

Functions are evaluated from their AST with :class:`absint.Evaluator`; values are either plain
Python data or instances of the stand-in classes a rule set supplies (``native`` types), whose
attributes and methods are used directly.  Calls to package functions are resolved through the
program model: a function listed in ``follow`` is evaluated recursively, one listed in ``stubs``
is replaced by the given stand-in, anything else is an :class:`absint.Unknown` (fail closed).
"""
from __future__ import annotations

import ast
import itertools
from collections import namedtuple
from typing import Any, Callable, Dict, List, Optional, Sequence, Tuple

from .absint import EvalRaise, EvalReturn, Evaluator, LocalFunc, Opaque, Unknown
from .program import ClassInfo, FuncInfo, Unit, norm

SAFE_METHODS = {
    dict: {"items", "keys", "values", "get", "copy", "update", "setdefault", "pop", "clear"},
    list: {"append", "extend", "copy", "index", "count", "pop", "remove", "insert", "clear", "reverse", "sort"},
    str: {"encode", "format", "title", "startswith", "endswith", "lower", "upper", "join", "replace", "split", "strip", "lstrip", "rstrip", "find", "isdigit", "removeprefix", "removesuffix", "zfill", "isalpha", "isalnum", "partition", "rpartition", "rfind", "index", "count", "isidentifier"},
    tuple: {"index", "count"},
    set: {"add", "union", "copy", "difference", "intersection", "issubset", "issuperset", "isdisjoint", "symmetric_difference", "update", "discard", "remove", "pop", "difference_update", "intersection_update", "symmetric_difference_update", "clear"},
    frozenset: {"union", "copy", "difference", "intersection", "issubset", "issuperset", "isdisjoint", "symmetric_difference"},
    type(__import__("re").compile("")): {"sub", "subn", "findall", "match", "search", "fullmatch", "split"},
    type(__import__("re").match("", "")): {"group", "groups", "start", "end", "span", "groupdict"},
    slice: {"indices"},
    range: {"index", "count"},
}
_RE_PATTERN = type(__import__("re").compile(""))


def _frame(*a, **k):
    from .framemodel import Frame

    return Frame.build(*a, **k)


class PartialRef:
    def __init__(self, target, *args, **kwargs):
        self.target, self.args, self.kwargs = target, args, kwargs


EXTERNAL = {
    "functools.partial": PartialRef,
    "functools.cmp_to_key": __import__("functools").cmp_to_key,
    "itertools.product": lambda *a, **k: list(itertools.product(*a, **k)),
    "itertools.chain": lambda *a: list(itertools.chain(*a)),
    "itertools.islice": lambda *a: list(itertools.islice(*a)),
    "warnings.warn": lambda *a, **k: None,
    "numpy.zeros": lambda n, dtype=float: [0.0] * n,
    "pandas.DataFrame": _frame,
    "pandas.Series": lambda *a, **k: _series(*a, **k),
    "pandas.concat": lambda *a, **k: _concat(*a, **k),
    "numpy.isnan": lambda x: isinstance(x, float) and x != x,
    "numpy.isinf": lambda x: isinstance(x, float) and x in (float("inf"), float("-inf")),
    "math.isnan": lambda x: isinstance(x, float) and x != x,
    "numpy.isfinite": lambda x: not (isinstance(x, float) and (x != x or x in (float("inf"), float("-inf")))),
    "math.isfinite": lambda x: not (isinstance(x, float) and (x != x or x in (float("inf"), float("-inf")))),
    "math.isinf": lambda x: isinstance(x, float) and x in (float("inf"), float("-inf")),
    "collections.OrderedDict": dict,
    "re.compile": lambda *a, **k: __import__("re").compile(*a, **k),
    "re.escape": lambda *a, **k: __import__("re").escape(*a, **k),
    "re.sub": lambda *a, **k: __import__("re").sub(*a, **k),
    "re.subn": lambda *a, **k: __import__("re").subn(*a, **k),
    "re.findall": lambda *a, **k: __import__("re").findall(*a, **k),
    "re.split": lambda *a, **k: __import__("re").split(*a, **k),
    "re.match": lambda *a, **k: __import__("re").match(*a, **k),
    "re.search": lambda *a, **k: __import__("re").search(*a, **k),
    "re.fullmatch": lambda *a, **k: __import__("re").fullmatch(*a, **k),
    "operator.attrgetter": lambda *a: __import__("operator").attrgetter(*a),
}


def _concat(objs, axis=0, sort=False, **kw):
    from .framemodel import Frame, Ser, Unsupported, NAN

    objs = list(objs)
    if kw or axis != 1 or not all(isinstance(o, Ser) for o in objs):
        raise Unsupported("concat other than series side by side")
    index = []
    for o in objs:
        for l in o.index:
            if l not in index:
                index.append(l)
    if sort:
        index = sorted(index)
    cols = {}
    for n, o in enumerate(objs):
        got = dict(zip(o.index, o.values))
        cols[n] = [got.get(l, NAN) for l in index]
    return Frame(cols, index)


def _series(data=None, index=None, **kw):
    from .framemodel import Ser, Unsupported

    kw = {k: v for k, v in kw.items() if k not in ("name", "dtype")}  # the label and the element type are not modelled
    if kw:
        raise Unsupported("Series options")
    if data is None:
        return Ser([], [])
    if isinstance(data, dict):
        return Ser(list(data.values()), list(data.keys()))
    data = list(data)
    return Ser(data, list(index) if index is not None else list(range(len(data))))


EXTERNAL_CONSTANTS = {
    "keyword.kwlist": list(__import__("keyword").kwlist),
    "optlang.interface.OPTIMAL": "optimal",
    "optlang.interface.INFEASIBLE": "infeasible",
    "optlang.interface.UNBOUNDED": "unbounded",
    "optlang.interface.FEASIBLE": "feasible",
    "numpy.inf": float("inf"),
    "numpy.nan": float("nan"),
    "math.inf": float("inf"),
    "math.nan": float("nan"),
}


class FuncRef:
    """A package function used as a value (e.g. handed to map). ``raw``: the undecorated function (what a decorator
    receives as its argument)."""

    def __init__(self, fn: FuncInfo, raw: bool = False):
        self.fn = fn
        self.raw = raw

    @property
    def __name__(self):
        return self.fn.node.name


class Closure:
    """A nested function together with the environment it was defined in."""

    def __init__(self, fn: FuncInfo, env: Dict[str, Any], defaults: Optional[Dict[str, Any]] = None):
        self.fn, self.env = fn, env
        self.defaults = dict(defaults or {})  # evaluated when the function was defined (early binding)


class ExitStackStub:
    """contextlib.ExitStack: callbacks run last-in-first-out when the block is left, also by an exception."""

    _absint_context = True

    def __init__(self, it, ev):
        self._it, self._ev, self._cbs = it, ev, []

    def _absint_enter(self):
        return self

    def callback(self, fn, *args, **kwargs):
        self._cbs.append((fn, args, kwargs))
        return fn

    def pop_all(self):
        new = ExitStackStub(self._it, self._ev)
        new._cbs, self._cbs = self._cbs, []
        return new

    def close(self):
        self._absint_exit()

    def _absint_exit(self):
        while self._cbs:
            fn, args, kwargs = self._cbs.pop()
            self._it.call_value(fn, list(args), dict(kwargs), self._ev, None)


class IdentityDict(dict):
    """weakref.WeakKeyDictionary / WeakValueDictionary at module level: a mapping that lives as long as the module
    (the evaluated scenarios keep their objects alive, so weakness makes no difference)."""


class ExtFunc:
    """A function of a modelled library (or a factory result of one) carried around as a value."""

    def __init__(self, f, name="<library function>"):
        self.f = f
        self.name = name

    def __call__(self, *a, **k):
        return self.f(*a, **k)

    def __repr__(self):
        return f"<{self.name}>"


class PoolStub:
    """cobra.util.ProcessPool: the initializer runs once (with the model it is given - a worker holds a pickled copy; the
    stand-in hands over the object itself, which is what the results depend on), tasks run one after the other, and
    the *unordered* primitive hands the results back in reversed order (any order is admissible: code that consumes
    them by position gets the wrong rows)."""

    _absint_context = True

    def __init__(self, it, ev, processes=None, initializer=None, initargs=(), **kw):
        self._it, self._ev = it, ev
        self.processes, self.initializer, self.initargs = processes, initializer, tuple(initargs or ())
        self.started = False

    def _absint_enter(self):
        if self.initializer is not None:
            self._it.call_value(self.initializer, list(self.initargs), {}, self._ev, None)
        self.started = True
        return self

    def _absint_exit(self):
        self.started = False

    # tasks are taken in the order of the iterable, or - for scenarios that ask for it - in the opposite order (a set
    # of tasks has no order of its own: what a worker leaves behind must not matter whichever task comes next)
    reverse_tasks = False

    def _run(self, fn, items):
        items = list(items)
        if PoolStub.reverse_tasks:
            return list(reversed([self._it.call_value(fn, [x], {}, self._ev, None) for x in reversed(items)]))
        return [self._it.call_value(fn, [x], {}, self._ev, None) for x in items]

    def map(self, fn, items, chunksize=None):
        self._chunk(chunksize)
        return self._run(fn, items)

    def imap(self, fn, items, chunksize=1):
        self._chunk(chunksize)
        return self._run(fn, items)

    def imap_unordered(self, fn, items, chunksize=1):
        self._chunk(chunksize)
        return list(reversed(self._run(fn, items)))

    def _chunk(self, chunksize):
        if chunksize is not None and not (isinstance(chunksize, int) and chunksize >= 1):
            raise ValueError(f"Chunksize must be 1+, not {chunksize!r}")

    def close(self):
        pass

    def join(self):
        pass


class ConfigStub:
    """cobra.Configuration() with its documented defaults (a module-level `configuration = Configuration()`)."""

    def __init__(self):
        self.lower_bound, self.upper_bound = -1000.0, 1000.0
        self.tolerance = 1e-07
        self.processes = 1
        self.solver = "glpk"

    @property
    def bounds(self):
        return (self.lower_bound, self.upper_bound)


class _Follow(set):
    """The functions an evaluation follows: the ones listed, plus the private module-level helpers of the modules they
    live in (a function that was factored out of a followed function belongs to the implementation)."""

    def __init__(self, names):
        super().__init__(names)
        self.modules = {n.rsplit(".", 1)[0] for n in names} | {n.rsplit(".", 2)[0] for n in names if n.count(".") >= 2}

    def __contains__(self, qualname) -> bool:
        if set.__contains__(self, qualname):
            return True
        if not isinstance(qualname, str) or "." not in qualname:
            return False
        mod, _, short = qualname.rpartition(".")
        # helpers of the modules the followed functions live in: private ones, and public ones alike (a function that
        # a followed function was split into may be given a public name); a stub for the name takes precedence
        return not short.startswith("__") and mod in self.modules


class Interp:
    def __init__(self, prog, native: Tuple[type, ...], follow: Sequence[str] = (), stubs: Optional[Dict[str, Callable]] = None, globals_: Optional[Dict[str, Any]] = None, max_depth: int = 8):
        self.prog = prog
        self.native = tuple(native) + (ExitStackStub, ConfigStub, PoolStub, ExtFunc)
        self.config = ConfigStub()
        self.follow = _Follow(follow)
        self.memo_calls: Dict[Any, Any] = {}
        self.stubs = dict(stubs or {})
        self.stubs.setdefault("contextlib.ExitStack", lambda it_, ev, c, a, k: ExitStackStub(it_, ev))
        for name in ("cobra.util.process_pool.ProcessPool", "cobra.util.ProcessPool"):
            self.stubs.setdefault(name, lambda it_, ev, c, a, k: PoolStub(it_, ev, *a, **k))
        self.globals = dict(globals_ or {})
        self.depth = 0
        self.max_depth = max_depth
        self.calls: List[Tuple[str, Dict[str, Any]]] = []  # (qualname, bound arguments) of every package call seen
        self.module_globals: Dict[str, Dict[str, Any]] = {}
        self.module_consts: Dict[Tuple[str, str], Any] = {}
        self.module_envs: Dict[str, Dict[str, Any]] = {}
        self.missing_attr_raises = False  # stand-ins that are complete: a missing attribute is an AttributeError
        self.apply_decorators = False  # evaluate decorators that are functions of the package (opt-in)
        self.strict_calls = False  # a call that nothing models is an analysis error, not an opaque value (opt-in)

    # ------------------------------------------------------------------ calling
    def bind(self, fn: FuncInfo, args: Sequence[Any], kwargs: Dict[str, Any], selfobj=None, defaults: Optional[Dict[str, Any]] = None) -> Dict[str, Any]:
        a = fn.node.args
        pos = [x.arg for x in a.posonlyargs + a.args]
        env: Dict[str, Any] = {}
        if fn.is_method and not fn.is_static:
            env[pos[0]] = selfobj
            pos = pos[1:]
        if len(args) > len(pos) and not a.vararg:
            raise Unknown(f"{fn.short}: too many positional arguments")
        for p, v in zip(pos, args):
            env[p] = v
        if a.vararg:
            env[a.vararg.arg] = tuple(args[len(pos):])
        names = set(pos) | {x.arg for x in a.kwonlyargs}
        extra = {}
        for k, v in kwargs.items():
            if k in env:
                raise EvalRaise("TypeError")
            if k in names:
                env[k] = v
            elif a.kwarg:
                extra[k] = v
            else:
                raise EvalRaise("TypeError")
        if a.kwarg:
            env[a.kwarg.arg] = extra
        for p in fn.params:
            if p not in env and defaults and p in defaults:
                env[p] = defaults[p]
        for p in fn.params:
            if p not in env:
                d = fn.param_default(p)
                if d is None:
                    if fn.is_method and p == fn.node.args.args[0].arg:
                        continue
                    raise EvalRaise("TypeError")
                env[p] = self.evaluator({}, fn).eval(d)
        return env

    def evaluator(self, env: Dict[str, Any], fn: FuncInfo) -> Evaluator:
        full = dict(self.globals)
        full.update(env)
        ev = Evaluator(full, on_call=self.on_call, on_attr=self.on_attr, on_store=self.on_store)
        ev.loops = True
        ev.with_binds_value = True
        ev.fn = fn  # type: ignore[attr-defined]
        ev.globals_env = self.module_globals.setdefault(fn.unit.modname, {})
        ev.on_name = self.on_name
        ev.on_def = self.on_def
        ev.inplace_ops = self.apply_decorators
        ev.strict_calls = self.strict_calls
        return ev

    def on_def(self, ev, node: ast.FunctionDef):
        nested = ev.fn.nested.get(node.name)
        if nested is None:
            raise Unknown(f"nested function {node.name} is not in the program model")
        a = node.args
        names = [x.arg for x in a.posonlyargs + a.args]
        defaults = {}
        for n, d in zip(names[len(names) - len(a.defaults):], a.defaults):
            defaults[n] = ev.eval(d)
        for x, d in zip(a.kwonlyargs, a.kw_defaults):
            if d is not None:
                defaults[x.arg] = ev.eval(d)
        return Closure(nested, ev.env, defaults)

    def on_name(self, ev, e: ast.Name):
        if self.apply_decorators and e.id in ("setattr", "getattr", "delattr") and e.id not in ev.env and getattr(getattr(e, "_parent", None), "func", None) is not e:
            return {"setattr": setattr, "getattr": getattr, "delattr": delattr}[e.id]  # a builtin handed on as a value
        sym = self.prog.resolve(ev.fn.unit, e.id)
        if isinstance(sym, FuncInfo) and (sym.qualname in self.follow or sym.qualname in self.stubs):
            return FuncRef(sym)
        if isinstance(sym, str) and sym in EXTERNAL_CONSTANTS:
            return EXTERNAL_CONSTANTS[sym]
        if isinstance(sym, str) and sym in self.stubs and getattr(getattr(e, "_parent", None), "func", None) is not e:
            # a class / function of a modelled library handed on as a value ({spl.Or: Or, spl.And: And})
            stub = self.stubs[sym]
            return ExtFunc(lambda *a, **k: stub(self, ev, e, list(a), k), sym)
        # module-level constants of the unit: literals and compiled regular expressions over literals
        got = self._global_value(ev.fn.unit, e.id)
        if got is NotImplemented and sym is None:
            # a module-level table imported from another module of the package (from .annotations import excludes)
            target = ev.fn.unit.imports.get(e.id)
            hops = 0
            while target and hops < 5:
                # follow re-exports (from ..medium import sbo_terms -> medium/__init__ -> .annotations)
                mod, _, attr = target.rpartition(".")
                hops += 1
                if mod not in self.prog.units:
                    break
                if attr in self.prog.units[mod].globals:
                    got = self._global_value(self.prog.units[mod], attr)
                    break
                target = self.prog.units[mod].imports.get(attr)
        return got

    def _global_value(self, unit, name: str):
        g = unit.globals.get(name)
        if g:
            v = g[-1]
            if isinstance(v, ast.Constant):
                return v.value
            if isinstance(v, (ast.List, ast.Tuple, ast.Dict, ast.Set)):
                # one object per module-level name for the lifetime of this interpreter (as in the running module):
                # code that hands such an object out by reference shares it between its results
                key = (unit.modname, name)
                if key in self.module_consts:
                    return self.module_consts[key]
                try:
                    self.module_consts[key] = ast.literal_eval(v)
                    return self.module_consts[key]
                except (ValueError, SyntaxError):
                    pass
            if isinstance(v, ast.Call) and norm(v.func) == "re.compile" and v.args and all(isinstance(a, ast.Constant) for a in v.args) and not v.keywords:
                import re as _re

                return _re.compile(*[a.value for a in v.args])
            if isinstance(v, ast.Call) and not v.args and not v.keywords:
                csym = self.prog.resolve(unit, norm(v.func))
                if isinstance(csym, ClassInfo) and csym.name == "Configuration":
                    return self.config
            # a module-level name that is computed (keywords = list(kwlist); keywords.remove(...); a regex compiled
            # from it): evaluate the module's top-level statements once, in order
            env = self._module_env(unit)
            if name in env:
                return env[name]
        return NotImplemented

    def _module_env(self, unit) -> Dict[str, Any]:
        """Values of the module-level names that can be computed from literals, imported constants and each other.
        Statements that leave the evaluator's domain are skipped (their names stay unknown)."""
        got = self.module_envs.get(unit.modname)
        if got is not None:
            return got
        env: Dict[str, Any] = {}
        self.module_envs[unit.modname] = env

        def on_name(ev_, n: ast.Name):
            if n.id in env:
                return env[n.id]
            sym = self.prog.resolve(unit, n.id)
            if isinstance(sym, str) and sym in EXTERNAL_CONSTANTS:
                v = EXTERNAL_CONSTANTS[sym]
                return list(v) if isinstance(v, list) else v
            return NotImplemented

        def on_call(ev_, c: ast.Call):
            f = c.func
            text = norm(f)
            sym = self.prog.resolve(unit, text) if isinstance(f, (ast.Name, ast.Attribute)) else None
            if isinstance(sym, str) and sym in ("weakref.WeakKeyDictionary", "weakref.WeakValueDictionary") and not c.args and not c.keywords:
                return IdentityDict()
            if isinstance(sym, str) and sym in EXTERNAL and sym.startswith(("re.", "collections.")):
                args = [ev_.eval(a) for a in c.args]
                kw = {k.arg: ev_.eval(k.value) for k in c.keywords}
                if any(isinstance(a, Opaque) for a in args + list(kw.values())):
                    raise Unknown("opaque argument")
                return EXTERNAL[sym](*args, **kw)
            if isinstance(f, ast.Attribute):
                recv = ev_.eval(f.value)
                for t, allowed in SAFE_METHODS.items():
                    if isinstance(recv, t) and f.attr in allowed:
                        args = [ev_.eval(a) for a in c.args]
                        if any(isinstance(a, Opaque) for a in args):
                            raise Unknown("opaque argument")
                        return getattr(recv, f.attr)(*args)
                raise Unknown(f"module-level call {text}")
            return NotImplemented

        for st in unit.tree.body:
            if not isinstance(st, (ast.Assign, ast.AnnAssign, ast.AugAssign, ast.Expr)):
                continue
            if isinstance(st, ast.Expr) and isinstance(st.value, ast.Constant):
                continue
            targets = [t.id for t in (st.targets if isinstance(st, ast.Assign) else ([st.target] if not isinstance(st, ast.Expr) else [])) if isinstance(t, ast.Name)]
            sub = Evaluator({}, on_call=on_call)
            sub.env = env  # by reference: module-level statements build on each other
            sub.on_name = on_name
            sub.loops = True
            try:
                sub.stmt(st)
                for t in targets:
                    if isinstance(env.get(t), Opaque):
                        env.pop(t, None)
            except (Unknown, EvalRaise, EvalReturn, Exception):  # noqa: BLE001 - anything outside the domain: name stays unknown
                for t in targets:
                    env.pop(t, None)
                if isinstance(st, ast.Expr):
                    # a statement with an effect on a known name could not be evaluated: that name is no longer trustworthy
                    for n in ast.walk(st):
                        if isinstance(n, ast.Name):
                            env.pop(n.id, None)
        return env

    def _real_method(self, recv, name: str):
        """The method `name` of the real class a stand-in plays (stand-in classes may declare `_plays = "Reaction"`),
        if that method is private (a helper) and not a property."""
        plays = getattr(type(recv), "_plays", None) or getattr(type(recv), "_real", None)
        if not isinstance(plays, str) or not plays or not name.startswith("_") or name.startswith("__"):
            return None
        try:
            ci = self.prog.cls(plays)
        except Exception:  # noqa: BLE001
            return None
        ms = [m for m in self.prog.find_method(ci, name) if m.prop_kind is None]
        return ms[0] if ms else None

    def call_value(self, target, args, kwargs, ev, node):
        """Call a FuncRef / PartialRef / Closure value."""
        if isinstance(target, PartialRef):
            return self.call_value(target.target, list(target.args) + list(args), {**target.kwargs, **kwargs}, ev, node)
        if isinstance(target, Closure):
            if target.fn.decorators and any(d.split("(")[0].split(".")[-1] in ("lru_cache", "cache") for d in target.fn.decorators):
                # a cache on a nested function lives as long as this definition of it: equal arguments, same object back
                key = (tuple(args), tuple(sorted((kwargs or {}).items())))
                try:
                    hash(key)
                except TypeError:
                    raise EvalRaise("TypeError", node)
                memo = target.__dict__.setdefault("memo", {})
                if key not in memo:
                    memo[key] = self._call(target.fn, args, kwargs, None, target.env, target.defaults)
                return memo[key]
            return self.call(target.fn, args, kwargs, outer_env=target.env, defaults=target.defaults)
        if isinstance(target, FuncRef):
            if target.fn.qualname in self.stubs:
                return self.stubs[target.fn.qualname](self, ev, node, list(args), dict(kwargs))
            if self.apply_decorators and target.fn.is_method and not target.fn.is_static and not target.fn.is_classmethod and args:
                # an unbound method used as a function: f(obj, ...)
                return self.call(target.fn, list(args)[1:], kwargs, selfobj=args[0], _raw=target.raw)
            return self.call(target.fn, args, kwargs, _raw=target.raw)
        if isinstance(target, LocalFunc) and ev is not None:
            return ev.apply_local(target, list(args), dict(kwargs))
        if isinstance(target, self.native) and callable(target):
            return self._native_call(target, list(args), dict(kwargs), node)
        import types as _types

        if isinstance(target, (_types.MethodType, _types.BuiltinMethodType)) and isinstance(getattr(target, "__self__", None), self.native + (set, dict, list)):
            # a bound method of a stand-in (or of a plain container) kept as a value: partial(model.reactions.__isub__, ...)
            return self._native_call(target, list(args), dict(kwargs), node)
        if target in (setattr, delattr, getattr) and args and isinstance(args[0], self.native):
            return self._native_call(target, list(args), dict(kwargs), node)
        raise Unknown(f"call of a value that is not a function of the package: {type(target).__name__} {target!r:.60}")

    def call(self, fn: FuncInfo, args: Sequence[Any] = (), kwargs: Optional[Dict[str, Any]] = None, selfobj=None, outer_env: Optional[Dict[str, Any]] = None, defaults: Optional[Dict[str, Any]] = None, _raw: bool = False):
        if self.apply_decorators and not _raw and fn.decorators:
            # decorators that are functions of the package (util.context.resettable) are evaluated: the decorator is
            # called with the undecorated function and the wrapper it returns is called in its place
            for d in reversed(fn.decorators):
                sym = self.prog.resolve(fn.unit, d.split("(")[0])
                if isinstance(sym, FuncInfo) and sym.qualname in self.follow and sym.qualname not in self.stubs:
                    wrapper = self.call(sym, [FuncRef(fn, raw=True)], {})
                    full = ([selfobj] if (fn.is_method and not fn.is_static) else []) + list(args)
                    return self.call_value(wrapper, full, dict(kwargs or {}), None, fn.node)
        if fn.decorators and any(d.split("(")[0].split(".")[-1] in ("lru_cache", "cache") for d in fn.decorators):
            # functools' caches hand the *same object* back for equal arguments, for the lifetime of the process
            key = (fn.qualname, tuple(args), tuple(sorted((kwargs or {}).items())), id(selfobj) if selfobj is not None else None)
            try:
                hash(key)
            except TypeError:
                raise EvalRaise("TypeError", fn.node)
            if key not in self.memo_calls:
                self.memo_calls[key] = self._call(fn, args, kwargs, selfobj, outer_env, defaults)
            return self.memo_calls[key]
        return self._call(fn, args, kwargs, selfobj, outer_env, defaults)

    def _call(self, fn: FuncInfo, args: Sequence[Any] = (), kwargs: Optional[Dict[str, Any]] = None, selfobj=None, outer_env: Optional[Dict[str, Any]] = None, defaults: Optional[Dict[str, Any]] = None):
        self.depth += 1
        try:
            if self.depth > self.max_depth:
                raise Unknown("call depth exceeded")
            env = dict(outer_env or {})
            env.update(self.bind(fn, list(args), dict(kwargs or {}), selfobj, defaults))
            self.calls.append((fn.qualname, dict(env)))
            ev = self.evaluator(env, fn)
            body = [s for s in fn.node.body if not (isinstance(s, ast.Expr) and isinstance(s.value, ast.Constant))]
            try:
                ev.run(body)
                return None
            except EvalReturn as r:
                return r.value
        finally:
            self.depth -= 1

    # ------------------------------------------------------------------ hooks
    def on_attr(self, ev, e: ast.Attribute):
        root = e
        while isinstance(root, ast.Attribute):
            root = root.value
        if isinstance(root, ast.Name) and root.id not in ev.env:
            # a dotted external name used as a value: a constant (np.inf) or a function of a modelled library handed
            # on as an object ({"dense": np.array, ...}[kind])
            sym = self.prog.resolve(ev.fn.unit, norm(e)) if hasattr(ev, "fn") else None
            if isinstance(sym, str) and sym in EXTERNAL_CONSTANTS:
                return EXTERNAL_CONSTANTS[sym]
            if isinstance(sym, str) and sym in self.stubs and getattr(getattr(e, "_parent", None), "func", None) is not e:
                stub = self.stubs[sym]
                return ExtFunc(lambda *a, **k: stub(self, ev, e, list(a), k), sym)
        base = ev.eval(e.value)
        if isinstance(base, FuncRef) and e.attr in ("__name__", "__qualname__"):
            return base.fn.node.name
        if self.apply_decorators and type(base) in (set, dict, list) and e.attr in SAFE_METHODS[type(base)] and getattr(getattr(e, "_parent", None), "func", None) is not e:
            return getattr(base, e.attr)  # a bound method of a plain container kept as a value: partial(gene._reaction.add, r)
        if isinstance(base, self.native) or (isinstance(base, type) and issubclass(base, self.native)):
            try:
                return getattr(base, e.attr)
            except AttributeError:
                if self.missing_attr_raises:
                    raise EvalRaise("AttributeError", e)
                raise Unknown(f"attribute {e.attr} of {type(base).__name__} is not modelled")
            except KeyError:
                raise EvalRaise("KeyError", e)
        if isinstance(base, tuple) and hasattr(base, "_fields") and e.attr in base._fields:
            return getattr(base, e.attr)
        if isinstance(base, (str, int, float, bool, tuple, list, dict, set, frozenset, type(None))) and e.attr == "__class__":
            return type(base)
        if isinstance(base, type) and e.attr in ("__name__", "__qualname__"):
            return getattr(base, e.attr)
        if isinstance(base, (slice, range)) and e.attr in ("start", "stop", "step"):
            return getattr(base, e.attr)
        if isinstance(base, (str, int, float, bool, tuple, list, dict, set, frozenset, type(None))) and not hasattr(base, e.attr):
            raise EvalRaise("AttributeError", e)
        return NotImplemented

    def on_store(self, ev, target, value) -> bool:
        if isinstance(target, ast.Attribute):
            base = ev.eval(target.value)
            if isinstance(base, self.native):
                try:
                    setattr(base, target.attr, value)
                except AttributeError:
                    raise Unknown(f"attribute {target.attr} of {type(base).__name__} cannot be set in the model")
                except ValueError:
                    raise EvalRaise("ValueError", target)
                return True
            return False
        if isinstance(target, ast.Subscript):
            base = ev.eval(target.value)
            if isinstance(base, (dict, list)) or isinstance(base, self.native):
                key = ev.eval(target.slice)
                if isinstance(key, Opaque):
                    raise Unknown("store under an opaque key")
                base[key] = value
                return True
        return False

    def args_of(self, ev, c: ast.Call):
        args: List[Any] = []
        for x in c.args:
            if isinstance(x, ast.Starred):
                v = ev.eval(x.value)
                if isinstance(v, Opaque):
                    raise Unknown("starred opaque argument")
                args.extend(list(v))
            else:
                args.append(ev.eval(x))
        kwargs: Dict[str, Any] = {}
        for k in c.keywords:
            if k.arg is None:
                v = ev.eval(k.value)
                if not isinstance(v, dict):
                    raise Unknown("** of a non-dict")
                kwargs.update(v)
            else:
                kwargs[k.arg] = ev.eval(k.value)
        return args, kwargs

    def _native_call(self, target, args, kwargs, node):
        from .lpmodel import Unsupported as U1
        from .framemodel import Unsupported as U2

        from .framemodel import LibTypeError

        try:
            out = target(*args, **kwargs)
        except (U1, U2) as exc:
            raise Unknown(f"outside the model: {exc}")
        except LibTypeError:
            raise EvalRaise("TypeError", node)
        except KeyError:
            raise EvalRaise("KeyError", node)
        except ValueError:
            raise EvalRaise("ValueError", node)
        except IndexError:
            raise EvalRaise("IndexError", node)
        except TypeError as exc:
            raise Unknown(f"call outside the model: {exc}")
        if isinstance(out, (type({}.items()), type({}.keys()), type({}.values()))):
            return list(out)
        return out

    def on_call(self, ev, c: ast.Call):
        f = c.func
        fn: FuncInfo = ev.fn
        text = norm(f)
        # 1. package functions / classes by resolved name
        if isinstance(f, ast.Name) or (isinstance(f, ast.Attribute) and all(isinstance(x, (ast.Attribute, ast.Name)) for x in ast.walk(f) if not isinstance(x, ast.expr_context))):
            head = text.split(".")[0]
            if head not in ev.env or head in self.globals:
                if text in self.stubs:
                    args, kwargs = self.args_of(ev, c)
                    return self.stubs[text](self, ev, c, args, kwargs)
                sym = self.prog.resolve(fn.unit, text)
                if isinstance(sym, FuncInfo):
                    args, kwargs = self.args_of(ev, c)
                    if sym.qualname in self.stubs:
                        return self.stubs[sym.qualname](self, ev, c, args, kwargs)
                    if sym.qualname in self.follow:
                        if sym.cls is not None and sym.parent is None and not sym.is_static and not sym.is_classmethod and isinstance(f, ast.Attribute) and args:
                            # Class.method(obj, ...): the method called through its class with an explicit receiver
                            return self.call(sym, args[1:], kwargs, selfobj=args[0])
                        return self.call(sym, args, kwargs)
                    raise Unknown(f"call to {sym.qualname} is not modelled")
                if isinstance(sym, ClassInfo) and f"{sym.unit.modname}.{sym.name}" in self.stubs:
                    args, kwargs = self.args_of(ev, c)
                    return self.stubs[f"{sym.unit.modname}.{sym.name}"](self, ev, c, args, kwargs)
                if isinstance(sym, ClassInfo) and any(str(b).split(".")[-1] == "NamedTuple" for b in self.prog.ext_bases(sym)):
                    fields = [st.target.id for st in sym.node.body if isinstance(st, ast.AnnAssign) and isinstance(st.target, ast.Name)]
                    nt = namedtuple(sym.name, fields)  # type: ignore[misc]
                    args, kwargs = self.args_of(ev, c)
                    return nt(*args, **kwargs)
                if isinstance(sym, str) and sym in self.stubs:
                    args, kwargs = self.args_of(ev, c)
                    return self.stubs[sym](self, ev, c, args, kwargs)
                if isinstance(sym, str) and sym in EXTERNAL:
                    args, kwargs = self.args_of(ev, c)
                    if sym.startswith(("re.", "math.", "numpy.is")) and any(isinstance(a, Opaque) for a in list(args) + list(kwargs.values())):
                        raise Unknown(f"{sym} on an opaque value")
                    try:
                        return EXTERNAL[sym](*args, **kwargs)
                    except TypeError as exc:
                        raise Unknown(f"{sym}: {exc}")
                if sym is None and isinstance(f, ast.Name):
                    # module-level namedtuple
                    g = fn.unit.globals.get(f.id)
                    if g and isinstance(g[-1], ast.Call) and norm(g[-1].func) == "namedtuple":
                        nt = namedtuple(g[-1].args[0].value, [e.value for e in g[-1].args[1].elts])  # type: ignore[attr-defined]
                        args, kwargs = self.args_of(ev, c)
                        return nt(*args, **kwargs)
        if isinstance(f, ast.Name) and f.id in ("getattr", "hasattr") and f.id not in ev.env and len(c.args) >= 2:
            obj = ev.eval(c.args[0])
            name = ev.eval(c.args[1])
            concrete = isinstance(obj, self.native) or isinstance(obj, (str, int, float, bool, tuple, list, dict, set, frozenset, type(None)))
            if concrete and isinstance(name, str):
                if f.id == "hasattr":
                    return hasattr(obj, name)
                if hasattr(obj, name):
                    return getattr(obj, name)
                if len(c.args) == 3:
                    return ev.eval(c.args[2])
                raise EvalRaise("AttributeError", c)
        if isinstance(f, ast.Name) and f.id == "setattr" and f.id not in ev.env and len(c.args) == 3 and not c.keywords:
            obj, name, value = ev.eval(c.args[0]), ev.eval(c.args[1]), ev.eval(c.args[2])
            if isinstance(obj, self.native) and isinstance(name, str):
                try:
                    setattr(obj, name, value)
                except AttributeError:
                    raise EvalRaise("AttributeError", c)
                except ValueError:
                    raise EvalRaise("ValueError", c)
                except TypeError:
                    raise EvalRaise("TypeError", c)
                return None
            raise Unknown("setattr on a value outside the stand-in world")
        if isinstance(f, ast.Attribute) and isinstance(f.value, ast.Name) and f.value.id == "dict" and f.attr == "fromkeys" and "dict" not in ev.env:
            args, kwargs = self.args_of(ev, c)
            return dict.fromkeys(*args)
        if isinstance(f, ast.Name) and f.id == "isinstance" and len(c.args) == 2 and "isinstance" not in ev.env:
            v = ev.eval(c.args[0])
            names = [norm(x).split(".")[-1] for x in (c.args[1].elts if isinstance(c.args[1], ast.Tuple) else [c.args[1]])]
            builtin = {"str": str, "int": int, "float": float, "bool": bool, "list": list, "dict": dict, "tuple": tuple, "set": set, "frozenset": frozenset, "bytes": bytes}
            if isinstance(v, self.native) and not isinstance(v, type):
                # a stand-in is an instance of the stand-in classes only, never of a builtin or library type
                if all(n in builtin or n in ("Path", "PurePath", "IOBase", "TextIOBase", "Number", "Basic") for n in names):
                    return False
            elif not isinstance(v, Opaque) and all(n in builtin for n in names):
                return isinstance(v, tuple(builtin[n] for n in names))
            elif not isinstance(v, Opaque) and isinstance(v, (str, int, float, bool, list, dict, tuple, set, frozenset, type(None))) and all(n in builtin or n in ("Path", "PurePath") for n in names):
                return isinstance(v, tuple(builtin[n] for n in names if n in builtin))
        if isinstance(f, ast.Name) and f.id == "print" and "print" not in ev.env:
            for a in c.args:
                ev.eval(a)
            return None
        if isinstance(f, ast.Name) and f.id in ("sorted",) and "sorted" not in ev.env and c.keywords:
            args, kwargs = self.args_of(ev, c)
            return sorted(*args, **kwargs)
        if isinstance(f, ast.Name) and f.id == "format" and "format" not in ev.env:
            args, kwargs = self.args_of(ev, c)
            return format(*args)
        if isinstance(f, ast.Name) and f.id == "filter" and len(c.args) == 2 and "filter" not in ev.env:
            target = ev.eval(c.args[0])
            items = ev.eval(c.args[1])
            if isinstance(items, Opaque):
                raise Unknown("filter over an opaque iterable")
            if target is None:
                return [x for x in list(items) if x]
            if isinstance(target, (FuncRef, PartialRef, Closure, LocalFunc)):
                return [x for x in list(items) if self.call_value(target, [x], {}, ev, c)]
        if isinstance(f, ast.Name) and f.id == "map" and len(c.args) == 2:
            target = ev.eval(c.args[0])
            if isinstance(target, (FuncRef, PartialRef, Closure)):
                items = ev.eval(c.args[1])
                if isinstance(items, Opaque):
                    raise Unknown("map over an opaque iterable")
                return [self.call_value(target, [x], {}, ev, c) for x in list(items)]
        # 2. callables of the stand-in world
        if isinstance(f, (ast.Subscript, ast.Call, ast.IfExp)):
            # table[key](...), factory()(...): the callee is a computed value
            target = ev.eval(f)
            if isinstance(target, (FuncRef, PartialRef, Closure, LocalFunc)) or (isinstance(target, self.native) and callable(target)):
                args, kwargs = self.args_of(ev, c)
                return self.call_value(target, args, kwargs, ev, c)
        if isinstance(f, ast.Attribute):
            recv = ev.eval(f.value)
            if isinstance(recv, self.native) or (isinstance(recv, type) and issubclass(recv, self.native)):
                try:
                    target = getattr(recv, f.attr)
                except AttributeError:
                    # a helper method the real class was factored into: evaluate it on the stand-in
                    real = self._real_method(recv, f.attr)
                    if real is None:
                        raise Unknown(f"method {f.attr} of {type(recv).__name__} is not modelled")
                    args, kwargs = self.args_of(ev, c)
                    return self.call(real, args, kwargs, selfobj=recv)
                args, kwargs = self.args_of(ev, c)
                if getattr(target, "_takes_callbacks", False):
                    # a stand-in method that calls back into evaluated code (DictList.query(lambda r: ...))
                    args = [(lambda *a_, _a=a, **k_: self.call_value(_a, list(a_), dict(k_), ev, c)) if isinstance(a, (FuncRef, PartialRef, Closure, LocalFunc)) else a for a in args]
                return self._native_call(target, args, kwargs, c)
            for t, allowed in SAFE_METHODS.items():
                if isinstance(recv, t) and f.attr in allowed:
                    args, kwargs = self.args_of(ev, c)
                    if t is _RE_PATTERN:
                        # pattern.sub(<function of the package>, text): the library calls back into evaluated code
                        args = [(lambda m, _a=a: self.call_value(_a, [m], {}, ev, c)) if isinstance(a, (FuncRef, PartialRef, Closure, LocalFunc)) else a for a in args]
                    return self._native_call(getattr(recv, f.attr), args, kwargs, c)
        elif isinstance(f, ast.Name) and f.id in ev.env:
            target = ev.env[f.id]
            if isinstance(target, (FuncRef, PartialRef, Closure)):
                args, kwargs = self.args_of(ev, c)
                return self.call_value(target, args, kwargs, ev, c)
            if isinstance(target, type) and issubclass(target, self.native):
                args, kwargs = self.args_of(ev, c)
                return self._native_call(target, args, kwargs, c)
            if isinstance(target, self.native) and callable(target):
                args, kwargs = self.args_of(ev, c)
                return self._native_call(target, args, kwargs, c)
            import types as _types

            if isinstance(target, (_types.MethodType, _types.BuiltinMethodType)) and isinstance(getattr(target, "__self__", None), self.native + (set, dict, list)):
                # a bound method of a stand-in or of a plain container held in a local (remove = model.solver.remove)
                args, kwargs = self.args_of(ev, c)
                return self._native_call(target, args, kwargs, c)
        return NotImplemented


class RealMethods:
    """Base of stand-in objects whose *methods are the methods of the real class*, evaluated by the interpreter.

    The attributes are whatever the scenario (or an evaluated ``__init__``) assigns; a method call on the stand-in is
    routed to the FuncInfo of the real class (so helpers the class is factored into are followed automatically), a
    property of the real class is evaluated through its getter and assigned through its setter.
    """

    _methods: Dict[str, Any] = {}
    _getters: Dict[str, Any] = {}
    _setters: Dict[str, Any] = {}
    _it = None

    _PROTOCOL = frozenset({"__init__", "__new__", "__class__", "__dict__", "__getattribute__", "__setattr__", "__delattr__", "__call__", "__hash__", "__eq__", "__ne__", "__repr__", "__str__",
                           "__reduce__", "__reduce_ex__", "__getstate__", "__setstate__", "__copy__", "__deepcopy__", "__sizeof__", "__dir__", "__init_subclass__", "__subclasshook__", "__format__", "__doc__", "__module__", "__weakref__"})

    def __getattribute__(self, name):
        if not (name.startswith("__") and name.endswith("__")):
            cls = type(self)
            if name in cls._getters:
                return cls._it.call(cls._getters[name], [], {}, selfobj=self)
            if name in cls._methods:
                return _BoundReal(cls._it, cls._methods[name], self)
        elif name not in RealMethods._PROTOCOL:
            cls = type(self)
            if name in cls._methods:
                # an operator method of the real class taken as a value (partial(self.__imul__, ...))
                return _BoundReal(cls._it, cls._methods[name], self)
        return object.__getattribute__(self, name)

    def __str__(self):
        cls = type(self)
        if "__str__" in cls._methods:
            return cls._it.call(cls._methods["__str__"], [], {}, selfobj=self)
        return object.__repr__(self)

    def __call__(self, *a, **k):
        cls = type(self)
        if "__call__" not in cls._methods:
            raise TypeError(f"{cls.__name__} object is not callable")
        return cls._it.call(cls._methods["__call__"], list(a), dict(k), selfobj=self)

    def __setattr__(self, name, value):
        cls = type(self)
        if name in cls._setters:
            cls._it.call(cls._setters[name], [value], {}, selfobj=self)
            return
        if name in cls._getters:
            raise AttributeError(name)
        object.__setattr__(self, name, value)


class _BoundReal:
    def __init__(self, it, fn, obj):
        self.it, self.fn, self.obj = it, fn, obj

    def __call__(self, *a, **k):
        return self.it.call(self.fn, list(a), dict(k), selfobj=self.obj)

    def __eq__(self, other):
        return isinstance(other, _BoundReal) and other.fn is self.fn and other.obj is self.obj

    def __hash__(self):
        return hash((id(self.fn), id(self.obj)))


def real_methods_class(name: str, prog, classinfo, it, bases=(), skip=()):
    """A stand-in class for ``classinfo`` (methods and properties of the whole MRO inside the package)."""
    methods, getters, setters = {}, {}, {}
    chain = [classinfo]
    seen = set()
    while chain:
        ci = chain.pop(0)
        if id(ci) in seen:
            continue
        seen.add(id(ci))
        for mname, fns in ci.methods.items():
            if mname in skip:
                continue
            for fn in fns:
                decos = [d.split("(")[0] for d in (fn.decorators or [])]
                if any(d == "property" or d.endswith(".getter") for d in decos):
                    getters.setdefault(mname, fn)
                elif any(d.endswith(".setter") for d in decos):
                    setters.setdefault(mname, fn)
                elif mname not in getters:
                    methods.setdefault(mname, fn)
        chain.extend(b for b in ci.bases if isinstance(b, ClassInfo))
    ns = {"_methods": methods, "_getters": getters, "_setters": setters, "_it": it}
    # class-level constants (KIND_TYPES = (...)): literal values become attributes of the stand-in class
    for ci in reversed(_mro_of(classinfo)):
        for attr, node in ci.class_attrs.items():
            try:
                ns.setdefault(attr, ast.literal_eval(node))
            except (ValueError, SyntaxError, TypeError):
                pass
    return type(name, tuple(bases) + (RealMethods,), ns)


def _mro_of(classinfo):
    out, todo, seen = [], [classinfo], set()
    while todo:
        ci = todo.pop(0)
        if id(ci) in seen:
            continue
        seen.add(id(ci))
        out.append(ci)
        todo.extend(b for b in ci.bases if isinstance(b, ClassInfo))
    return out
