#!/usr/bin/env python3
"""Maintenance helper: run the stored mutants of one property whose name contains a substring (overlay, nothing written).
usage: run_mutants.py <PROP> <substring> [mutants|variants]"""
import json, sys
sys.path.insert(0, "/verif")
from cobralint import selftest
prop, pat = sys.argv[1], sys.argv[2]
SRC = "/repo/src"
base, err = selftest.findings_for(prop, SRC, None)
KIND = sys.argv[3] if len(sys.argv) > 3 else "mutants"
for c in json.load(open(f"/verif/selftest/{KIND}/{prop}.json")):
    if pat not in c["name"]:
        continue
    overlay = {}
    for e in c["edits"]:
        overlay.update(selftest.apply_edit(SRC, e["file"], e["old"], e["new"], e.get("count", 1), overlay))
    got, err = selftest.findings_for(prop, SRC, overlay)
    if got is None:
        print(c["name"], "-> ERROR", err[:300])
    else:
        new = [k for k in got if k not in (base or {})]
        print(c["name"], "expect", c.get("expect_rule"), "->", [str(k)[:140] for k in new][:3] or "SILENT")
