"""C14.pool - the process pool wrapper hands the worker initialiser exactly what the caller gave it.

ProcessPool is evaluated by the analyser's interpreter over stand-ins for multiprocessing.Pool, platform.system,
tempfile/os/pickle and pathlib: on every platform each worker process must end up calling
``initializer(*initargs)`` with the caller's objects, the pool must be created with the caller's process count, the
pool's map primitives must be the wrapped pool's own, and leaving the block must close and join the pool and remove the
temporary file (also when closing raises). Nothing is executed: no process, no file.
"""
from __future__ import annotations

from typing import Any, Dict, List

from .. import AnalysisError
from ..absint import EvalRaise, Unknown
from ..interp import Interp

MOD = "cobra.util.process_pool"


class _FS:
    """Files of the stand-in world: name -> pickled object (kept as the object itself)."""

    def __init__(self):
        self.files: Dict[str, Any] = {}
        self.n = 0


class _Handle:
    _absint_context = True

    def __init__(self, fs: _FS, name: str, mode: str):
        self.fs, self.name, self.mode, self.closed = fs, name, mode, False

    def _absint_enter(self):
        return self

    def _absint_exit(self):
        self.closed = True


class _Path:
    def __init__(self, fs: _FS, name):
        self.fs, self.name = fs, name

    def exists(self):
        return self.name in self.fs.files

    def is_file(self):
        return self.name in self.fs.files

    def unlink(self, missing_ok=False):
        if self.name not in self.fs.files:
            if missing_ok:
                return None
            raise KeyError(self.name)
        del self.fs.files[self.name]


class _Pool:
    """multiprocessing.Pool: remembers how it was created and what was done to it."""

    _absint_context = True

    def __init__(self, log: List[str], processes=None, initializer=None, initargs=(), maxtasksperchild=None, context=None):
        self.log = log
        self.processes, self.initializer, self.initargs, self.maxtasksperchild = processes, initializer, initargs, maxtasksperchild
        self.close_raises = False

    def close(self):
        self.log.append("close")
        if self.close_raises:
            raise ValueError("close failed")

    def join(self):
        self.log.append("join")

    def terminate(self):
        self.log.append("terminate")

    def imap_unordered(self, *a, **k):
        return ("imap_unordered", a)

    def map(self, *a, **k):
        return ("map", a)

    def imap(self, *a, **k):
        return ("imap", a)

    def __enter__(self):
        self.log.append("enter")
        return self

    def __exit__(self, *exc):
        self.log.append("exit")
        self.terminate()
        return None

    def _absint_enter(self):
        return self.__enter__()

    def _absint_exit(self):
        self.__exit__(None, None, None)


class _Bound:
    def __init__(self, it, fn, obj):
        self.it, self.fn, self.obj = it, fn, obj

    def __call__(self, *a, **k):
        return self.it.call(self.fn, list(a), dict(k), selfobj=self.obj)


class _PP:
    """The ProcessPool instance under construction: attributes are what the evaluated __init__ assigns, methods are
    the methods of the real class (whatever helpers it is factored into), evaluated by the interpreter."""

    _methods: Dict[str, Any] = {}
    _it = None

    def __getattribute__(self, name):
        methods = object.__getattribute__(self, "_methods")
        if name in methods and not (name.startswith("__") and name.endswith("__")):
            return _Bound(object.__getattribute__(self, "_it"), methods[name], self)
        return object.__getattribute__(self, name)

    def __getattr__(self, name):
        methods = object.__getattribute__(self, "_methods")
        if "__getattr__" in methods and not name.startswith("_absint"):
            try:
                return object.__getattribute__(self, "_it").call(methods["__getattr__"], [name], {}, selfobj=self)
            except EvalRaise as exc:
                raise AttributeError(name) from exc
        raise AttributeError(name)


class _Recorder:
    def __init__(self):
        self.calls: List[tuple] = []

    def __call__(self, *a, **k):
        self.calls.append((a, k))


NATIVE = (_FS, _Handle, _Path, _Pool, _PP, _Recorder, _Bound)


def _interp(prog, platform_name: str, fs: _FS, log: List[str], pools: List[_Pool]):
    def mkstemp(it_, ev, c, a, k):
        fs.n += 1
        name = f"/tmp/standin{fs.n}{k.get('suffix', '')}"
        fs.files[name] = None
        return (100 + fs.n, name)

    def fdopen(it_, ev, c, a, k):
        names = [n for n in fs.files if f"standin{a[0] - 100}" in n]
        if not names:
            raise EvalRaise("OSError", c)
        return _Handle(fs, names[0], k.get("mode", a[1] if len(a) > 1 else "r"))

    def open_(it_, ev, c, a, k):
        if a[0] not in fs.files:
            raise EvalRaise("FileNotFoundError", c)
        return _Handle(fs, a[0], k.get("mode", a[1] if len(a) > 1 else "r"))

    def dump(it_, ev, c, a, k):
        obj, h = a[0], a[1]
        if not isinstance(h, _Handle) or "w" not in h.mode or "b" not in h.mode:
            raise EvalRaise("TypeError", c)
        fs.files[h.name] = obj
        return None

    def load(it_, ev, c, a, k):
        h = a[0]
        if not isinstance(h, _Handle) or "r" not in h.mode or "b" not in h.mode:
            raise EvalRaise("TypeError", c)
        return fs.files[h.name]

    def pool(it_, ev, c, a, k):
        names = ("processes", "initializer", "initargs", "maxtasksperchild", "context")
        kw = dict(zip(names, a))
        kw.update(k)
        p = _Pool(log, **kw)
        pools.append(p)
        return p

    stubs = {
        "platform.system": lambda it_, ev, c, a, k: platform_name,
        "tempfile.mkstemp": mkstemp,
        "os.fdopen": fdopen,
        "open": open_,
        "pickle.dump": dump,
        "pickle.load": load,
        "pathlib.Path": lambda it_, ev, c, a, k: _Path(fs, a[0]),
        "multiprocessing.Pool": pool,
        "multiprocessing.pool.Pool": pool,
        "super": lambda it_, ev, c, a, k: _Super(),
    }
    # the whole module belongs to the implementation: methods of the class and the helpers they are factored into
    follow = [f.qualname for f in prog.all_funcs() if f.qualname.startswith(MOD + ".")]
    return Interp(prog, NATIVE + (_Super,), follow, stubs, globals_={})


class _Super:
    def __init__(self, *a, **k):
        pass


def _run(what, thunk):
    try:
        return thunk()
    except Unknown as exc:
        raise AnalysisError(f"C14.pool: {what} cannot be evaluated: {exc}")


def check_pool(ctx, rule: str) -> None:
    prog = ctx.prog
    cls = prog.units[MOD].classes.get("ProcessPool") if MOD in prog.units else None
    if cls is None:
        raise AnalysisError("C14.pool: cobra.util.process_pool.ProcessPool not found")
    init = prog.func(MOD, "ProcessPool.__init__")
    exit_ = prog.func(MOD, "ProcessPool.__exit__")
    enter = prog.func(MOD, "ProcessPool.__enter__")
    getattr_ = prog.func(MOD, "ProcessPool.__getattr__")
    close = prog.func(MOD, "ProcessPool.close")
    problems: List[str] = []
    n = 0
    for platform_name in ("Linux", "Windows", "Darwin"):
        for with_init in (True, False):
            for processes in (3, None):
                for close_raises in (False, True):
                    for leave in ("exit", "close"):
                        n += 1
                        fs, log, pools = _FS(), [], []
                        it = _interp(prog, platform_name, fs, log, pools)
                        worker = _Recorder()
                        a1, a2 = object(), "loopless"
                        pp = type("ProcessPoolStandIn", (_PP,), {"_methods": {name: fns[-1] for name, fns in cls.methods.items()}, "_it": it})()
                        what = f"ProcessPool(processes={processes}, initializer={'f' if with_init else None}, initargs=(model, 'loopless')) on {platform_name}"
                        kw: Dict[str, Any] = {"processes": processes, "maxtasksperchild": 7}
                        if with_init:
                            kw.update(initializer=worker, initargs=(a1, a2))
                        try:
                            _run(what, lambda: it.call(init, [], kw, selfobj=pp))
                        except EvalRaise as exc:
                            problems.append(f"{what} raises {exc.exc_type}")
                            continue
                        if len(pools) != 1:
                            problems.append(f"{what} creates {len(pools)} pools")
                            continue
                        pool = pools[0]
                        if pool.processes != processes:
                            problems.append(f"{what}: the pool is created with processes={pool.processes!r}")
                        if pool.maxtasksperchild != 7:
                            problems.append(f"{what}: maxtasksperchild=7 becomes {pool.maxtasksperchild!r}")
                        # what a worker process does when it starts
                        if pool.initializer is not None:
                            try:
                                if isinstance(pool.initializer, _Recorder):
                                    pool.initializer(*pool.initargs)
                                else:
                                    _run(what + " / worker start", lambda: it.call_value(pool.initializer, list(pool.initargs), {}, None, init.node))
                            except EvalRaise as exc:
                                problems.append(f"{what}: the worker initialiser raises {exc.exc_type}")
                                continue
                        want = [((a1, a2), {})] if with_init else []
                        got = [(tuple(a), k) for a, k in worker.calls]
                        if len(got) != len(want) or any(len(g[0]) != len(w[0]) or any(x is not y for x, y in zip(g[0], w[0])) or g[1] != w[1] for g, w in zip(got, want)):
                            problems.append(f"{what}: a starting worker calls the initialiser {len(got)} time(s) with {[tuple(type(x).__name__ for x in g[0]) for g in got]}, expected once with the caller's (model, 'loopless')" if with_init else f"{what}: a worker calls an initialiser nobody asked for")
                        # the wrapped pool's primitives are reachable through the wrapper
                        try:
                            got_attr = _run(what + ".imap_unordered", lambda: it.call(getattr_, ["imap_unordered"], {}, selfobj=pp))
                            if got_attr != pool.imap_unordered:
                                problems.append(f"{what}: attribute look-up does not reach the wrapped pool")
                        except EvalRaise as exc:
                            problems.append(f"{what}.imap_unordered raises {exc.exc_type}")
                        # leaving
                        pool.close_raises = close_raises
                        raised = None
                        try:
                            if leave == "exit":
                                _run(what + ".__enter__", lambda: it.call(enter, [], {}, selfobj=pp))
                                out = _run(what + ".__exit__", lambda: it.call(exit_, [None, None, None], {}, selfobj=pp))
                                if out and not close_raises:
                                    problems.append(f"{what}: __exit__ returns {out!r} and would swallow an exception of the block")
                            else:
                                _run(what + ".close", lambda: it.call(close, [], {}, selfobj=pp))
                        except EvalRaise as exc:
                            raised = exc.exc_type
                        if bool(raised) != close_raises:
                            problems.append(f"{what}: leaving the pool {'raises ' + str(raised) if raised else 'hides the error of close()'}")
                        if "close" not in log:
                            problems.append(f"{what}: the pool is never closed")
                        if leave == "exit" and not close_raises and ("join" not in log or log.index("join") < log.index("close")):
                            problems.append(f"{what}: leaving the block does not wait for the workers (close, then join)")
                        if fs.files:
                            problems.append(f"{what}: the temporary file {sorted(fs.files)} is left behind" + (" when close() raises" if close_raises else ""))
    if problems:
        ctx.bad(rule, init, "process pool", "; ".join(list(dict.fromkeys(problems))[:2]))
    else:
        ctx.ok(rule, init, "process pool", f"{n} scenarios (3 platforms x initialiser given or not x process count given or not x close() failing or not x leaving by __exit__ / close): every starting worker calls initializer(*initargs) once with the caller's own objects, the pool has the requested size, its primitives are the wrapped pool's, leaving closes, joins and removes the temporary file")
