"""C10 - SBML export is valid and import(export(model)) is the same model (tables and sites)."""
from __future__ import annotations

import ast
import re
from typing import Dict, List, Optional, Set, Tuple

from .. import AnalysisError
from ..absint import EvalRaise, EvalReturn, Evaluator, Opaque, Unknown
from ..cfg import describe_path, no_exc
from ..program import FuncInfo, ancestors, enclosing_stmt, norm, parent, walk_local
from . import c02, c08

EXPLANATION = (
    "Decided from tables and sites of cobra/io/sbml.py: (kinds) every identifier handed to libsbml by the writer "
    "derives from a cobra object of kind k through f_replace[F_k_REV], and every identifier taken from libsbml "
    "that creates or looks up a cobra object of kind k passes through f_replace[F_k] (kinds: species, reaction, "
    "gene, group); (escape) each _f_k_rev/_f_k pair shares its prefix default and undoes the other's steps, the "
    "writer's regex escapes exactly the complement of [0-9A-Za-z_] (regex AST), the escape/unescape helpers are "
    "ord/chr inverses, F_REPLACE maps each key to the function of its kind and direction; (inband) the reader's "
    "token __<digits>__ is spelled with characters the writer leaves alone - known finding K5; (bounds) a reaction "
    "read from SBML gets both bounds in one assignment; (sign) reactants subtract and products add, accumulating "
    "over repeated references; the writer creates a reactant with -coefficient for negative coefficients and a "
    "product otherwise; (direction) the two direction tables are inverse, the reader assigns the direction after "
    "setting the objective; (fields) every attribute the property lists has a writer call and a reader call; "
    "(annot) merging annotation identifiers compares against a list, never by substring (evaluated); the GPR "
    "association reader agrees with the other rule interpreters (C08.siblings); loaded genes belong to the model "
    "(C02.owner). NOT decided: libsbml's validity verdicts, numeric text precision, notes/annotation XML details."
)
ASSUMPTIONS = ["libsbml getters/setters are inverse for plain values", "libsbml.SyntaxChecker accepts exactly [A-Za-z_][A-Za-z0-9_]* as SId"]

MOD = "cobra.io.sbml"
KINDS = ("GENE", "SPECIE", "REACTION", "GROUP")
CLASS_KIND = {"Metabolite": "SPECIE", "Reaction": "REACTION", "Gene": "GENE", "Group": "GROUP", "Name": "GENE"}
LIST_KIND = {"metabolites": "SPECIE", "reactions": "REACTION", "genes": "GENE", "groups": "GROUP"}
CREATE_KIND = {"createSpecies": "SPECIE", "createReaction": "REACTION", "createGeneProduct": "GENE", "createGroup": "GROUP"}


def _replacement_kind(e: ast.AST) -> Optional[Tuple[str, bool]]:
    """('SPECIE', reverse?) when e is f_replace[F_SPECIE(_REV)](...)."""
    if isinstance(e, ast.Call) and isinstance(e.func, ast.Subscript) and norm(e.func.value) == "f_replace":
        k = norm(e.func.slice)
        if k.startswith("F_"):
            rev = k.endswith("_REV")
            return (k[2:-4] if rev else k[2:]), rev
    return None


def _guard_ok(call: ast.AST, kind: str, rev: bool) -> bool:
    key = f"F_{kind}{'_REV' if rev else ''}"
    for a in ancestors(call):
        if isinstance(a, (ast.If, ast.IfExp)):
            t = norm(a.test)
            if t == f"f_replace and {key} in f_replace":
                return True
        if isinstance(a, (ast.FunctionDef,)):
            break
    return False


def _exclusive(a: ast.AST, b: ast.AST) -> bool:
    """a and b sit in different arms of one if statement."""
    chain_a = [a] + list(ancestors(a))
    chain_b = [b] + list(ancestors(b))
    for i, x in enumerate(chain_a):
        if isinstance(x, ast.If) and x in chain_b and i > 0:
            ca, cb = chain_a[i - 1], chain_b[chain_b.index(x) - 1]
            in_body_a = any(ca is s for s in x.body)
            in_body_b = any(cb is s for s in x.body)
            in_else_a = any(ca is s for s in x.orelse)
            in_else_b = any(cb is s for s in x.orelse)
            if (in_body_a and in_else_b) or (in_else_a and in_body_b):
                return True
    return False


def _in_guard_else(node: ast.AST, kind: str) -> bool:
    """node sits in the else arm of `if f_replace and F_kind in f_replace`: no replacement was requested."""
    prev = node
    for a in ancestors(node):
        if isinstance(a, ast.If) and norm(a.test) == f"f_replace and F_{kind} in f_replace" and any(prev is s for s in a.orelse):
            return True
        prev = a
    return False


def _repl_assigned_to(fn: FuncInfo, name: str, before_line: int, scope_loop: Optional[ast.AST], sink: Optional[ast.AST] = None) -> List[Tuple[str, bool, ast.AST]]:
    """Replacement statements ``name = f_replace[F_K](name)`` located before a sink (same loop nest)."""
    out = []
    for n in walk_local(fn.node):
        if isinstance(n, ast.Assign) and len(n.targets) == 1 and isinstance(n.targets[0], ast.Name) and n.targets[0].id == name and n.lineno <= before_line:
            rk = _replacement_kind(n.value)
            if rk is not None:
                if sink is not None and _exclusive(n, sink):
                    continue
                if scope_loop is None or any(a is scope_loop for a in ancestors(n)):
                    out.append((rk[0], rk[1], n))
    return out


def _innermost_loop(node: ast.AST, fn: FuncInfo) -> Optional[ast.AST]:
    for a in ancestors(node):
        if a is fn.node:
            return None
        if isinstance(a, ast.For):
            return a
    return None


def _last_plain_def(fn: FuncInfo, name: str, before_line: int, loop: Optional[ast.AST]) -> Optional[ast.Assign]:
    best = None
    for n in walk_local(fn.node):
        if isinstance(n, ast.Assign) and len(n.targets) == 1 and isinstance(n.targets[0], ast.Name) and n.targets[0].id == name and n.lineno <= before_line:
            if _replacement_kind(n.value) is None and (loop is None or any(a is loop for a in ancestors(n))):
                if best is None or n.lineno > best.lineno:
                    best = n
    return best


def check_kinds_writer(ctx) -> None:
    prog, inf = ctx.prog, ctx.inf
    for short in ("_model_to_sbml", "_create_bound"):
        fn = prog.func(MOD, short)
        for n in walk_local(fn.node):
            if not (isinstance(n, ast.Call) and isinstance(n.func, ast.Attribute) and n.func.attr in ("setId", "setSpecies", "setReaction", "setIdRef", "setLabel") and n.args):
                continue
            arg = n.args[0]
            meth = n.func.attr
            if isinstance(arg, ast.Constant) or not isinstance(arg, ast.Name):
                # constants ("obj"), UNITS_FLUX[0], cobra_model.id (model id: no replacement kind), compartment ids
                continue
            loop = _innermost_loop(n, fn)
            want = None
            if meth == "setSpecies":
                want = "SPECIE"
            elif meth == "setReaction":
                want = "REACTION"
            elif meth in ("setId", "setLabel"):
                recv = n.func.value
                if isinstance(recv, ast.Name):
                    d = _last_plain_def(fn, recv.id, n.lineno, None)
                    if d is None:
                        for x in walk_local(fn.node):
                            if isinstance(x, ast.AnnAssign) and isinstance(x.target, ast.Name) and x.target.id == recv.id and x.value is not None and x.lineno <= n.lineno:
                                d = x
                    if d is not None and isinstance(d.value, ast.Call) and isinstance(d.value.func, ast.Attribute):
                        want = CREATE_KIND.get(d.value.func.attr)
                        if d.value.func.attr in ("createCompartment", "createUnitDefinition", "createParameter", "createObjective", "createModel"):
                            continue
                if want is None:
                    continue
            elif meth == "setIdRef":
                _check_member_ref(ctx, fn, n)
                continue
            src = _last_plain_def(fn, arg.id, n.lineno, loop) or _last_plain_def(fn, arg.id, n.lineno, None)
            reps = _repl_assigned_to(fn, arg.id, n.lineno, loop, n) or _repl_assigned_to(fn, arg.id, n.lineno, None, n)
            # derived ids (pid = rid + "_" + bound_type): follow the base name
            if src is not None and isinstance(src.value, ast.BinOp):
                base = [x for x in ast.walk(src.value) if isinstance(x, ast.Name)]
                if base:
                    reps = _repl_assigned_to(fn, base[0].id, src.lineno, loop) or _repl_assigned_to(fn, base[0].id, src.lineno, None)
                    want = "REACTION" if meth == "setId" and want is None else want
            # if/else form: gid = f_replace[...](cobra_group.id) / else gid = cobra_group.id
            kinds = {(k, r) for k, r, _ in reps}
            if not reps:
                ctx.bad("C10.kinds", fn, n, f"the identifier handed to {meth} is not passed through f_replace[F_{want}_REV]: an id with characters outside [A-Za-z0-9_] makes the document invalid / is not found again on import")
            elif kinds != {(want, True)}:
                ctx.bad("C10.kinds", fn, n, f"the identifier handed to {meth} is escaped with {sorted('F_' + k + ('_REV' if r else '') for k, r in kinds)} but belongs to kind {want}: prefix and clipping no longer match on import")
            elif not all(_guard_ok(st.value, k, r) for k, r, st in reps):
                ctx.bad("C10.kinds", fn, reps[0][2], "the replacement is not applied under the standard guard `f_replace and F_k in f_replace`")
            else:
                ctx.ok("C10.kinds", fn, n, f"{meth}: id of kind {want} through f_replace[F_{want}_REV]")
    # GPR id map
    fn = prog.func(MOD, "_model_to_sbml")
    maps = [n for n in walk_local(fn.node) if isinstance(n, ast.DictComp) and "gpr.genes" in norm(n)]
    if maps:
        rk = _replacement_kind(maps[0].value)
        if rk == ("GENE", True) and _guard_ok(maps[0], "GENE", True):
            ctx.ok("C10.kinds", fn, maps[0], "gene ids inside the rule are mapped with f_replace[F_GENE_REV]")
        else:
            ctx.bad("C10.kinds", fn, maps[0], "gene ids inside the written rule are not mapped with f_replace[F_GENE_REV]: the association refers to gene products that do not exist")
    else:
        ctx.bad("C10.kinds", fn, fn.node, "the gene ids of a written rule are no longer mapped to the written gene product ids")


def _check_member_ref(ctx, fn: FuncInfo, call: ast.Call) -> None:
    """Group members: the body of the member loop is evaluated for a member of each class with an f_replace table of
    tagged functions - the reference written is the member's id passed through the replacement of its own kind (and
    through none when the table lacks it). No spelling of the dispatch is prescribed."""
    loop = _innermost_loop(call, fn)
    if loop is None or not isinstance(loop, ast.For) or not isinstance(loop.target, ast.Name):
        ctx.note("C10.kinds: group member references are not written in a loop over the members; not read")
        return
    var = loop.target.id
    # the F_* constants of the module
    unit = ctx.prog.unit(MOD)
    consts = {}
    for name, vals in unit.globals.items():
        if name.startswith("F_") and vals and isinstance(vals[-1], ast.Constant):
            consts[name] = vals[-1].value
    problems = []
    for cname, kind in (("Reaction", "REACTION"), ("Metabolite", "SPECIE"), ("Gene", "GENE")):
        for with_table in (True, False):
            written = []

            class _Tagged:
                def __init__(self, tag):
                    self.tag = tag

            table = {v: _Tagged(k) for k, v in consts.items()} if with_table else {}

            def on_call(ev, c: ast.Call):
                f = c.func
                if isinstance(f, ast.Attribute) and f.attr == "setIdRef":
                    written.append(ev.eval(c.args[0]))
                    return None
                if isinstance(f, ast.Attribute) and f.attr in ("createMember",):
                    return Opaque("member")
                if isinstance(f, ast.Name) and f.id == "type" and len(c.args) == 1:
                    return f"<class 'cobra.core.{cname.lower()}.{cname}'>"
                if isinstance(f, ast.Name) and f.id == "str" and len(c.args) == 1:
                    v = ev.eval(c.args[0])
                    return v if isinstance(v, str) else NotImplemented
                if isinstance(f, ast.Name) and f.id == "isinstance" and len(c.args) == 2 and norm(c.args[0]) == var:
                    names = [norm(x).split(".")[-1] for x in (c.args[1].elts if isinstance(c.args[1], ast.Tuple) else [c.args[1]])]
                    return cname in names
                if isinstance(f, ast.Subscript):
                    tgt = ev.eval(f)
                    if isinstance(tgt, _Tagged):
                        return ("via", tgt.tag, ev.eval(c.args[0]))
                return NotImplemented

            def on_attr(ev, a: ast.Attribute):
                if isinstance(a.value, ast.Name) and a.value.id == var and a.attr == "id":
                    return "member-id"
                if norm(a) in (f"{var}.__class__.__name__", f"type({var}).__name__"):
                    return cname
                return NotImplemented

            ev = Evaluator({"f_replace": table, **consts}, on_call=on_call, on_attr=on_attr)
            ev.loops = True
            try:
                ev.run(loop.body)
            except (Unknown, EvalRaise) as exc:
                ctx.note(f"C10.kinds: the group member loop cannot be evaluated ({exc}); member references not read")
                return
            want = [("via", f"F_{kind}_REV", "member-id")] if with_table else ["member-id"]
            if written != want:
                problems.append(f"a group member of class {cname} is referenced as {written!r}{' with' if with_table else ' without'} id replacements; expected {want!r} (its own id through the replacement of its own kind)")
    if problems:
        ctx.bad("C10.kinds", fn, call, problems[0] + (f" (+{len(problems) - 1} more)" if len(problems) > 1 else ""))
    else:
        for kind in ("SPECIE", "REACTION", "GENE"):
            ctx.ok("C10.kinds", fn, f"member {kind}", f"group member of kind {kind}: id through f_replace[F_{kind}_REV] (evaluated)")


def check_kinds_reader(ctx) -> None:
    prog = ctx.prog
    fn = prog.func(MOD, "_sbml_to_model")
    funcs = [fn] + list(fn.nested.values())
    for f in funcs:
        for n in walk_local(f.node):
            if not isinstance(n, ast.Call):
                continue
            want = None
            arg = None
            if isinstance(n.func, ast.Name) and n.func.id in CLASS_KIND and (n.args or n.keywords):
                arg = n.args[0] if n.args else next((k.value for k in n.keywords if k.arg == "id"), None)
                want = CLASS_KIND[n.func.id]
            elif isinstance(n.func, ast.Attribute) and n.func.attr == "get_by_id" and isinstance(n.func.value, ast.Attribute) and n.func.value.attr in LIST_KIND and "cobra_model" in norm(n.func.value):
                arg = n.args[0]
                want = LIST_KIND[n.func.value.attr]
            if want is None or arg is None:
                continue
            if isinstance(arg, ast.JoinedStr) or isinstance(arg, ast.Constant):
                continue  # synthetic ids (EX_<met>)
            inline = _replacement_kind(arg)
            if inline is not None:
                kinds = {inline}
                guard = _guard_ok(arg, inline[0], inline[1]) or any(isinstance(a, ast.If) and norm(a.test) == f"f_replace and F_{inline[0]} in f_replace" for a in ancestors(n))
            elif isinstance(arg, ast.Name):
                loop = _innermost_loop(n, f)
                reps = _repl_assigned_to(f, arg.id, n.lineno, loop, n) or _repl_assigned_to(f, arg.id, n.lineno, None, n)
                if not reps and _in_guard_else(n, want):
                    ctx.ok("C10.kinds", f, n, f"else arm of the replacement guard for {want}: no replacement requested", nontrivial=False)
                    continue
                if not reps and arg.id in ("met_id",):
                    # ids taken from a dict whose keys were replaced when inserted
                    reps = _repl_assigned_to(f, "sid", n.lineno, loop)
                kinds = {(k, r) for k, r, _ in reps}
                guard = all(_guard_ok(st.value, k, r) for k, r, st in reps)
                if not reps:
                    src = _last_plain_def(f, arg.id, n.lineno, loop) or _last_plain_def(f, arg.id, n.lineno, None)
                    if src is not None and "get" not in norm(src.value) and "notes" not in norm(src.value):
                        continue  # not an id that came from the document
            else:
                continue
            if not kinds:
                # only ids that come from the document need the replacement
                if _from_document(f, arg, n):
                    ctx.bad("C10.kinds", f, n, f"an identifier taken from the SBML document creates/looks up a {want.lower()} without passing through f_replace[F_{want}]: prefixes and escapes are not undone")
                continue
            if kinds != {(want, False)}:
                ctx.bad("C10.kinds", f, n, f"an identifier unescaped with {sorted('F_' + k + ('_REV' if r else '') for k, r in kinds)} is used for kind {want}")
            elif not guard:
                ctx.bad("C10.kinds", f, n, "the replacement is not applied under the standard guard")
            else:
                ctx.ok("C10.kinds", f, n, f"{want.lower()} id from the document through f_replace[F_{want}]")


def _from_document(fn: FuncInfo, arg: ast.AST, at: ast.AST) -> bool:
    if not isinstance(arg, ast.Name):
        return False
    loop = _innermost_loop(at, fn)
    src = _last_plain_def(fn, arg.id, at.lineno, loop) or _last_plain_def(fn, arg.id, at.lineno, None)
    if src is None:
        return False
    t = norm(src.value)
    return any(x in t for x in ("getIdAttribute", "getSpecies()", "getReaction()", "getGeneProduct()", "getIdRef()"))


# ---------------------------------------------------------------------------------------- escape
def _regex_class(pattern: str):
    import re._parser as sre  # type: ignore

    return sre.parse(pattern)


def check_escape(ctx) -> None:
    prog = ctx.prog
    unit = prog.unit(MOD)
    rel = unit.rel

    def pat(name: str) -> str:
        v = unit.globals.get(name)
        if not v:
            raise AnalysisError(f"io.sbml.{name} not found")
        call = v[-1]
        if isinstance(call, ast.Call) and norm(call.func) == "re.compile" and call.args and isinstance(call.args[0], ast.Constant):
            if len(call.args) > 1 or call.keywords:
                raise AnalysisError(f"io.sbml.{name}: flags are not analysed")
            return call.args[0].value
        # not a literal call: take the pattern object the module's own top-level statements compute
        import re as _re
        from ..interp import Interp

        got = Interp(prog, (), [], {}, globals_={})._module_env(unit).get(name)
        if isinstance(got, _re.Pattern):
            if got.flags & ~_re.UNICODE:
                raise AnalysisError(f"io.sbml.{name}: flags are not analysed")
            return got.pattern
        raise AnalysisError(f"io.sbml.{name} cannot be computed as a compiled pattern from the module's top-level statements")

    import re._constants as sc  # type: ignore

    to = pat("pattern_to_sbml")
    tree = _regex_class(to)
    ok = False
    items = list(tree)
    if len(items) == 1 and items[0][0] == sc.SUBPATTERN:
        inner = list(items[0][1][3])
        if len(inner) == 1 and inner[0][0] == sc.IN:
            cls = inner[0][1]
            neg = cls and cls[0][0] == sc.NEGATE
            rest = cls[1:] if neg else cls
            ranges = set()
            lits = set()
            only = True
            for op, av in rest:
                if op == sc.RANGE:
                    ranges.add((chr(av[0]), chr(av[1])))
                elif op == sc.LITERAL:
                    lits.add(chr(av))
                else:
                    only = False
            ok = bool(neg) and only and ranges == {("0", "9"), ("a", "z"), ("A", "Z")} and lits == {"_"}
    if ok:
        ctx.ok("C10.escape", None, "pattern_to_sbml", "escapes exactly the complement of [0-9A-Za-z_] (explicit character ranges)")
    else:
        ctx.bad("C10.escape", None, "pattern_to_sbml", f"`{to}` does not escape exactly the complement of [0-9A-Za-z_]: e.g. Unicode letters/digits pass through unescaped and libsbml rejects the identifier", file=rel)
    frm = pat("pattern_from_sbml")
    if frm == r"__(\d+)__":
        ctx.ok("C10.escape", None, "pattern_from_sbml", "token __<digits>__ with the code point captured")
    else:
        ctx.bad("C10.escape", None, "pattern_from_sbml", f"the unescape token `{frm}` is not `__(\\d+)__`, the form the writer produces", file=rel)
    esc = prog.func(MOD, "_escape_non_alphanum")
    un = prog.func(MOD, "_number_to_chr")

    class _Match:
        def __init__(self, whole, g1=None):
            self.whole, self.g1 = whole, g1

    def str_call(ev, c: ast.Call):
        f = c.func
        if isinstance(f, ast.Attribute):
            recv = ev.eval(f.value)
            if isinstance(recv, _Match) and f.attr == "group":
                a = [ev.eval(x) for x in c.args]
                if a in ([], [0]):
                    return recv.whole
                if a == [1] and recv.g1 is not None:
                    return recv.g1
                raise Unknown("match group")
            if isinstance(recv, str) and f.attr in ("startswith", "endswith", "removeprefix", "replace", "lstrip", "strip", "format", "zfill"):
                return getattr(recv, f.attr)(*[ev.eval(x) for x in c.args])
        if isinstance(f, ast.Name) and f.id in ("ord", "chr"):
            return {"ord": ord, "chr": chr}[f.id](ev.eval(c.args[0]))
        return NotImplemented

    def ret(fn, env):
        ev = Evaluator(env, on_call=str_call)
        try:
            ev.run([st for st in fn.node.body if not (isinstance(st, ast.Expr) and isinstance(st.value, ast.Constant))])
        except EvalReturn as r:
            return r.value
        except (Unknown, EvalRaise) as exc:
            raise AnalysisError(f"C10.escape: {fn.short} cannot be evaluated: {exc}")
        raise AnalysisError(f"C10.escape: {fn.short} does not return")

    bad = []
    for ch in ("-", "\u00e9", "\u4e2d", "["):  # 2-, 3- and 5-digit code points: both helpers are straight-line code
        tok = ret(esc, {esc.params[0]: _Match(ch)})
        if tok != f"__{ord(ch)}__":
            bad.append(f"escape({ch!r}) = {tok!r}")
            continue
        back = ret(un, {un.params[0]: _Match(tok, str(ord(ch)))})
        if back != ch:
            bad.append(f"unescape({tok!r}) = {back!r}")
    if bad:
        ctx.bad("C10.escape", esc, esc.node.body[-1], f"the escape helper and the unescape helper are not ord/chr inverses with the __N__ framing: {bad[0]}")
    else:
        ctx.ok("C10.escape", esc, esc.node.body[-1], "escape(c) = '__' + decimal ord(c) + '__' and unescape(token) = chr(int(group 1)) (evaluated; straight-line helpers)")
    # pairs, evaluated: reader(writer(id)) == id and writer(id) is a valid SId, for ids that need every kind of escaping
    # (identifiers that already spell an escape token are known finding K5 and outside this clause)
    import re as _re
    from ..interp import Interp

    helpers = [f"{MOD}.{n}" for n in ("_escape_non_alphanum", "_number_to_chr", "_clip")] + [f"{MOD}._f_{k}{sfx}" for k in ("gene", "specie", "reaction", "group") for sfx in ("", "_rev")]
    helpers += [f.qualname for f in prog.all_funcs() if f.unit is unit and f.parent is None and f.cls is None and f.qualname not in helpers and f.name.startswith("_") and len(f.node.body) <= 12 and f.name not in ("_sbml_to_model", "_model_to_sbml")]
    it = Interp(prog, (), helpers, {}, globals_={})
    SID = _re.compile(r"^[A-Za-z_][A-Za-z0-9_]*$")
    ids = ["abc", "a-b", "\u00e9\u4e2d", "G_x", "M_M_x", "R_", "x__y", "a.b:c", "1abc", "a b", "x[c]", "_", "a_45_b", "EX_glc__D_e", "ala__L_c", "(e)", "a/b\\c", "0"]
    pairs_failed = False
    for kind in ("gene", "specie", "reaction", "group"):
        w = prog.func(MOD, f"_f_{kind}_rev")
        r = prog.func(MOD, f"_f_{kind}")
        wrong = []
        for sid in ids:
            try:
                enc = it.call(w, [sid], {})
                dec = it.call(r, [enc], {})
            except EvalRaise as exc:
                wrong.append(f"{sid!r}: raises {exc.exc_type}")
                continue
            except Unknown as exc:
                raise AnalysisError(f"C10.escape: the {kind} id functions cannot be evaluated: {exc}")
            if not isinstance(enc, str) or not SID.match(enc):
                wrong.append(f"{sid!r} is written as {enc!r}, which is not a valid SBML SId")
            elif dec != sid:
                wrong.append(f"{sid!r} is written as {enc!r} and read back as {dec!r}")
        if wrong:
            pairs_failed = True
            ctx.bad("C10.escape", w, w.node, f"{kind} identifiers do not survive writer + reader: {wrong[0]}" + (f" (+{len(wrong) - 1} more)" if len(wrong) > 1 else ""))
        else:
            ctx.ok("C10.escape", w, f"{kind} id round trip", f"{len(ids)} identifiers (every class of escaped character, prefixes that repeat, leading digits): written form is a valid SId and the reader returns the identifier (evaluated, real `re`)")
    # pairs, as spelled: explains only (reported when the evaluated round trip fails as well)
    real_bad = ctx.bad
    if not pairs_failed:
        ctx.bad = lambda *a, **k: ctx.note(f"structural reading not confirmed by the evaluated id round trip (no report): {a[3] if len(a) > 3 else a}"[:300])  # type: ignore[method-assign]
    try:
        _check_pairs_spelling(ctx, prog)
    finally:
        if not pairs_failed:
            del ctx.bad
    _check_escape_rest(ctx, prog, unit, rel, ret, ok, frm)


def _check_pairs_spelling(ctx, prog) -> None:
    for kind in ("gene", "specie", "reaction", "group"):
        w = prog.func(MOD, f"_f_{kind}_rev")
        r = prog.func(MOD, f"_f_{kind}")
        pw, pr = w.param_default("prefix"), r.param_default("prefix")
        if pw is None or pr is None or norm(pw) != norm(pr):
            ctx.bad("C10.escape", w, w.node, f"writer prefix {norm(pw)} and reader prefix {norm(pr)} of kind {kind} differ")
            continue
        wt = [" ".join(ast.unparse(s).split()) for s in w.node.body if not (isinstance(s, ast.Expr) and isinstance(s.value, ast.Constant))]
        rt = [" ".join(ast.unparse(s).split()) for s in r.node.body if not (isinstance(s, ast.Expr) and isinstance(s.value, ast.Constant))]
        w_ok = any("pattern_to_sbml.sub(_escape_non_alphanum, sid)" in s for s in wt) and any(s.startswith("return prefix + sid") for s in wt)
        r_ok = any("pattern_from_sbml.sub(_number_to_chr, sid)" in s for s in rt) and rt[-1] == "return _clip(sid, prefix)"
        if w_ok and r_ok:
            ctx.ok("C10.escape", w, w.node.body[-1], f"{kind}: escape then prefix; the reader unescapes then clips the same prefix ({norm(pw)})")
        else:
            ctx.bad("C10.escape", w if not w_ok else r, (w if not w_ok else r).node, f"{kind}: the writer's steps (escape, add prefix) are not undone by the reader (unescape, clip prefix)")


def _check_escape_rest(ctx, prog, unit, rel, ret, ok, frm) -> None:
    clip = prog.func(MOD, "_clip")
    bad = []
    for sid, prefix, want in (("M_abc", "M_", "abc"), ("abc", "M_", "abc"), ("M_M_a", "M_", "M_a"), ("MM_a", "M_", "MM_a"), ("aM_", "M_", "aM_"), ("M_", "M_", "")):
        got = ret(clip, {"sid": sid, "prefix": prefix})
        if got != want:
            bad.append(f"_clip({sid!r}, {prefix!r}) = {got!r}, expected {want!r}")
    if bad:
        ctx.bad("C10.escape", clip, clip.node.body[-1], f"_clip does not remove exactly one leading prefix: {bad[0]}")
    else:
        ctx.ok("C10.escape", clip, clip.node.body[-1], "clips exactly one leading prefix, only when present (evaluated over the prefix relations)")
    # F_REPLACE table
    tab = unit.globals.get("F_REPLACE")
    if not tab or not isinstance(tab[-1], ast.Dict):
        raise AnalysisError("io.sbml.F_REPLACE is not a literal dict")
    bad = []
    for k, v in zip(tab[-1].keys, tab[-1].values):
        key, fnm = norm(k), norm(v)
        want = "_f_" + key[2:].lower()
        if fnm != want:
            bad.append(f"{key} -> {fnm}")
    if bad or len(tab[-1].keys) != 8:
        ctx.bad("C10.escape", None, "F_REPLACE", f"the replacement table maps {bad or 'fewer than 8 keys'}: a key must map to the function of its own kind and direction", file=rel)
    else:
        ctx.ok("C10.escape", None, "F_REPLACE", "8 keys, each mapped to the function of its kind and direction")
    # ---- in-band token (K5)
    # the reader's token consists of '_' and digits, all of which the writer leaves unescaped
    if ok and frm == r"__(\d+)__":
        ctx.bad("C10.inband", None, "pattern_from_sbml", "the writer leaves '_' and digits unescaped, and these spell the reader's token: a raw identifier that contains e.g. '__45__' is a fixed point of the writer and is decoded to '-' by the reader", file=rel)
    else:
        ctx.ok("C10.inband", None, "pattern_from_sbml", "token characters are escaped by the writer")


# ---------------------------------------------------------------------------------------- others
def check_bounds(ctx) -> None:
    prog = ctx.prog
    fn = prog.func(MOD, "_sbml_to_model")
    def _is_rxn(e: ast.AST) -> bool:
        ts = ctx.inf.type_of(fn, e)
        return any(t == ("cls", "Reaction") for t in ts) or (not ts and isinstance(e, ast.Name))

    single = [n for n in walk_local(fn.node) if isinstance(n, ast.Assign) and isinstance(n.targets[0], ast.Attribute) and n.targets[0].attr in ("lower_bound", "upper_bound") and _is_rxn(n.targets[0].value) and _sources(ctx, fn, n.value) & {"getValue", "getLowerFluxBound", "getUpperFluxBound", "getParameter"}]
    both = [n for n in walk_local(fn.node) if isinstance(n, ast.Assign) and isinstance(n.targets[0], ast.Attribute) and n.targets[0].attr == "bounds" and _is_rxn(n.targets[0].value)]
    if single:
        ctx.bad("C10.bounds", fn, single[0], "the two bounds of a reaction read from SBML are set one at a time through the validating setters: a written pair such as (2000, 3000) cannot be read back")
    elif both:
        ctx.ok("C10.bounds", fn, both[0], "both bounds are set in one validated assignment")
        v = both[0].value
        if isinstance(v, ast.Tuple) and len(v.elts) == 2:
            ctx.ok("C10.bounds", fn, both[0], "a (lower, upper) pair (which is which: see the getters below)", nontrivial=False)
        else:
            ctx.note("C10.bounds: the assigned bounds are not a two-element tuple expression; order not read")
    else:
        ctx.bad("C10.bounds", fn, fn.node, "the bounds read from the document are not applied to the reaction")
    # the values come from the matching fbc getters (def-use sources, no spelling prescribed)
    for st in both[:1]:
        v = st.value
        if isinstance(v, ast.Tuple) and len(v.elts) == 2:
            lo, hi = _sources(ctx, fn, v.elts[0]), _sources(ctx, fn, v.elts[1])
            if "getLowerFluxBound" in lo and "getUpperFluxBound" in hi and "getUpperFluxBound" not in lo and "getLowerFluxBound" not in hi:
                ctx.ok("C10.bounds", fn, "fbc flux bounds", "lower from getLowerFluxBound, upper from getUpperFluxBound")
            elif "getUpperFluxBound" in lo or "getLowerFluxBound" in hi:
                ctx.bad("C10.bounds", fn, st, "lower/upper bound are not read from their own fbc flux bound parameters (the value assigned as one bound flows from the getter of the other)")
            else:
                ctx.note("C10.bounds: the fbc flux bound getters do not flow into the assigned pair in a recognised way; not read")
    cb = prog.func(MOD, "_create_bound")
    wfn = prog.func(MOD, "_model_to_sbml")
    seen_w = {}
    for n in walk_local(wfn.node):
        if isinstance(n, ast.Call) and isinstance(n.func, ast.Attribute) and n.func.attr in ("setLowerFluxBound", "setUpperFluxBound") and n.args:
            consts = {c.value for c in ast.walk(n.args[0]) if isinstance(c, ast.Constant) and isinstance(c.value, str)}
            for x in ast.walk(n.args[0]):
                if isinstance(x, ast.Name):
                    _, defs = ctx.inf.lookup_name(wfn, x.id)
                    for d in defs or []:
                        if isinstance(d.value, ast.AST):
                            consts |= {c.value for c in ast.walk(d.value) if isinstance(c, ast.Constant) and isinstance(c.value, str)}
            seen_w[n.func.attr] = (n, consts)
    if set(seen_w) == {"setLowerFluxBound", "setUpperFluxBound"}:
        lo_c, hi_c = seen_w["setLowerFluxBound"][1], seen_w["setUpperFluxBound"][1]
        if "lower_bound" in lo_c and "upper_bound" in hi_c and "upper_bound" not in lo_c and "lower_bound" not in hi_c:
            ctx.ok("C10.bounds", cb, "writer flux bounds", "lower bound parameter to setLowerFluxBound, upper to setUpperFluxBound")
        elif "upper_bound" in lo_c or "lower_bound" in hi_c:
            ctx.bad("C10.bounds", cb, seen_w["setLowerFluxBound"][0], "the writer does not attach the lower/upper bound parameter to the matching fbc attribute")
        else:
            ctx.note("C10.bounds: which bound the writer hands to setLower/UpperFluxBound is not recognisable; not read")
    else:
        ctx.bad("C10.bounds", cb, cb.node, "the writer does not set both fbc flux bounds of a reaction")


def check_sign(ctx) -> None:
    prog = ctx.prog
    fn = prog.func(MOD, "_sbml_to_model")
    for getter, op, word in (("getListOfReactants", ast.Sub, "subtract"), ("getListOfProducts", ast.Add, "add")):
        loops = [n for n in walk_local(fn.node) if isinstance(n, ast.For) and getter in norm(n.iter)]
        if not loops:
            ctx.bad("C10.sign", fn, fn.node, f"{getter} is not read")
            continue
        stores = [n for n in ast.walk(loops[0]) if isinstance(n, (ast.Assign, ast.AugAssign)) and "stoichiometry[" in norm(n.targets[0] if isinstance(n, ast.Assign) else n.target)]
        if stores and all(isinstance(s, ast.AugAssign) and isinstance(s.op, op) for s in stores):
            ctx.ok("C10.sign", fn, stores[0], f"{getter[9:].lower()} {word}, accumulating over repeated references to one species")
        else:
            ctx.bad("C10.sign", fn, stores[0] if stores else loops[0], f"{getter[9:].lower()} do not {word} their stoichiometry cumulatively: a species referenced twice (or on both sides) silently gets the wrong coefficient")
    init = [n for n in walk_local(fn.node) if isinstance(n, ast.Assign) and norm(n.targets[0]) == "stoichiometry"]
    if init and ("defaultdict" in norm(init[0].value)):
        ctx.ok("C10.sign", fn, init[0], "coefficients start at 0 for every species", nontrivial=False)
    elif init:
        ctx.bad("C10.sign", fn, init[0], "the stoichiometry map does not start every species at 0")
    w = prog.func(MOD, "_model_to_sbml")
    # the species-reference block, evaluated for a negative and a positive coefficient
    loops = [n for n in walk_local(w.node) if isinstance(n, ast.For) and "metabolites" in norm(n.iter) and any(isinstance(c, ast.Call) and isinstance(c.func, ast.Attribute) and c.func.attr in ("createReactant", "createProduct") for c in ast.walk(n))]
    if not loops:
        ctx.bad("C10.sign", w, w.node, "the writer no longer creates reactant/product references per metabolite")
        return
    lp = loops[0]
    tnames = [e.id for e in (lp.target.elts if isinstance(lp.target, ast.Tuple) else [lp.target]) if isinstance(e, ast.Name)]
    if len(tnames) != 2:
        raise AnalysisError("C10.sign: the species-reference loop does not iterate (metabolite, coefficient)")
    problems = []
    for coef in (-2.5, 3.0, 1.0):
        created: List[str] = []
        amounts: List[object] = []

        class _Ref:
            pass

        ref = _Ref()

        def on_call(ev, c: ast.Call):
            f = c.func
            if isinstance(f, ast.Attribute) and f.attr in ("createReactant", "createProduct"):
                created.append(f.attr)
                return ref
            if isinstance(f, ast.Attribute) and f.attr == "setStoichiometry":
                amounts.append(ev.eval(c.args[0]))
                return None
            if isinstance(f, ast.Attribute) and f.attr.startswith("set"):
                return None
            return NotImplemented

        def on_attr(ev, a: ast.Attribute):
            if isinstance(a.value, ast.Name) and a.value.id == tnames[0] and a.attr == "id":
                return "m_c"
            return NotImplemented

        ev = Evaluator({tnames[0]: Opaque("metabolite"), tnames[1]: coef, "f_replace": {}}, on_call=on_call, on_attr=on_attr)
        try:
            ev.run(lp.body)
        except (Unknown, EvalRaise) as exc:
            raise AnalysisError(f"C10.sign: the species-reference block cannot be evaluated: {exc}")
        want = "createReactant" if coef < 0 else "createProduct"
        if created != [want] or amounts != [abs(coef)]:
            problems.append(f"coefficient {coef:g}: {created or 'nothing'} with stoichiometry {amounts}, expected one {want}() with {abs(coef):g}")
    if problems:
        ctx.bad("C10.sign", w, lp, "the writer's reactant/product split does not match the sign of the coefficient: " + "; ".join(problems[:2]))
    else:
        ctx.ok("C10.sign", w, lp, "negative coefficient -> one reactant with -coefficient; otherwise one product with the coefficient (evaluated)")


def check_direction(ctx) -> None:
    prog = ctx.prog
    unit = prog.unit(MOD)

    def table(name):
        v = unit.globals.get(name)
        if not v or not isinstance(v[-1], ast.Dict):
            raise AnalysisError(f"io.sbml.{name} is not a literal dict")
        return {k.value: x.value for k, x in zip(v[-1].keys, v[-1].values)}

    ls, sl = table("LONG_SHORT_DIRECTION"), table("SHORT_LONG_DIRECTION")
    if {v: k for k, v in ls.items()} == sl and set(sl) == {"min", "max"}:
        ctx.ok("C10.direction", None, "direction tables", "LONG_SHORT_DIRECTION and SHORT_LONG_DIRECTION are inverse over {min, max}")
    else:
        ctx.bad("C10.direction", None, "LONG_SHORT_DIRECTION", "the two direction tables are not inverse: a minimisation is written or read as a maximisation", file=unit.rel)
    w = prog.func(MOD, "_model_to_sbml")

    def _flow(fn: FuncInfo, e: ast.AST, depth: int = 6, seen=None):
        """(names of tables subscripted, attribute names read, methods called) on the def-use paths into ``e``."""
        tables, attrs, calls = set(), set(), set()
        seen = seen if seen is not None else set()
        if depth < 0 or id(e) in seen:
            return tables, attrs, calls
        seen.add(id(e))
        for n in ast.walk(e):
            if isinstance(n, ast.Subscript) and isinstance(n.value, ast.Name):
                tables.add(n.value.id)
            if isinstance(n, ast.Attribute):
                attrs.add(n.attr)
            if isinstance(n, ast.Call):
                calls.add(n.func.attr if isinstance(n.func, ast.Attribute) else norm(n.func))
            if isinstance(n, ast.Name) and isinstance(n.ctx, ast.Load):
                _, defs = ctx.inf.lookup_name(fn, n.id)
                for d in defs or []:
                    if d.kind in ("assign", "annassign") and isinstance(d.value, ast.AST):
                        t2, a2, c2 = _flow(fn, d.value, depth - 1, seen)
                        tables |= t2
                        attrs |= a2
                        calls |= c2
        return tables, attrs, calls

    set_types = [n for n in walk_local(w.node) if isinstance(n, ast.Call) and isinstance(n.func, ast.Attribute) and n.func.attr == "setType" and n.args]
    if not set_types:
        ctx.bad("C10.direction", w, w.node, "the objective type is not written")
    else:
        tables, attrs, _ = _flow(w, set_types[0].args[0])
        if "SHORT_LONG_DIRECTION" in tables and "direction" in attrs:
            ctx.ok("C10.direction", w, "objective.setType", "the written objective type is the model's direction, through the short->long table")
        elif "LONG_SHORT_DIRECTION" in tables or ("direction" not in attrs and not tables):
            ctx.bad("C10.direction", w, set_types[0], "the objective type is not written from the model's objective direction through the short->long table")
        else:
            ctx.note("C10.direction: how the written objective type is computed is not recognised; not read")
    r = prog.func(MOD, "_sbml_to_model")
    so = [n for n in walk_local(r.node) if isinstance(n, ast.Call) and norm(n.func).split(".")[-1] == "set_objective"]
    di = [n for n in walk_local(r.node) if isinstance(n, ast.Assign) and norm(n.targets[0]).endswith("objective.direction")]
    if so and di:
        g = ctx.flow.cfg(r)
        so_nodes = set()
        for c_ in so:
            so_nodes |= {x for x in g.node_containing(c_) if x.kind != "with_exit"}
        di_nodes = [x for x in g.node_containing(di[0]) if x.kind != "with_exit"]
        # the direction is assigned after the objective is set: on no path does set_objective follow the assignment
        after = g.reach(di_nodes, edge_ok=no_exc)
        if any(x in after for x in so_nodes):
            ctx.bad("C10.direction", r, di[0], "the objective is set after the direction read from the document has been applied: set_objective builds a new objective with the old direction, the document's direction is lost")
        else:
            ctx.ok("C10.direction", r, di[0], "direction assigned after the objective is set (set_objective keeps the old direction)")
        tables, attrs, calls = _flow(r, di[0].value)
        if "getType" in calls and "LONG_SHORT_DIRECTION" in tables:
            ctx.ok("C10.direction", r, "obj.getType()", "direction read from the objective's type through the long->short table")
        elif "getType" not in calls:
            ctx.bad("C10.direction", r, di[0], "the direction that is applied does not come from the objective's type in the document")
        else:
            ctx.note("C10.direction: how the read direction is converted is not recognised; not read")
    else:
        ctx.bad("C10.direction", r, r.node, "the objective direction read from the document is not applied to the model (after the objective is set)")


FIELDS = [
    ("species id", "setId", "getIdAttribute"), ("name", "setName", "getName"), ("compartment", "setCompartment", "getCompartment"),
    ("charge", "setCharge", "getCharge"), ("formula", "setChemicalFormula", "getChemicalFormula"),
    ("notes", "_sbase_notes_dict", "_parse_notes_dict"), ("annotation", "_sbase_annotations", "_parse_annotations"),
    ("lower bound", "setLowerFluxBound", "getLowerFluxBound"), ("upper bound", "setUpperFluxBound", "getUpperFluxBound"),
    ("stoichiometry", "setStoichiometry", "getStoichiometry"), ("species reference", "setSpecies", "getSpecies"),
    ("gene rule", "setAssociation", "getAssociation"), ("objective coefficient", "setCoefficient", "getCoefficient"),
    ("objective reaction", "setReaction", "getReaction"), ("objective direction", "setType", "getType"),
    ("groups", "createGroup", "getListOfGroups"), ("group kind", "setKind", "getKindAsString"),
    ("group members", "createMember", "getListOfMembers"), ("member reference", "setIdRef", "getIdRef"),
    ("compartment name", "createCompartment", "getListOfCompartments"), ("gene products", "createGeneProduct", "getListOfGeneProducts"),
]


def check_fields(ctx) -> None:
    prog = ctx.prog
    w = prog.func(MOD, "_model_to_sbml")
    r = prog.func(MOD, "_sbml_to_model")
    wcalls = {norm(n.func).split(".")[-1] for n in ast.walk(w.node) if isinstance(n, ast.Call)}
    rcalls = {norm(n.func).split(".")[-1] for n in ast.walk(r.node) if isinstance(n, ast.Call)}
    for field, wc, rc in FIELDS:
        if wc in wcalls and rc in rcalls:
            ctx.ok("C10.fields", None, field, f"written by {wc}, read by {rc}")
        elif wc not in wcalls:
            ctx.bad("C10.fields", w, w.node, f"{field}: the writer no longer calls {wc}; the attribute is lost on export")
        else:
            ctx.bad("C10.fields", r, r.node, f"{field}: the reader no longer calls {rc}; the attribute is lost on import")


def check_member_lookup(ctx) -> None:
    """Group members are written as references to reactions, species and gene products; the reader resolves a
    reference through an id map and then dispatches on the kind of the object found. Every kind the dispatch handles
    has to be *in* the map: the loop that fills it ranges over the document's list of that kind (a kind that is
    handled but never entered makes the lookup fail with a KeyError - the whole document is then rejected)."""
    fn = ctx.prog.func(MOD, "_sbml_to_model")
    need = {"SBML_SPECIES": "getListOfSpecies", "SBML_REACTION": "getListOfReactions", "SBML_FBC_GENEPRODUCT": "getListOfGeneProducts"}
    handled = {n.attr for n in walk_local(fn.node) if isinstance(n, ast.Attribute) and n.attr in need and any(isinstance(a, ast.Compare) for a in ancestors(n))}
    # the id map: a dict stored under the id attribute of the loop variable
    fills = [n for n in walk_local(fn.node) if isinstance(n, ast.Assign) and isinstance(n.targets[0], ast.Subscript) and isinstance(n.targets[0].slice, ast.Call) and norm(n.targets[0].slice.func).endswith("getIdAttribute")]
    lookups = [n for n in walk_local(fn.node) if isinstance(n, ast.Subscript) and isinstance(n.slice, ast.Call) and norm(n.slice.func).endswith("getIdRef")]
    if not handled or not fills or not lookups:
        ctx.note("C10.kinds: the group member lookup of the reader is not in a recognised form; coverage of the id map not read")
        return
    maps = {norm(l.value) for l in lookups}
    fills = [f for f in fills if norm(f.targets[0].value) in maps]
    if not fills:
        ctx.note("C10.kinds: the id map of the group member lookup is filled in no recognised way; not read")
        return
    got = set()
    for f in fills:
        for a in ancestors(f):
            if a is fn.node:
                break
            if isinstance(a, ast.For):
                got |= {x for x in _sources(ctx, fn, a.iter) if x.startswith("getListOf")}
    missing = sorted(k for k in handled if need[k] not in got)
    if missing and got:
        ctx.bad("C10.kinds", fn, fills[0], f"group members of kind {missing} are handled by the member dispatch but their objects are never entered into the id map (it is filled from {sorted(got)}): a written group that contains such a member cannot be read back (KeyError, the document is rejected)")
    elif got:
        ctx.ok("C10.kinds", fn, fills[0], f"the id map of the group member lookup covers every kind the dispatch handles ({sorted(handled)})")
    else:
        ctx.note("C10.kinds: the lists the id map is filled from are not recognisable; not read")


def check_objective_written(ctx) -> None:
    """The writer creates a flux objective for a reaction exactly when its objective coefficient is not zero - of
    either sign: the guards around `createFluxObjective` are evaluated for a negative, a zero and a positive
    coefficient."""
    fn = ctx.prog.func(MOD, "_model_to_sbml")
    creates = [n for n in walk_local(fn.node) if isinstance(n, ast.Call) and isinstance(n.func, ast.Attribute) and n.func.attr == "createFluxObjective"]
    if not creates:
        ctx.bad("C10.fields", fn, fn.node, "the writer creates no flux objectives: the objective is lost")
        return
    c = creates[0]
    loop = _innermost_loop(c, fn)
    guards = []
    for a in ancestors(c):
        if a is loop or a is fn.node:
            break
        if isinstance(a, ast.If):
            guards.append((a, any(c is x or c in ast.walk(x) for x in a.body)))
    problems = []
    for coef in (-0.25, 0, 0.0, 1.0, 1e-12):
        def on_call(ev, call: ast.Call, _c=coef):
            if isinstance(call.func, ast.Attribute) and call.func.attr == "get" and ("coef" in norm(call.func.value).lower() or "objective" in norm(call.func.value).lower()):
                return _c
            return NotImplemented

        def on_attr(ev, at: ast.Attribute, _c=coef):
            if at.attr == "objective_coefficient":
                return _c
            return NotImplemented

        def on_sub(ev, sub: ast.Subscript, _c=coef):
            if "coef" in norm(sub.value).lower():
                return _c
            return NotImplemented

        ev = Evaluator({}, on_call=on_call, on_attr=on_attr, on_subscript=on_sub)
        try:
            taken = all(bool(ev.truth(g.test)) == in_body for g, in_body in guards)
        except (Unknown, EvalRaise) as exc:
            ctx.note(f"C10.fields: the guard of the written flux objectives cannot be evaluated ({exc}); not read")
            return
        if taken != (coef != 0):
            problems.append(f"a reaction with objective coefficient {coef!r} {'gets' if taken else 'gets no'} flux objective")
    if problems:
        ctx.bad("C10.fields", fn, enclosing_stmt(c), "; ".join(problems[:2]) + ": the objective of the re-imported model differs (a negative coefficient is a coefficient)")
    else:
        ctx.ok("C10.fields", fn, enclosing_stmt(c), "a flux objective is written exactly for the reactions with a non-zero coefficient, of either sign (guards evaluated)")


def check_create_bound(ctx) -> None:
    """_create_bound evaluated: a bound equal to a shared default (configured lower/upper, 0, +-inf) is written as a
    reference to the shared parameter of that value; any other bound gets a parameter of its own whose id is built
    from the reaction id *after* the id replacement of reactions (a raw id with characters that are no SId characters
    is rejected by libsbml without an error being raised, and the bound is lost), distinct for lower and upper bound
    and for different reactions, and which carries the value."""
    from ..interp import Interp

    prog = ctx.prog
    fn = prog.func(MOD, "_create_bound")
    unit = prog.unit(MOD)
    consts = {name: vals[-1].value for name, vals in unit.globals.items() if vals and isinstance(vals[-1], ast.Constant)}

    class _S:
        pass

    class _R(_S):
        def __init__(self, rid, lb, ub):
            self.id, self.lower_bound, self.upper_bound = rid, lb, ub

    class _M(_S):
        """The libsbml model as far as parameters go."""

        def __init__(self):
            self.params = {}
            self.clashes = []

        def getParameter(self, pid):
            return self.params.get(pid)

    class _P(_S):
        def __init__(self, pid, value):
            self.pid, self.value = pid, value

    def create_parameter(it_, ev, c, a, k):
        kw = dict(k)
        names = ["model", "pid", "value", "constant", "sbo", "units", "flux_udef"]
        for n_, v in zip(names, a):
            kw[n_] = v
        m_ = kw.get("model")
        if isinstance(m_, _M):
            if kw.get("pid") in m_.params:
                m_.clashes.append(kw.get("pid"))
            m_.params[kw.get("pid")] = _P(kw.get("pid"), kw.get("value"))
        return None

    tagged = lambda x: "R__" + "".join(ch if ch.isalnum() or ch == "_" else f"__{ord(ch)}__" for ch in x)  # noqa: E731
    problems = []
    shared = {-1000.0: "LOWER_BOUND_ID", 0.0: "ZERO_BOUND_ID", 1000.0: "UPPER_BOUND_ID", float("-inf"): "BOUND_MINUS_INF", float("inf"): "BOUND_PLUS_INF"}
    sid = re.compile(r"[A-Za-z_][A-Za-z0-9_]*\Z")
    n = 0
    # all the bounds of one model go into one document: values that differ only after the sixth significant digit, in
    # the last bit, by sign; the same value on two reactions
    bounds = ((-1000.0, 1000.0), (0.0, float("inf")), (float("-inf"), 0.0), (-10.0, 7.5), (2000.0, 3000.0), (123.456789, 123.4567891), (-7.5, 7.5), (0.1 + 0.2, 0.3), (1e-7, 1.0000001e-7), (-10.0, 2000.0))
    helpers = [f.qualname for f in prog.all_funcs() if f.qualname.startswith(MOD + "._") and f.parent is None and f is not fn]  # what the function may be factored into
    for with_table in (True, False):
        doc = _M()
        written = []
        for rid in ("PFK", "EX_glc(e)", "R-1.2"):
            for k_, (lb, ub) in enumerate(bounds):
                r_id = f"{rid}{k_}" if rid == "PFK" else f"{rid}.{k_}"
                for btype, val in (("lower_bound", lb), ("upper_bound", ub)):
                    table = {consts.get("F_REACTION_REV", "F_REACTION_REV"): _Tag(tagged)} if with_table else None
                    it = Interp(prog, (_S, _Tag), helpers, {f"{MOD}._create_parameter": create_parameter})
                    before = len(doc.params)
                    try:
                        out = it.call(fn, [doc, _R(r_id, lb, ub), btype], {"f_replace": table, "units": None, "flux_udef": None})
                    except EvalRaise as exc:
                        problems.append(f"_create_bound({r_id}, {btype}={val}) raises {exc.exc_type}")
                        continue
                    except Unknown as exc:
                        raise AnalysisError(f"C10.bounds: _create_bound cannot be evaluated: {exc}")
                    n += 1
                    if val in shared:
                        want = consts.get(shared[val])
                        if out != want or len(doc.params) != before:
                            problems.append(f"the {btype} {val} of {r_id} is written as {out!r}{' with a new parameter' if len(doc.params) != before else ''}, expected the shared parameter {want!r}")
                        continue
                    written.append((r_id, btype, val, out))
                    if not isinstance(out, str) or (with_table and not sid.match(out)):
                        problems.append(f"the parameter for the {btype} of reaction {r_id!r} is named {out!r}, which is no SId although the id replacement for reactions is in force: libsbml rejects such an id (return codes are not checked), the reaction then refers to no parameter and the bound is read back as the default")
        if doc.clashes:
            problems.append(f"two parameters are created with the id {doc.clashes[0]!r}")
        # what a reader finds: the parameter a reaction's bound refers to carries exactly that bound
        for r_id, btype, val, out in written:
            p_ = doc.params.get(out)
            if p_ is None:
                problems.append(f"the {btype} {val!r} of {r_id} refers to the parameter {out!r}, which was never created")
            elif p_.value != val or type(p_.value) is not float:
                problems.append(f"the {btype} {val!r} of {r_id} refers to the parameter {out!r}, which carries {p_.value!r} (the document is read back with that bound)")
    if problems:
        ctx.bad("C10.bounds", fn, fn.node, problems[0] + (f" (+{len(problems) - 1} more)" if len(problems) > 1 else ""))
    else:
        ctx.ok("C10.bounds", fn, "bound parameters", f"{n} bounds written into one document, with and without id replacement: shared parameters for the shared values; every other bound refers to a parameter that exists once, has a valid id and carries exactly that value (evaluated)")


def check_readers_not_memoised(ctx, rule: str, modules) -> None:
    """What a file holds is no function of its name (it may be rewritten through a file handle, by another call or by
    another program): a function of the reader modules that takes its result from the file system or the parser
    library must not be memoised on its arguments. Rule: no function of the given modules that (transitively, within
    the module) opens / reads / parses carries a cache decorator, and none of them consults a module-level table keyed
    by one of its own parameters before reading."""
    prog = ctx.prog
    scanned = 0
    for mod in modules:
        try:
            unit = prog.unit(mod)
        except Exception:  # noqa: BLE001
            raise AnalysisError(f"{rule}: module {mod} not found")
        funcs = [f for f in prog.all_funcs() if f.unit is unit and f.parent is None]
        byname = {f.node.name: f for f in funcs}
        module_tables = {n for n, vals in unit.globals.items() if vals and isinstance(vals[-1], (ast.Dict, ast.Call)) and (isinstance(vals[-1], ast.Dict) and not vals[-1].keys or norm(getattr(vals[-1], "func", vals[-1])).split(".")[-1] in ("dict", "OrderedDict", "WeakValueDictionary", "defaultdict") and not getattr(vals[-1], "args", None))}

        def touches_files(f, seen=None) -> bool:
            seen = seen if seen is not None else set()
            if f.qualname in seen:
                return False
            seen.add(f.qualname)
            for n in walk_local(f.node):
                if isinstance(n, ast.Call):
                    name = norm(n.func)
                    last = name.split(".")[-1]
                    if last in ("open", "read_text", "read_bytes", "loadmat", "load", "safe_load") or last.startswith("readSBML") or (last in ("read", "loads") and name.split(".")[0] in ("json", "yaml", "f", "handle", "file_handle")):
                        return True
                    if isinstance(n.func, ast.Name) and n.func.id in byname and touches_files(byname[n.func.id], seen):
                        return True
            return False

        for f in funcs:
            if not touches_files(f):
                continue
            scanned += 1
            cached = [d for d in (f.decorators or []) if re.search(r"\b(lru_cache|cache|cached|memoize|memoized|cached_property)\b", d)]
            if cached:
                ctx.bad(rule, f, f.node, f"`{f.node.name}` reads from the file system / the parser and is memoised on its arguments (@{cached[0]}): when the file is rewritten in any way that does not clear this cache - through an open file handle, by another writer - the next read of the same name returns the document as it was")
                continue
            params = {a.arg for a in f.node.args.args + f.node.args.kwonlyargs}
            memo = None
            for n in walk_local(f.node):
                if isinstance(n, ast.Subscript) and isinstance(n.value, ast.Name) and n.value.id in module_tables and isinstance(n.ctx, ast.Store) and any(isinstance(x, ast.Name) and x.id in params for x in ast.walk(n.slice)):
                    memo = n
            if memo is not None:
                ctx.bad(rule, f, enclosing_stmt(memo), f"`{f.node.name}` keeps what it read in the module-level table `{memo.value.id}` under its own argument: a later read of the same name is answered from the table, whatever the file holds by then")
            else:
                ctx.ok(rule, f, None, "reads the source on every call", nontrivial=True)
    if not scanned:
        raise AnalysisError(f"{rule}: no reading function found in {list(modules)}")


def check_integer_setters(ctx) -> None:
    """libsbml's integer attributes (fbc:charge) take a Python int: handed a float (2.0 - the model classes accept it)
    the binding stores 0 without an error, and the document says the metabolite is neutral. Rule: the argument of every
    integer setter of the writer is an `int(..)` conversion, or a name that is assigned one on some path before the call
    (the usual form: convert when the value is integral)."""
    prog = ctx.prog
    fn = prog.func(MOD, "_model_to_sbml")
    setters = ("setCharge",)
    n = 0
    for c in walk_local(fn.node):
        if not (isinstance(c, ast.Call) and isinstance(c.func, ast.Attribute) and c.func.attr in setters and c.args):
            continue
        n += 1
        arg = c.args[0]

        def converts(e) -> bool:
            return isinstance(e, ast.Call) and isinstance(e.func, ast.Name) and e.func.id in ("int", "round") and len(e.args) == 1 or \
                isinstance(e, ast.IfExp) and (converts(e.body) or converts(e.orelse))

        ok = converts(arg)
        if not ok and isinstance(arg, ast.Name):
            for a in walk_local(fn.node):
                if isinstance(a, ast.Assign) and any(isinstance(t, ast.Name) and t.id == arg.id for t in a.targets) and converts(a.value) and a.lineno < c.lineno:
                    ok = True
        if ok:
            ctx.ok("C10.fields", fn, c, f"`{c.func.attr}` receives an integer conversion")
        else:
            ctx.bad("C10.fields", fn, c, f"`{norm(c, 60)}`: the value goes to libsbml's integer setter as it is - a charge held as a float (2.0, accepted by the model classes, what a data frame or JSON hands out) is stored as 0 without an error, and the metabolite is read back neutral")
    if not n:
        ctx.note("C10.fields: the writer calls no integer setter that is read here")


def check_legacy_rule_source(ctx) -> None:
    """A document that uses the fbc package states its gene rules as geneProductAssociations: a reaction without one has
    an empty rule. The legacy fallback (the rule text kept in the notes under GENE ASSOCIATION / GENE_ASSOCIATION - notes
    are exported verbatim, so a written model may well carry such a note next to an empty rule) belongs to documents
    without the plugin. Rule (guard dominance): every read of these note keys in the reader lies in a branch that is
    taken only when the fbc plugin object (`x.getPlugin("fbc")`) of the model or of the reaction is absent."""
    prog = ctx.prog
    fn = prog.func(MOD, "_sbml_to_model")
    plugins = set()
    for n in walk_local(fn.node):
        if isinstance(n, (ast.Assign, ast.AnnAssign)) and isinstance(getattr(n, "value", None), ast.Call):
            c = n.value
            if isinstance(c.func, ast.Attribute) and c.func.attr == "getPlugin" and c.args and isinstance(c.args[0], ast.Constant) and c.args[0].value == "fbc":
                for t in (n.targets if isinstance(n, ast.Assign) else [n.target]):
                    if isinstance(t, ast.Name):
                        plugins.add(t.id)
    sites = [n for n in walk_local(fn.node) if isinstance(n, ast.Constant) and n.value in ("GENE ASSOCIATION", "GENE_ASSOCIATION") and not isinstance(parent(n), ast.JoinedStr)
             and isinstance(parent(n), (ast.Compare, ast.Subscript, ast.Call))]
    # the fallback may be factored into a helper of the module: the call of the helper is the site then
    keys = ("GENE ASSOCIATION", "GENE_ASSOCIATION")
    helpers = {f.node.name for f in prog.all_funcs() if f.unit is fn.unit and f.parent is None and f is not fn
               and any(isinstance(n, ast.Constant) and n.value in keys and not isinstance(parent(n), ast.JoinedStr) for n in walk_local(f.node))}
    sites += [n for n in walk_local(fn.node) if isinstance(n, ast.Call) and isinstance(n.func, ast.Name) and n.func.id in helpers]
    if not sites or not plugins:
        ctx.note("C10.legacy: the reader has no legacy rule fallback (or no fbc plugin object) that is read here")
        return

    def present(test) -> Optional[bool]:
        """True: the test holds only when a plugin is present; False: only when it is absent; None: unrelated."""
        if isinstance(test, ast.Name) and test.id in plugins:
            return True
        if isinstance(test, ast.UnaryOp) and isinstance(test.op, ast.Not):
            inner = present(test.operand)
            return None if inner is None else not inner
        if isinstance(test, ast.Compare) and len(test.ops) == 1 and isinstance(test.left, ast.Name) and test.left.id in plugins and isinstance(test.comparators[0], ast.Constant) and test.comparators[0].value is None:
            return isinstance(test.ops[0], ast.IsNot) if isinstance(test.ops[0], (ast.Is, ast.IsNot)) else None
        return None

    for site in sites:
        ok = False
        child = site
        for a in ancestors(site):
            if a is fn.node:
                break
            if isinstance(a, ast.If):
                side = present(a.test)
                in_body = any(child is x or any(child is y for y in ast.walk(x)) for x in a.body)
                if side is not None and ((side and not in_body) or (not side and in_body)):
                    ok = True
                    break
            child = a
        if ok:
            ctx.ok("C10.legacy", fn, site, "the rule text in the notes is consulted only for a document / reaction without the fbc plugin")
        else:
            ctx.bad("C10.legacy", fn, enclosing_stmt(site), f"the note `{getattr(site, 'value', None) if isinstance(site, ast.Constant) else norm(site, 40)}` is read as the gene rule on a path that is also taken when the fbc plugin is present (plugin objects: {sorted(plugins)}): a reaction written with an empty rule and such a note (notes are exported verbatim) is read back with the rule of the note")


class _Tag:
    """An id replacement function of the f_replace table (callable stand-in)."""

    def __init__(self, f):
        self.f = f

    def __call__(self, x):
        return self.f(x)


def check_annot(ctx) -> None:
    """_parse_annotations evaluated on stand-in SBase objects whose CV terms list resources in a given order (the URI
    parser is a stub that splits `provider|identifier`): the resulting annotation holds, per provider, every identifier
    once - compared as list elements, never as substrings. No spelling of the merge is prescribed."""
    from ..interp import Interp

    prog = ctx.prog
    fn = prog.func(MOD, "_parse_annotations")

    class _S:
        pass

    class _CV(_S):
        def __init__(self, uris):
            self.uris = list(uris)

        def getNumResources(self):
            return len(self.uris)

        def getResourceURI(self, k):
            return self.uris[k]

        def getBiologicalQualifierType(self):
            return 0

        def getQualifierType(self):
            return 1

    class _SB(_S):
        def __init__(self, terms, sbo=None):
            self.terms, self.sbo = terms, sbo

        def isSetSBOTerm(self):
            return self.sbo is not None

        def getSBOTermID(self):
            return self.sbo

        def getCVTerms(self):
            return self.terms

        def getNumCVTerms(self):
            return len(self.terms or [])

        def getCVTerm(self, k):
            return self.terms[k]

    def info(it_, ev, c, a, k):
        uri = a[0]
        if "|" not in uri:
            return None
        p_, i_ = uri.split("|", 1)
        return (p_, i_)

    cases = [
        ("a single identifier", [["ec-code|2.7.1.11"]], None, {"ec-code": ["2.7.1.11"]}),
        ("two identifiers of one provider", [["ec-code|2.7.1.11", "ec-code|1.1.1.1"]], None, {"ec-code": ["2.7.1.11", "1.1.1.1"]}),
        ("the second identifier is a substring of the first", [["ec-code|2.7.1.11", "ec-code|2.7.1.1"]], None, {"ec-code": ["2.7.1.11", "2.7.1.1"]}),
        ("a repeated identifier", [["ec-code|2.7.1.11", "ec-code|1.1.1.1"], ["ec-code|1.1.1.1"]], None, {"ec-code": ["2.7.1.11", "1.1.1.1"]}),
        ("the same single identifier twice", [["ec-code|2.7.1.11"], ["ec-code|2.7.1.11"]], None, {"ec-code": ["2.7.1.11"]}),
        ("three identifiers over two CV terms, two providers, an SBO term, an unparsable resource", [["kegg|C1", "chebi|CHEBI:1", "not a uri"], ["kegg|C2", "kegg|C10", "chebi|CHEBI:1"]], "SBO:0000247", {"sbo": ["SBO:0000247"], "kegg": ["C1", "C2", "C10"], "chebi": ["CHEBI:1"]}),
        ("no CV terms", None, None, {}),
    ]
    problems = []
    for label, terms, sbo, want in cases:
        sb = _SB(None if terms is None else [_CV(u) for u in terms], sbo)
        it = Interp(prog, (_S,), [], {f"{MOD}._parse_annotation_info": info})
        try:
            got = it.call(fn, [sb], {})
        except EvalRaise as exc:
            problems.append(f"{label}: raises {exc.exc_type}")
            continue
        except Unknown as exc:
            raise AnalysisError(f"C10.annot: _parse_annotations cannot be evaluated: {exc}")
        listed = {k: ([v] if isinstance(v, str) else list(v)) for k, v in (got or {}).items()} if isinstance(got, dict) else got
        if listed != want:
            problems.append(f"{label}: resources {terms} are read as {got!r} (expected, as lists, {want})")
    if problems:
        ctx.bad("C10.annot", fn, fn.node, "; ".join(problems[:2]) + ": an annotation identifier is lost (or duplicated) on import")
    else:
        ctx.ok("C10.annot", fn, "merge", f"{len(cases)} resource sequences: per provider every identifier once, compared as list elements, never as substrings (evaluated)")


def check_replace_defaults(ctx) -> None:
    """Writer and reader give `f_replace` the same meaning: the public entry points default to the same table and
    None / {} mean 'no replacement' on both sides (no function turns None into the default table)."""
    prog = ctx.prog
    entries = [prog.func(MOD, "read_sbml_model"), prog.func(MOD, "write_sbml_model"), prog.func(MOD, "_sbml_to_model"), prog.func(MOD, "_model_to_sbml")]
    public = {}
    for fn in entries:
        d = fn.param_default("f_replace")
        public[fn.short] = norm(d) if d is not None else None
        rebinds = [n for n in walk_local(fn.node) if isinstance(n, ast.Assign) and any(isinstance(t, ast.Name) and t.id == "f_replace" for t in n.targets)]
        bad = [n for n in rebinds if not (isinstance(n.value, ast.Dict) and not n.value.keys)]
        if bad:
            ctx.bad("C10.kinds", fn, bad[0], f"{fn.short} replaces the caller's f_replace (`{norm(bad[0])}`): None and {{}} are documented as 'no replacement' and the other direction honours that, so identifiers written without replacement come back clipped and unescaped (or the reverse)")
        else:
            ctx.ok("C10.kinds", fn, fn.node.args, "f_replace is used as given (None / {} = no replacement)", nontrivial=False)
    if public["read_sbml_model"] == public["write_sbml_model"] == "F_REPLACE":
        ctx.ok("C10.kinds", entries[0], entries[0].node.args, "reader and writer default to the same replacement table")
    else:
        ctx.bad("C10.kinds", entries[0], entries[0].node.args, f"reader and writer have different f_replace defaults ({public['read_sbml_model']} / {public['write_sbml_model']}): a default round trip does not undo its own replacements")


def check_numeric_getters(ctx) -> None:
    """A number read from the document is taken as it is: `getX() or default` would turn an explicit 0 into the default."""
    fn = ctx.prog.func(MOD, "_sbml_to_model")
    numeric = {"getCharge", "getValue", "getStoichiometry", "getCoefficient"}
    n_sites = 0
    for f in [fn] + list(fn.nested.values()):
        for n in walk_local(f.node):
            if isinstance(n, ast.Call) and isinstance(n.func, ast.Attribute) and n.func.attr in numeric:
                n_sites += 1
                par = parent(n)
                if isinstance(par, ast.BoolOp) and isinstance(par.op, ast.Or) and par.values[0] is n:
                    ctx.bad("C10.fields", f, enclosing_stmt(n), f"`{norm(par)}`: a stored value of exactly 0 (a neutral metabolite, a zero bound or coefficient) is read as `{norm(par.values[-1])}`")
                elif isinstance(par, ast.IfExp) and par.test is n:
                    ctx.bad("C10.fields", f, enclosing_stmt(n), f"`{norm(par)}` tests the number for truth: an explicit 0 takes the other branch")
                else:
                    ctx.ok("C10.fields", f, enclosing_stmt(n), f"{n.func.attr}() is used as read", nontrivial=False)
    # optional numbers: libsbml answers an unset attribute with 0 - the getter has to stand under its own isSet test
    optional = {"getCharge": "isSetCharge"}
    for f in [fn] + list(fn.nested.values()):
        for n in walk_local(f.node):
            if isinstance(n, ast.Call) and isinstance(n.func, ast.Attribute) and n.func.attr in optional:
                recv = norm(n.func.value)
                want = f"{recv}.{optional[n.func.attr]}()"
                tested = False
                child = n
                for a in ancestors(n):
                    if a is f.node:
                        break
                    if isinstance(a, ast.If) and any(child is x or child in ast.walk(x) for x in a.body) and want in norm(a.test):
                        tested = True
                    if isinstance(a, ast.IfExp) and (child is a.body or child in ast.walk(a.body)) and want in norm(a.test):
                        tested = True
                    child = a
                if tested:
                    ctx.ok("C10.fields", f, enclosing_stmt(n), f"{n.func.attr}() is read only when {optional[n.func.attr]}() holds")
                else:
                    ctx.bad("C10.fields", f, enclosing_stmt(n), f"`{norm(n)}` is read without testing `{want}`: libsbml answers an attribute that is not set with 0, so a metabolite without a charge comes back as a neutral one")
    if n_sites < 4:
        raise AnalysisError("C10: numeric getters of the reader not found")


def check_import_time_config(ctx) -> None:
    """No function of the SBML module freezes the configuration at import time: a parameter default is evaluated once,
    when the module is imported, so `= config.lower_bound` keeps the value the configuration had then."""
    prog = ctx.prog
    unit = prog.unit(MOD)
    n = 0
    for fn in unit.functions.values():
        a = fn.node.args
        for d in list(a.defaults) + [x for x in a.kw_defaults if x is not None]:
            n += 1
            names = {x.id for x in ast.walk(d) if isinstance(x, ast.Name)}
            if names & {"config", "configuration", "Configuration"}:
                ctx.bad("C10.bounds", fn, fn.node.args, f"the default `{norm(d)}` of {fn.short} is evaluated at import time: after `Configuration().bounds = ...` bounds equal to the old default are written as references to a parameter that holds the new default")
    ctx.ok("C10.bounds", None, "parameter defaults", f"{n} parameter defaults of io/sbml.py: none reads the configuration at import time", nontrivial=False)


# ------------------------------------------------------------------------------ per-item sentinels
def check_peritem_sentinels(ctx) -> None:
    """Readers decide "this element has no X" by a local that is None. Such a sentinel has to be reset in every
    iteration: if a path from the start of an iteration reaches the `is None` test without passing an assignment of
    the variable, the test sees the previous element's value (the element silently inherits its neighbour's data and
    the result depends on the order of the elements in the file)."""
    n_loops = 0
    for fn in sorted(ctx.prog.all_funcs(), key=lambda f: f.qualname):
        if not fn.unit.modname.startswith("cobra.io"):
            continue
        loops = [n for n in walk_local(fn.node) if isinstance(n, ast.For)]
        if not loops:
            continue
        g = ctx.flow.cfg(fn)
        for lp in loops:
            body_nodes = [n for st in lp.body for n in ast.walk(st)]
            assigned: Dict[str, List[ast.AST]] = {}
            for n in body_nodes:
                if isinstance(n, ast.Name) and isinstance(n.ctx, ast.Store):
                    assigned.setdefault(n.id, []).append(n)
            if not assigned:
                continue
            targets = {x.id for x in ast.walk(lp.target) if isinstance(x, ast.Name)}
            sentinels: Dict[str, List[ast.AST]] = {}
            for n in body_nodes:
                if isinstance(n, ast.Compare) and len(n.ops) == 1 and isinstance(n.ops[0], (ast.Is, ast.IsNot)) and isinstance(n.comparators[0], ast.Constant) and n.comparators[0].value is None and isinstance(n.left, ast.Name):
                    v = n.left.id
                    if v in assigned and v not in targets:
                        sentinels.setdefault(v, []).append(n)
            for v, tests in sorted(sentinels.items()):
                # values assigned in the loop must depend on the element (else it is a flag / accumulator)
                item_derived = False
                for st in lp.body:
                    for a in ast.walk(st):
                        if isinstance(a, (ast.Assign, ast.AnnAssign)) and a.value is not None and any(isinstance(t, ast.Name) and t.id == v for t in ast.walk(a.targets[0] if isinstance(a, ast.Assign) else a.target)):
                            if not (isinstance(a.value, ast.Constant)) and not (isinstance(a.value, ast.Tuple) and all(isinstance(e, ast.Constant) for e in a.value.elts)):
                                item_derived = True
                if not item_derived:
                    continue
                n_loops += 1
                defs: Set = set()
                for nm in assigned[v]:
                    defs |= {x for x in g.node_containing(nm) if x.kind != "with_exit"}
                first = [x for x in g.node_containing(lp.body[0]) if x.kind != "with_exit"][:1]
                stale = None
                for t in tests:
                    tn = [x for x in g.node_containing(t) if x.kind != "with_exit"]
                    seen = g.reach(first, avoid=lambda n_: n_ in defs, edge_ok=no_exc, include_start=True)
                    hit = [x for x in tn if x in seen]
                    if hit:
                        stale = (t, g.path_to(seen, hit[0]))
                        break
                if stale:
                    ctx.bad("C10.peritem", fn, enclosing_stmt(stale[0]), f"`{v}` tells whether the current element has the value, but it is not reset at the start of every iteration of the loop over `{norm(lp.iter, 50)}`: an element without it is treated like the previous element (result depends on the order in the file, no default / warning is applied)", path=describe_path(stale[1]))
                else:
                    ctx.ok("C10.peritem", fn, tests[0], f"`{v}` is assigned in every iteration before it is tested against None")
    if n_loops == 0:
        raise AnalysisError("C10.peritem: no per-item sentinel found in cobra.io (the SBML reader's flux bound parameters are expected)")


# ---------------------------------------------------------------------------- def-use sources
def _sources(ctx, fn: FuncInfo, e: ast.AST, depth: int = 8, seen: Optional[Set[int]] = None) -> Set[str]:
    """Names of the methods/functions whose results flow (through local assignments, receivers and arguments) into
    the expression."""
    out: Set[str] = set()
    seen = seen if seen is not None else set()
    if depth < 0 or id(e) in seen:
        return out
    seen.add(id(e))
    for n in ast.walk(e):
        if isinstance(n, ast.Call):
            out.add(n.func.attr if isinstance(n.func, ast.Attribute) else norm(n.func))
        elif isinstance(n, ast.Name) and isinstance(n.ctx, ast.Load):
            _, defs = ctx.inf.lookup_name(fn, n.id)
            for d in defs or []:
                if d.kind in ("assign", "annassign", "unpack", "with", "elem", "elem_unpack") and isinstance(d.value, ast.AST):
                    out |= _sources(ctx, fn, d.value, depth - 1, seen)
            # what is put into a local collection flows into it as well
            for c in walk_local(fn.node):
                if isinstance(c, ast.Call) and isinstance(c.func, ast.Attribute) and c.func.attr in ("append", "extend", "insert", "add", "update") and isinstance(c.func.value, ast.Name) and c.func.value.id == n.id:
                    for a in c.args:
                        out |= _sources(ctx, fn, a, depth - 1, seen)
    return out


def _attr_sources(ctx, fn: FuncInfo, e: ast.AST, depth: int = 6, seen: Optional[Set[int]] = None) -> Set[str]:
    """Names of the attributes whose values flow (through local assignments, flow-insensitively) into the expression."""
    out: Set[str] = set()
    seen = seen if seen is not None else set()
    if depth < 0 or id(e) in seen:
        return out
    seen.add(id(e))
    for n in ast.walk(e):
        if isinstance(n, ast.Attribute) and isinstance(n.ctx, ast.Load):
            out.add(n.attr)
        elif isinstance(n, ast.Name) and isinstance(n.ctx, ast.Load):
            _, defs = ctx.inf.lookup_name(fn, n.id)
            for d in defs or []:
                if d.kind in ("assign", "annassign", "unpack", "with", "elem", "elem_unpack") and isinstance(d.value, ast.AST):
                    out |= _attr_sources(ctx, fn, d.value, depth - 1, seen)
    return out


def check_names_written(ctx) -> None:
    """Sibling agreement of the `setName` calls of the writer: the name written for an object derives from that
    object's name only. A fallback to the (escaped) identifier makes an object without a name come back with the
    identifier as its name."""
    fn = ctx.prog.func(MOD, "_model_to_sbml")
    calls = [n for n in walk_local(fn.node) if isinstance(n, ast.Call) and isinstance(n.func, ast.Attribute) and n.func.attr == "setName" and n.args]
    if len(calls) < 3:
        ctx.note("C10.fields: fewer than three setName calls in the writer; names not read")
        return
    for c in calls:
        src = _attr_sources(ctx, fn, c.args[0])
        if src & {"id", "_id"} or any(s.startswith("F_") and s.endswith("_REV") for s in src):
            ctx.bad("C10.fields", fn, enclosing_stmt(c), f"the name written by `{norm(c, 50)}` can be the object's identifier (values of {sorted(src & {'id', '_id', 'name'})} flow into it): an object without a name comes back from SBML with its escaped identifier as its name")
        else:
            ctx.ok("C10.fields", fn, enclosing_stmt(c), "the name written derives from the object's name only")


ESCAPERS = {"xml.sax.saxutils.escape", "html.escape", "xml.sax.saxutils.quoteattr"}
UNESCAPERS = {"xml.sax.saxutils.unescape", "html.unescape"}


def _passes_through(ctx, fn: FuncInfo, e: ast.AST, wanted: Set[str], depth: int = 4) -> bool:
    """Does the value of e come out of a call to one of the wanted library functions (directly, or through the locals
    it is built from)?"""
    for n in ast.walk(e):
        if isinstance(n, ast.Call):
            sym = ctx.prog.resolve(fn.unit, norm(n.func))
            if isinstance(sym, str) and sym in wanted:
                return True
    if depth > 0:
        for n in ast.walk(e):
            if isinstance(n, ast.Name) and isinstance(n.ctx, ast.Load):
                _, defs = ctx.inf.lookup_name(fn, n.id)
                vals = [d.value for d in defs or [] if d.kind in ("assign", "annassign") and isinstance(d.value, ast.AST)]
                if vals and all(_passes_through(ctx, fn, v, wanted, depth - 1) for v in vals):
                    return True
    return False


def check_notes_escaping(ctx) -> None:
    """Notes are written as XHTML text built by string formatting and read back with a pattern over the XML string:
    text that is put between tags has to pass an XML escape on the way out and the matching unescape on the way in,
    or a note that contains `<` or `&` makes libsbml reject the notes element - and every note of that object is lost."""
    w = ctx.prog.func(MOD, "_sbase_notes_dict")
    r = ctx.prog.func(MOD, "_parse_notes_dict")
    sites = []
    for js in [n for n in walk_local(w.node) if isinstance(n, ast.JoinedStr)]:
        if not any(isinstance(p, ast.Constant) and isinstance(p.value, str) and "<" in p.value for p in js.values):
            continue
        for fv in js.values:
            if isinstance(fv, ast.FormattedValue):
                sites.append((js, fv))
    if not sites:
        ctx.note("C10.notes: the writer builds the notes element in a way that is not read (no formatted markup found)")
        return
    raw = [(js, fv) for js, fv in sites if not _passes_through(ctx, w, fv.value, ESCAPERS)]
    stores = [n for n in walk_local(r.node) if isinstance(n, ast.Assign) and isinstance(n.targets[0], ast.Subscript)]
    unesc_ok = bool(stores) and all(_passes_through(ctx, r, st.value, UNESCAPERS) and _passes_through(ctx, r, st.targets[0].slice, UNESCAPERS) for st in stores)
    if raw:
        js, fv = raw[0]
        ctx.bad("C10.notes", w, enclosing_stmt(js), f"`{norm(fv.value)}` is formatted into markup (`{norm(js, 50)}`) without an XML escape: a note whose text contains `<` or `&` makes the notes element ill-formed, libsbml refuses it and all notes of that object are lost on export")
    elif not stores:
        ctx.note("C10.notes: the reader stores notes in a way that is not read")
    elif not unesc_ok:
        ctx.bad("C10.notes", r, stores[0], "the writer escapes the text of a note, the reader stores it without the matching unescape: `a < b` comes back as `a &lt; b`")
    else:
        ctx.ok("C10.notes", w, enclosing_stmt(sites[0][0]), f"{len(sites)} formatted value(s) pass an XML escape on export and the matching unescape on import")


def check_active_objective(ctx) -> None:
    """The objective that is read is the document's *active* objective (fbc allows several)."""
    fn = ctx.prog.func(MOD, "_sbml_to_model")
    reads = [n for n in walk_local(fn.node) if isinstance(n, ast.Call) and isinstance(n.func, ast.Attribute) and n.func.attr in ("getListOfFluxObjectives", "getType") and "bj" in norm(n.func.value)]
    reads = [n for n in reads if n.func.attr == "getListOfFluxObjectives" or "direction" in norm(enclosing_stmt(n)).lower()]
    if not reads:
        ctx.note("C10.direction: the objective's flux objectives are not read in a recognised way; active objective not read")
        return
    for r in reads:
        src = _sources(ctx, fn, r.func.value)
        if "getActiveObjective" in src:
            ctx.ok("C10.direction", fn, r, f"{r.func.attr}() is read from the active objective")
        elif src & {"get", "getObjective", "getListOfObjectives", "item"}:
            ctx.bad("C10.direction", fn, enclosing_stmt(r), f"{r.func.attr}() is read from an objective that is not selected through getActiveObjective(): a document with several objectives is read with the wrong objective (coefficients and direction)")
        else:
            ctx.note(f"C10.direction: source of the objective read by {r.func.attr}() not recognised ({sorted(src)[:5]})")


def check_compartment_source(ctx) -> None:
    """Every compartment a species refers to is written: the writer ranges over the model's `compartments` property
    (derived from the metabolites), not over the registry of names `_compartments` (which holds only what was
    registered explicitly)."""
    fn = ctx.prog.func(MOD, "_model_to_sbml")
    creates = [n for n in walk_local(fn.node) if isinstance(n, ast.Call) and isinstance(n.func, ast.Attribute) and n.func.attr == "createCompartment"]
    if not creates:
        ctx.bad("C10.fields", fn, fn.node, "the writer creates no compartments")
        return
    for c in creates:
        lp = next((a for a in ancestors(c) if isinstance(a, ast.For)), None)
        if lp is None:
            ctx.note("C10.fields: createCompartment outside a loop; source of the compartments not read")
            continue
        attrs = {n.attr for n in ast.walk(lp.iter) if isinstance(n, ast.Attribute)}
        names = _sources(ctx, fn, lp.iter)
        for n in ast.walk(lp.iter):
            if isinstance(n, ast.Name):
                _, defs = ctx.inf.lookup_name(fn, n.id)
                for d in defs or []:
                    if isinstance(d.value, ast.AST):
                        attrs |= {x.attr for x in ast.walk(d.value) if isinstance(x, ast.Attribute)}
        if "compartments" in attrs or "metabolites" in attrs:
            ctx.ok("C10.fields", fn, lp, "compartments are written from the model's compartments (every compartment a metabolite is in)")
        elif "_compartments" in attrs:
            ctx.bad("C10.fields", fn, lp, "the compartments are written from the registry of compartment names (`_compartments`) only: a compartment that metabolites are in but that was never registered is not written, and the species refer to an undefined compartment (invalid document)")
        else:
            ctx.note("C10.fields: source of the written compartments not recognised")


def run(ctx) -> None:
    ctx.rule("C10.peritem", "T6: per-element sentinels of the readers are reset in every iteration", floor=2)
    ctx.rule("C10.kinds", "T7: every id crossing the SBML boundary passes the f_replace function of its own kind", floor=22)
    ctx.rule("C10.escape", "T7: escape/unescape functions, regexes and the replacement table agree", floor=9)
    ctx.rule("C10.inband", "T7: no raw identifier can spell the reader's escape token", floor=1)
    ctx.rule("C10.bounds", "T6: bounds read atomically from their own fbc parameters", floor=4)
    ctx.rule("C10.sign", "T5: reactant/product sign pairing, cumulative on import", floor=4)
    ctx.rule("C10.direction", "T7: direction tables inverse; direction applied after the objective", floor=4)
    ctx.rule("C10.fields", "T7: field coverage table (writer call, reader call)", floor=len(FIELDS))
    ctx.rule("C10.annot", "finite domain: annotation identifiers are merged as list elements", floor=1)
    ctx.rule("C08.siblings", "T5: GPR association reader polarity (shared with C08)", floor=12)
    ctx.rule("C02.owner", "T1: loaded genes/groups belong to the model (shared with C02)", floor=9)
    check_kinds_writer(ctx)
    check_kinds_reader(ctx)
    ctx.guard(check_replace_defaults, ctx)
    ctx.guard(check_numeric_getters, ctx)
    ctx.guard(check_import_time_config, ctx)
    check_escape(ctx)
    check_bounds(ctx)
    ctx.guard(check_peritem_sentinels, ctx)
    ctx.guard(check_create_bound, ctx)
    check_sign(ctx)
    check_direction(ctx)
    ctx.guard(check_active_objective, ctx)
    check_fields(ctx)
    ctx.guard(check_names_written, ctx)
    ctx.rule("C10.notes", "T7: text written between tags passes an XML escape, the reader applies the matching unescape", floor=1)
    ctx.guard(check_notes_escaping, ctx)
    ctx.guard(check_compartment_source, ctx)
    ctx.guard(check_integer_setters, ctx)
    ctx.rule("C10.reread", "T4: the functions that read a document from the file system / the parser are not memoised on the file name", floor=2)
    ctx.guard(check_readers_not_memoised, ctx, "C10.reread", ("cobra.io.sbml",))
    ctx.rule("C10.legacy", "T2 guard dominance: the legacy rule text of the notes is consulted only in the absence of the fbc plugin", floor=2, hard=0)
    ctx.guard(check_legacy_rule_source, ctx)
    ctx.guard(check_objective_written, ctx)
    ctx.guard(check_member_lookup, ctx)
    check_annot(ctx)
    # legacy rule texts (notes, fbc-less models) go through GPR.from_string: the text -> rule clause is evaluated here as
    # well (shared with C08) and decides what the reading of GPRCleaner.visit_BinOp only explains
    from . import gprform

    ctx.rule("C08.table", "text -> rule: GPR.from_string evaluated end to end (shared with C08)", floor=1)
    n0, d0 = len(ctx.findings), len(ctx.deferred)
    ctx.guard(gprform.check_from_string, ctx, "C08.table")
    c08.check_siblings(ctx, len(ctx.findings) > n0 or len(ctx.deferred) > d0)
    c02.check_owner(ctx)
