"""Findings, rule instances, known findings and evidence files."""
from __future__ import annotations

import ast
import json
import os
import time
from typing import Dict, List, Optional, Tuple

from . import AnalysisError
from .program import FuncInfo, Program, enclosing_stmt, norm

VERIF_ROOT = os.path.dirname(os.path.dirname(os.path.abspath(__file__)))
KNOWN_FILE = os.path.join(VERIF_ROOT, "known_findings.json")
EVIDENCE_DIR = os.path.join(VERIF_ROOT, "evidence")


class Finding:
    def __init__(self, prop: str, rule: str, func: str, construct: str, file: str, line: int, message: str, path: str = ""):
        self.prop = prop
        self.rule = rule
        self.func = func
        self.construct = construct
        self.file = file
        self.line = line
        self.message = message
        self.path = path

    @property
    def key(self) -> Tuple[str, str, str]:
        return (self.rule, self.func, self.construct)

    def to_json(self) -> dict:
        return {
            "property": self.prop,
            "rule": self.rule,
            "function": self.func,
            "construct": self.construct,
            "file": self.file,
            "line": self.line,
            "message": self.message,
            "path": self.path,
        }

    def text(self) -> str:
        p = f" path: {self.path}" if self.path else ""
        return f"{self.file}:{self.line}: [{self.rule}] {self.func}: {self.construct} -- {self.message}{p}"


class Ctx:
    """Everything a rule needs, plus the record of what was examined."""

    def __init__(self, prog: Program, prop: str):
        from .effects import Effects
        from .flow import Flow
        from .infer import Infer

        self.prog = prog
        self.prop = prop
        self.inf = Infer(prog)
        self.flow = Flow(prog, self.inf)
        self.eff = Effects(prog, self.inf, self.flow)
        self.instances: List[dict] = []
        self.findings: List[Finding] = []
        self.rule_text: Dict[str, str] = {}
        self.floors: Dict[str, int] = {}
        self.hard_floors: Dict[str, int] = {}
        self.notes: List[str] = []
        self.deferred: List[str] = []

    # -------------------------------------------------------------- recording
    def rule(self, rule: str, text: str, floor: int = 0, hard: Optional[int] = None) -> None:
        """Declare a rule. ``floor`` is the instance count confirmed by hand on the pinned tree (reported, and noted when
        undershot); ``hard`` is the count below which the run fails as vacuous: by default 1 (the rule saw the code
        at all), the full floor for rules that consist of evaluated clauses only (their instance count does not depend
        on how the code is spelled), 0 for structural readings that only explain an evaluated clause."""
        self.rule_text[rule] = text
        if floor:
            self.floors[rule] = floor
        if hard is None:
            hard = floor if rule in EVALUATED_RULES else (1 if floor else 0)
        self.hard_floors[rule] = hard

    def _where(self, fn: Optional[FuncInfo], node) -> Tuple[str, str, int, str]:
        func = fn.qualname.replace("cobra.", "", 1) if fn is not None else "<module>"
        file = fn.unit.rel if fn is not None else ""
        line = getattr(node, "lineno", fn.node.lineno if fn is not None and node is None else 0) if not isinstance(node, str) else (fn.node.lineno if fn else 0)
        if isinstance(node, str):
            construct = norm(node)
        elif node is None:
            construct = ""
        else:
            construct = norm(node)
        return func, file, line, construct

    def ok(self, rule: str, fn: Optional[FuncInfo], node, detail: str = "", nontrivial: bool = True) -> None:
        func, file, line, construct = self._where(fn, node)
        self.instances.append(
            {"rule": rule, "function": func, "construct": construct, "where": f"{file}:{line}", "verdict": "holds", "detail": detail, "nontrivial": nontrivial}
        )

    def bad(self, rule: str, fn: Optional[FuncInfo], node, message: str, path: str = "", file: str = "") -> None:
        func, f2, line, construct = self._where(fn, node)
        file = file or f2
        self.instances.append(
            {"rule": rule, "function": func, "construct": construct, "where": f"{file}:{line}", "verdict": "VIOLATED", "detail": message, "nontrivial": True}
        )
        fd = Finding(self.prop, rule, func, construct, file, line, message, path)
        if fd.key not in {x.key for x in self.findings}:
            self.findings.append(fd)

    def note(self, text: str) -> None:
        self.notes.append(text)

    def guard(self, check, *args, **kw) -> None:
        """Run one clause; an analysis error in it is deferred so that the other clauses still report."""
        from . import AnalysisError, SkipClause

        try:
            check(*args, **kw)
        except SkipClause as exc:
            self.note(f"structural clause skipped (familiar spelling not found; decided by the evaluated clause named): {exc}")
        except AnalysisError as exc:
            self.defer(str(exc))

    def explain(self, decided_failed: bool, check, *args, **kw) -> None:
        """Run a structural clause that only *explains* what an evaluated clause of the same property decides.

        Its reports are issued when the deciding clause failed as well (``decided_failed``); otherwise they become
        notes: a reading of the code's shape that the evaluation of the same code does not confirm is a spelling the
        reading does not know, not a violation.  Analysis errors of the reading are treated the same way."""
        from . import AnalysisError

        held = []
        self.bad = lambda *a, **k: held.append((a, k))  # type: ignore[method-assign]
        try:
            check(*args, **kw)
        except (AnalysisError, IndexError, KeyError, AttributeError, TypeError) as exc:
            if decided_failed:
                self.note(f"structural reading failed: {exc}"[:300])
        finally:
            del self.bad
        for a, k in held:
            if decided_failed:
                self.bad(*a, **k)
            else:
                self.note(f"structural reading not confirmed by the evaluated clause (no report): {a[0]}: {a[3] if len(a) > 3 else a}"[:300])

    def defer(self, text: str) -> None:
        """A clause that could not be analysed: fails the run as ANALYSIS-ERROR once the other rules have reported."""
        self.deferred.append(text)

    def count(self, rule: str) -> int:
        return sum(1 for i in self.instances if i["rule"] == rule)

    def check_floors(self) -> None:
        if os.environ.get("COBRALINT_NOFLOOR"):
            return
        for rule, floor in self.floors.items():
            n = self.count(rule)
            if any(i["rule"] == rule and i["verdict"] != "holds" for i in self.instances):
                continue  # the rule saw the code and reported: a verdict exists, it is not vacuous
            hard = self.hard_floors.get(rule, 1)
            if n < hard:
                raise AnalysisError(
                    f"rule {rule} examined {n} instance(s), fewer than the {hard} it needs to be meaningful: "
                    f"the rule no longer sees the code it was written for (vacuous pass refused)"
                )
            if n < floor:
                # fewer instances than on the pinned tree: the code is spelled differently (a structural rule skips what
                # it does not recognise and leaves it to the evaluated clause of its property) - reported, not fatal
                self.note(f"rule {rule} examined {n} instance(s), {floor} on the pinned tree: the code it reads is spelled differently; the clauses that were skipped are listed above")


# rules that consist of evaluated clauses only: the number of instances is a property of the checker, not of the spelling
EVALUATED_RULES = {
    "C02.equation", "C05.formulation", "C06.formulation", "C07.eval", "C07.guard", "C09.pfba", "C09.moma", "C09.room", "C09.abs", "C10.annot", "C11.roundtrip",
    "C15.model", "C16.validate", "C17.formulation", "C18.formulation", "C19.blocked", "C19.fastcc", "C08.remover",
}


def load_known() -> List[dict]:
    if not os.path.exists(KNOWN_FILE):
        return []
    with open(KNOWN_FILE, encoding="utf-8") as fh:
        data = json.load(fh)
    return data.get("findings", [])


def split_findings(prop: str, findings: List[Finding]) -> Tuple[List[Tuple[Finding, dict]], List[Finding]]:
    """(known findings present, new violations)."""
    known = [k for k in load_known() if k.get("property") == prop and k.get("status") == "known"]
    seen_known: List[Tuple[Finding, dict]] = []
    fresh: List[Finding] = []
    for f in findings:
        hit = None
        for k in known:
            if k["rule"] == f.rule and k["function"] == f.func and k["construct"] == f.construct:
                hit = k
                break
        if hit is not None:
            seen_known.append((f, hit))
        else:
            fresh.append(f)
    return seen_known, fresh


def write_evidence(
    prop: str,
    tier: str,
    seed: int,
    ctx: Optional[Ctx],
    explanation: str,
    assumptions: List[str],
    wall: float,
    violations: int,
    known: int,
    extra: Optional[dict] = None,
    error: str = "",
) -> str:
    os.makedirs(EVIDENCE_DIR, exist_ok=True)
    path = os.path.join(EVIDENCE_DIR, f"{prop}.json")
    coverage: dict = {"explanation": explanation}
    if ctx is not None:
        inst = ctx.instances
        distinct = {(i["rule"], i["function"], i["construct"]) for i in inst if i.get("nontrivial", True)}
        per_rule: Dict[str, dict] = {}
        for i in inst:
            r = per_rule.setdefault(i["rule"], {"examined": 0, "violated": 0})
            r["examined"] += 1
            if i["verdict"] != "holds":
                r["violated"] += 1
        for r, fl in ctx.floors.items():
            per_rule.setdefault(r, {"examined": 0, "violated": 0})["floor"] = fl
        for r, text in ctx.rule_text.items():
            per_rule.setdefault(r, {"examined": 0, "violated": 0})["rule"] = text
        samples = []
        seen_rules = set()
        for i in inst:
            if i["rule"] not in seen_rules or i["verdict"] != "holds":
                seen_rules.add(i["rule"])
                samples.append({k: i[k] for k in ("rule", "function", "construct", "where", "verdict", "detail")})
        for i in inst:
            if len(samples) >= 40:
                break
            s = {k: i[k] for k in ("rule", "function", "construct", "where", "verdict", "detail")}
            if s not in samples:
                samples.append(s)
        coverage.update(
            {
                "evaluations": len(inst),
                "distinct_nontrivial": len(distinct),
                "rule": "one evaluation = one rule instance (rule, function, construct) examined on the current "
                "tree; distinct_nontrivial counts distinct instances that carry an obligation "
                "(path / pairing / table check), i.e. excluding bookkeeping entries marked trivial",
                "samples": samples,
                "exhaustive": True,
                "per_rule": per_rule,
                "units_parsed": len(ctx.prog.units),
                "functions": len(ctx.prog.funcs),
                "tree_digest": ctx.prog.digest(),
                "src_root": ctx.prog.src_root,
                "unresolved_mutations": len(ctx.eff.unresolved),
                "notes": ctx.notes,
                "known_findings_present": known,
            }
        )
    else:
        coverage.update({"evaluations": 0, "distinct_nontrivial": 0, "samples": []})
    if error:
        coverage["analysis_error"] = error
    if extra:
        coverage.update(extra)
    doc = {
        "property_id": prop,
        "tier": tier,
        "seed": seed,
        "level": "other",
        "coverage": coverage,
        "assumptions": assumptions,
        "wall_s": round(wall, 3),
        "violations": violations,
    }
    tmp = path + ".tmp"
    with open(tmp, "w", encoding="utf-8") as fh:
        json.dump(doc, fh, indent=1, sort_keys=False, default=str)
    os.replace(tmp, path)
    return path
