#!/bin/sh
# Maintenance helper: replay one patch (unified diff against /repo) on an in-memory overlay with every rule set.
# Prints, per property, the findings the patch adds (NEW ...) or an analysis error. Nothing is written to /repo.
cd /verif
PYTHONHASHSEED=0; export PYTHONHASHSEED
P="$1"
for id in C01 C02 C03 C04 C05 C06 C07 C08 C09 C10 C11 C12 C13 C14 C15 C16 C17 C18 C19 C20; do echo $id; done | xargs -P 16 -I{} sh -c "/venv/bin/python -B -m cobralint.selftest --prop {} --patch '$P' 2>&1 | grep '^NEW\|rror' | cut -c1-260 | sed 's/^/[{}] /'"
