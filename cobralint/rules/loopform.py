"""Formulation-level check of loopless_solution / _add_cycle_free (C17)."""
from __future__ import annotations

from typing import Any, Dict, List, Optional, Tuple

from .. import AnalysisError
from ..absint import EvalRaise, Unknown
from ..framemodel import Ser, Index
from ..framemodel import Unsupported as FUnsupported
from ..interp import Interp
from ..lpmodel import Cons, Container, Formulation, Lin, ModelLP, Obj, Problem, ReactionList, RxnLP, SolutionLP, SolverStub, Unsupported, Var
from .fvaform import _canon, effective

NATIVE = (Lin, Var, Cons, Obj, Problem, Container, SolverStub, RxnLP, ReactionList, SolutionLP, ModelLP, Formulation, Ser, Index)
FOLLOW = ["cobra.flux_analysis.loopless.loopless_solution", "cobra.flux_analysis.loopless._add_cycle_free"]
OPT = 7.25
# id: (bounds, boundary?, start flux, flux after cycle removal)
ROWS = {
    "EX_in": ((-10.0, 0.0), True, -3.0, -3.0),
    "EX_out": ((0.0, 10.0), True, 3.0, 3.0),
    "I_pos": ((-10.0, 10.0), False, 4.0, 1.5),
    "I_neg": ((-10.0, 10.0), False, -2.5, -0.5),
    "I_zero": ((-10.0, 10.0), False, 0.0, 0.0),
    "I_cap": ((1.0, 3.0), False, 2.0, 1.0),
    "I_back": ((-6.0, -0.5), False, -4.0, -0.5),
    "I_over": ((-10.0, 2.0), False, 2.0, 2.0),
}
OBJECTIVE = {"I_pos": 1.0, "EX_out": 0.5}


def _model(direction: str) -> ModelLP:
    rxns = []
    for rid, (b, boundary, _, _) in ROWS.items():
        r = RxnLP(rid, *b)
        r.boundary = boundary
        rxns.append(r)
    m = ModelLP(rxns, OBJECTIVE, direction)
    m.original_bounds = {r.id: (r.lower_bound, r.upper_bound) for r in rxns}
    m.script = _Oracle()
    return m


class _Oracle:
    def __init__(self):
        self.log: List[Tuple[str, Formulation]] = []

    def __call__(self, model: ModelLP, f: Formulation):
        if f.objective_name == "original_objective":
            self.log.append(("objective", f))
            return OPT, {rid: fl for rid, (_, _, fl, _) in ROWS.items()}, "optimal"
        self.log.append(("secondary", f))
        fluxes = {rid: after for rid, (_, _, _, after) in ROWS.items()}
        return sum(abs(v) for rid, v in fluxes.items() if not ROWS[rid][1]), fluxes, "optimal"


def _run(what: str, thunk):
    try:
        return thunk()
    except Unknown as exc:
        raise AnalysisError(f"C17: {what} cannot be evaluated: {exc}")
    except (Unsupported, FUnsupported) as exc:
        raise AnalysisError(f"C17: {what} is outside the LP model: {exc}")


def check_loopless_solution(ctx, rule: str) -> None:
    prog = ctx.prog
    fn = prog.func("cobra.flux_analysis.loopless", "loopless_solution")
    acf = prog.func("cobra.flux_analysis.loopless", "_add_cycle_free")
    problems: Dict[str, str] = {}
    n = 0
    for direction in ("max", "min"):
        for given in ("none", "dict", "series", "dict in another order", "series in another order"):
            model = _model(direction)
            oracle: _Oracle = model.script
            from .. import ndmodel

            # helpers the function was factored into belong to it; numpy is modelled as far as handling a vector goes
            np_stubs = {k: (lambda f_: (lambda it_, ev, c, a, kw: f_(*a, **kw)))(f) for k, f in ndmodel.NUMPY.items()}
            helpers = [f.qualname for f in prog.all_funcs() if f.qualname.startswith("cobra.flux_analysis.loopless._") and f.parent is None]
            it = Interp(prog, NATIVE + (ndmodel.NA, ndmodel.NScalar), FOLLOW + [h for h in helpers if h not in FOLLOW], np_stubs, globals_={"Zero": Lin()})
            start = {rid: fl for rid, (_, _, fl, _) in ROWS.items()}
            kwargs: Dict[str, Any] = {}
            if given == "dict":
                kwargs["fluxes"] = dict(start)
            elif given == "series":
                kwargs["fluxes"] = Ser(list(start.values()), list(start))
            elif given == "dict in another order":
                kwargs["fluxes"] = dict(sorted(start.items(), key=lambda kv: kv[1]))
            elif given == "series in another order":
                kwargs["fluxes"] = Ser(sorted(start.values()), sorted(start, key=lambda k: start[k]))
            # model.optimize hands out the fluxes as a series
            orig_opt = model.optimize

            def optimize(objective_sense=None, raise_error=False, _m=model, _o=orig_opt):
                sol = _o(objective_sense, raise_error)
                ids = [r.id for r in _m.reactions]
                sol.fluxes = Ser([sol.fluxes.get(i, 0.0) for i in ids], ids)
                return sol

            model.optimize = optimize  # type: ignore[method-assign]
            what = f"loopless_solution({direction} problem, fluxes={given}) on a model that was optimised earlier under other conditions"
            try:
                sol = _run(what, lambda: it.call(fn, [model], kwargs))
            except EvalRaise as exc:
                problems.setdefault("raise", f"{what} raises {exc.exc_type}")
                continue
            n += 1
            sec = [f for k, f in oracle.log if k == "secondary"]
            if not isinstance(sol, SolutionLP) or not sec or sol.formulation is not sec[-1] or len(sec) != 1:
                problems.setdefault("solution", f"{what}: the result is not the solution of one cycle-removal problem")
                continue
            f = sec[-1]
            # the optimum that is held
            first = [ff for k, ff in oracle.log if k == "objective"]
            if len(first) != 1 or effective(model, first[0]) or first[0].direction != direction:
                problems.setdefault("optimum", f"{what}: the objective is not re-optimised on the untouched model in this call ({len(first)} such solves)")
            orig = {}
            for rid, k in OBJECTIVE.items():
                r = model.reactions.get_by_id(rid)
                orig[r.forward_variable.name] = k
                orig[r.reverse_variable.name] = -k
            hold = _canon(orig, OPT, None) if direction == "max" else _canon(orig, None, OPT)
            cons = [c for c in effective(model, f) if c[0][0][0] != "<bounds>"]
            # a huge finite placeholder on the open side is accepted
            cons_n = [(k, (None if (lb is not None and lb <= -1e30) else lb), (None if (ub is not None and ub >= 1e30) else ub)) for k, lb, ub in cons]
            if cons_n != [hold]:
                shown = "; ".join(f"{lb} <= {dict(k)} <= {ub}" for k, lb, ub in cons) or "nothing"
                problems.setdefault("pin", f"{what}: the objective is not held at its optimum {OPT} of this call on the {'lower' if direction == 'max' else 'upper'} side (in force: {shown}): the loopless solution may lose the objective value of the solution it started from")
            # bounds and secondary objective
            want_obj = {}
            for rid, ((lb, ub), boundary, fl, _) in ROWS.items():
                r = model.reactions.get_by_id(rid)
                got = f.bounds[rid]
                if boundary:
                    want = (fl, fl)
                elif fl >= 0:
                    want = (max(0.0, lb), min(fl, ub))
                else:
                    want = (max(fl, lb), min(0.0, ub))
                if fl > 0 or (fl == 0 and not boundary):
                    pass
                if tuple(got) != tuple(want):
                    problems.setdefault("bounds", f"{what}: {'boundary' if boundary else 'internal'} reaction {rid} (bounds {lb:g}..{ub:g}, start flux {fl:g}) is solved with bounds {got}, expected {want}: " + ("its flux may change" if boundary else "it may reverse direction or grow in magnitude"))
                if not boundary:
                    if fl > 0 or (fl == 0 and want[1] >= 0 and want[0] >= 0):
                        want_obj[r.forward_variable.name] = 1.0
                    if fl < 0:
                        want_obj[r.reverse_variable.name] = 1.0
            got_obj = {v.name: round(c, 9) for v, c in f.objective_terms.items() if c != 0}
            # a variable that the bounds pin to zero contributes nothing either way
            def free(name):
                for r in model.reactions:
                    lb, ub = f.bounds[r.id]
                    if name == r.forward_variable.name:
                        return ub > 0
                    if name == r.reverse_variable.name:
                        return lb < 0
                return True
            g2 = {k: v for k, v in got_obj.items() if free(k)}
            w2 = {k: v for k, v in want_obj.items() if free(k)}
            if g2 != w2 or f.direction != "min":
                problems.setdefault("objective", f"{what}: the cycle-removal objective is {f.direction} {Lin(f.objective_terms)}; expected the minimised sum of |flux| over the internal reactions (forward variable for non-negative, reverse variable for negative start fluxes)")
            # reported objective value = the original objective at the returned fluxes
            after = {rid: a for rid, (_, _, _, a) in ROWS.items()}
            true_val = sum(k * after[rid] for rid, k in OBJECTIVE.items())
            if sol.objective_value is None or abs(sol.objective_value - true_val) > 1e-9:
                problems.setdefault("value", f"{what}: the reported objective value is {sol.objective_value!r}; the original objective at the returned fluxes is {true_val:g}")
            if model._stack or any((r.lower_bound, r.upper_bound) != model.original_bounds[r.id] for r in model.reactions) or model.solver.objective.name != "original_objective" or model.solver.constraints.items:
                problems.setdefault("restore", f"{what}: the model is left modified")
    for clause, target, text in (("optimum", fn, "the objective is re-optimised on the untouched model in this call"), ("pin", fn, "the objective is held at that optimum on the right side, nothing else restricts the fluxes"),
                                 ("bounds", acf, "boundary fluxes fixed; internal reactions confined between zero and their start flux within the original bounds"),
                                 ("objective", acf, "minimise the sum of |flux| over the internal reactions"), ("value", fn, "the reported objective value is the original objective at the returned fluxes"),
                                 ("solution", fn, "the result is the solution of the one cycle-removal problem"), ("restore", fn, "the model is restored"), ("raise", fn, "no scenario raises")):
        if clause in problems:
            ctx.bad(rule, target, f"loopless_solution {clause}", problems[clause])
        else:
            ctx.ok(rule, target, f"loopless_solution {clause}", f"{n} scenarios x {len(ROWS)} reaction classes: {text}")


# ---------------------------------------------------------------------------------------- add_loopless
class _Mat:
    def __getitem__(self, key):
        return self


class _NS:
    def __init__(self, rows):
        self.T = [list(r) for r in rows]


# the largest magnitude among the bounds is the *lower* bound of an internal reaction that is written backwards
AL_RXNS = [("EX_1", (-30.0, 20.0), True), ("I_1", (-10.0, 10.0), False), ("I_2", (0.0, 5.0), False), ("I_3", (-70.0, 0.0), False), ("EX_2", (0.0, 40.0), True), ("I_4", (-3.0, 25.0), False)]
AL_ROWS = [[1.0, -1.0, 0.0, 2.5], [0.0, 1e-12, 3.0, -1.0], [-0.5, 0.0, 0.0, 0.0]]
AL_ROWS_EDITED = [[1.0, 1.0, 0.0, -2.5], [0.0, 2.0, 3.0, 0.0]]   # the same reactions after an edit of one stoichiometry


class _AMet:
    def __init__(self, mid):
        self.id = mid


def check_add_loopless(ctx, rule: str) -> None:
    """add_loopless evaluated over the LP model with a given null-space basis: indicator, on/off and delta_g range
    constraints for every internal reaction (none for boundary reactions), big-M over all bounds, one null-space row per
    basis vector over the delta_g of the right reactions, entries below the cut-off dropped."""
    prog = ctx.prog
    fn = prog.func("cobra.flux_analysis.loopless", "add_loopless")
    rxns = []
    for rid, b, boundary in AL_RXNS:
        r = RxnLP(rid, *b)
        r.boundary = boundary
        rxns.append(r)
    model = ModelLP(rxns, {"I_1": 1.0})
    model.tolerance = 1e-9
    # the stoichiometry is represented by the basis of its null space: `state["rows"]` is what the network has *now*
    state = {"rows": AL_ROWS}
    model.metabolites = [_AMet("m1"), _AMet("m2"), _AMet("m3")]
    stubs = {
        "cobra.util.array.create_stoichiometric_matrix": lambda it, ev, c, a, k: _Mat(),
        "cobra.util.array.nullspace": lambda it, ev, c, a, k: _NS(state["rows"]),
        "cobra.util.create_stoichiometric_matrix": lambda it, ev, c, a, k: _Mat(),
        "cobra.util.nullspace": lambda it, ev, c, a, k: _NS(state["rows"]),
    }
    cons0, vars0 = list(model.solver.constraints.items), list(model.solver.variables.items)
    from ..interp import EXTERNAL

    EXTERNAL.setdefault("numpy.array", lambda x, **k: list(x))
    it = Interp(prog, NATIVE + (_Mat, _NS, _AMet), ["cobra.flux_analysis.helpers.normalize_cutoff", "cobra.flux_analysis.loopless.add_loopless"], stubs, globals_={"Zero": Lin()})
    try:
        _run("add_loopless", lambda: it.call(fn, [model], {}))
    except EvalRaise as exc:
        ctx.bad(rule, fn, "add_loopless formulation", f"add_loopless raises {exc.exc_type}")
        return
    cons = {c.name: c for c in model.solver.constraints.items}
    vars_ = {v.name: v for v in model.solver.variables.items}
    # any M that covers the bounds of the internal reactions does; the same M has to be used throughout
    need_m = max(max(abs(x) for x in b) for _, b, boundary in AL_RXNS if not boundary)
    big_m = None
    problems = []
    internal = [rid for rid, _, boundary in AL_RXNS if not boundary]
    ind_of, dg_of = {}, {}
    for rid, b, boundary in AL_RXNS:
        r = model.reactions.get_by_id(rid)
        fwd, rev = r.forward_variable.name, r.reverse_variable.name
        mine = [c for c in cons.values() if fwd in {v.name for v in c.expression.terms}]
        if boundary:
            if mine:
                problems.append(f"the boundary reaction {rid} gets a loop constraint ({mine[0].name})")
            continue
        # on/off:  v - M a in [-M, 0]  (any positive scaling)
        ok_onoff = None
        for c in mine:
            t = {v.name: k for v, k in c.expression.terms.items()}
            others = [n for n in t if n not in (fwd, rev)]
            if t.get(fwd) and t.get(rev) == -t[fwd] and len(others) == 1:
                k = t[fwd]
                a = others[0]
                lo, hi = (c.lb, c.ub) if k > 0 else (None if c.ub is None else -c.ub, None if c.lb is None else -c.lb)
                m_here = -t[a] / k
                if lo is not None and hi is not None and m_here > 0 and abs(lo / abs(k) + m_here) < 1e-9 and abs(hi) < 1e-9 and vars_.get(a) is not None and vars_[a].type == "binary" and (big_m is None or abs(m_here - big_m) < 1e-9):
                    ok_onoff = a
                    big_m = m_here
        if ok_onoff is None:
            problems.append(f"internal reaction {rid}: no constraint -M(1-a) <= v <= M a with a binary indicator (and the M used for the other reactions)")
            continue
        if big_m < need_m - 1e-9:
            problems.append(f"the big-M of the on/off constraints is {big_m:g}, but an internal reaction has a bound of magnitude {need_m:g} (I_3 runs backwards down to -70): its flux is clamped to [-M, M], so feasible cycle-free fluxes are cut off")
            break
        ind_of[rid] = ok_onoff
        # delta_g range: G + (M+1) a in [1, M]
        found = None
        for c in cons.values():
            t = {v.name: k for v, k in c.expression.terms.items()}
            if ok_onoff in t and len(t) == 2 and fwd not in t:
                g = [n for n in t if n != ok_onoff][0]
                k = t[g]
                if k > 0 and abs(t[ok_onoff] / k - (big_m + 1)) < 1e-9 and c.lb is not None and c.ub is not None and abs(c.lb / k - 1) < 1e-9 and abs(c.ub / k - big_m) < 1e-9:
                    gv = vars_.get(g)
                    if gv is not None and gv.lb is None and gv.ub is None and gv.type == "continuous":
                        found = g
        if found is None:
            problems.append(f"internal reaction {rid}: no constraint 1 <= G + (M+1) a <= M on a free driving-force variable G (G must be at least 1 when the reaction is off/backward and at most -1 when it runs forward)")
            continue
        dg_of[rid] = found
    if not problems:
        rows_found = []
        for c in cons.values():
            t = {v.name: round(k, 12) for v, k in c.expression.terms.items()}
            if t and set(t) <= set(dg_of.values()) and (c.lb, c.ub) == (0, 0):
                rows_found.append(t)
        want_rows = []
        for row in AL_ROWS:
            want_rows.append({dg_of[rid]: round(w, 12) for rid, w in zip(internal, row) if abs(w) > 1e-9})
        key = lambda d: sorted(d.items())
        if sorted(map(key, rows_found)) != sorted(map(key, [w for w in want_rows if w])):
            problems.append(f"the null-space constraints are {rows_found}; expected one row per basis vector over the driving forces of the internal reactions in their own order, entries below the cut-off dropped: {want_rows}")
    if model.solver.objective.name != "original_objective":
        problems.append("add_loopless replaces the objective")
    if not problems:
        # the same model object again after its stoichiometry was edited (identifiers unchanged): the null-space
        # constraints must be those of the network as it is now
        model.solver.constraints.items[:] = cons0
        model.solver.variables.items[:] = vars0
        state["rows"] = AL_ROWS_EDITED
        try:
            _run("add_loopless (second call on the same model after an edit of the stoichiometry)", lambda: it.call(fn, [model], {}))
        except EvalRaise as exc:
            problems.append(f"a second add_loopless on the same model raises {exc.exc_type}")
        else:
            rows2 = []
            dg_names = {f"delta_g_{rid}" for rid in internal}
            for c in model.solver.constraints.items:
                t = {v.name: round(k, 12) for v, k in c.expression.terms.items()}
                if t and set(t) <= dg_names and (c.lb, c.ub) == (0, 0):
                    rows2.append(t)
            want2 = [{f"delta_g_{rid}": round(w, 12) for rid, w in zip(internal, row) if abs(w) > 1e-9} for row in AL_ROWS_EDITED]
            key2 = lambda d: sorted(d.items())
            if sorted(map(key2, rows2)) != sorted(map(key2, [w for w in want2 if w])):
                problems.append(f"after the stoichiometry of an internal reaction was edited (identifiers unchanged), a second add_loopless on the same model builds the null-space constraints {rows2}; the network now has {want2}: cycles of the edited network are not forbidden")
    if problems:
        ctx.bad(rule, fn, "add_loopless formulation", "; ".join(problems[:2]))
    else:
        ctx.ok(rule, fn, "add_loopless formulation", f"{len(internal)} internal and {len(AL_RXNS) - len(internal)} boundary reactions, {len(AL_ROWS)} basis vectors: indicator / on-off / driving-force range per internal reaction with one M that covers every bound of the internal reactions, null-space rows over the right driving forces")


# ------------------------------------------------------------------------------------ loopless_fva_iter
def check_fva_iter(ctx, rule: str) -> None:
    """loopless_fva_iter evaluated over the LP model with an oracle: for a reaction that is no boundary reaction the
    plain optimum of the step may only be returned after a cycle-free problem (the CycleFreeFlux constraints of
    _add_cycle_free around the current solution) has been solved and has kept it; the shortcut without any solve is for
    boundary reactions only - whatever the bounds of the reaction and the direction of the step. The model is left as
    it was (bounds, objective, direction)."""
    prog = ctx.prog
    fn = prog.func("cobra.flux_analysis.loopless", "loopless_fva_iter")
    from ..framemodel import Ser as _Ser

    def get_solution(it_, ev, c, args, kwargs):
        model = args[0] if args else kwargs["model"]
        ids = [r.id for r in model.reactions]
        f = model.solves[-1][0] if model.solves else Formulation(model)
        return SolutionLP(f, ids, model.solver.objective.value, _Ser([(model.last_fluxes or {}).get(i, 0.0) for i in ids], ids))

    problems: List[str] = []
    n = 0
    classes = [("I_pos", False), ("I_back", False), ("I_cap", False), ("I_over", False), ("EX_in", True), ("EX_out", True)]
    for direction in ("max", "min"):
        for rid, boundary in classes:
            for keeps in (True, False):
                model = _model("max")
                r = model.reactions.get_by_id(rid)
                # the FVA step that precedes the call: the flux of this reaction was optimised in `direction`
                lb_, ub_ = ROWS[rid][0]
                current = (min(ub_, 4.0) if direction == "max" else max(lb_, -4.0)) if not boundary else ROWS[rid][2]
                step_fluxes = {k: fl for k, (_, _, fl, _) in ROWS.items()}
                step_fluxes[rid] = current
                model.solver.objective = Obj(Lin.of(r.forward_variable) - Lin.of(r.reverse_variable), direction=direction, name="fva_step")
                model.solver.objective.value = current
                model.solver.status = "optimal"
                model.last_fluxes = dict(step_fluxes)
                log: List[Formulation] = []

                def script(m, f, _log=log, _rid=rid, _cur=current, _keeps=keeps, _sf=step_fluxes):
                    _log.append(f)
                    fl = dict(_sf)
                    # the cycle-free problem either keeps the optimum of the step or shows that it rested on a cycle
                    fl[_rid] = _cur if (_keeps or len(_log) > 1) else 0.5 * _cur
                    return fl[_rid], fl, "optimal"

                model.script = script
                it = Interp(prog, NATIVE, ["cobra.flux_analysis.loopless.loopless_fva_iter", "cobra.flux_analysis.loopless._add_cycle_free", "cobra.flux_analysis.helpers.normalize_cutoff"],
                            {"cobra.core.solution.get_solution": get_solution, "cobra.core.get_solution": get_solution}, globals_={"Zero": Lin()})
                model.tolerance = 1e-9
                what = f"loopless_fva_iter({direction}imising {rid}, bounds {ROWS[rid][0]}, {'boundary' if boundary else 'internal'} reaction; the cycle-free problem {'keeps' if keeps else 'does not keep'} the optimum)"
                try:
                    out = _run(what, lambda: it.call(fn, [model, r], {}))
                except EvalRaise as exc:
                    problems.append(f"{what} raises {exc.exc_type}")
                    continue
                n += 1
                if boundary:
                    if out != current:
                        problems.append(f"{what} returns {out!r} instead of the optimum of the step {current!r} (boundary reactions are not part of internal cycles)")
                    continue
                cyclefree = [f for f in log if f.objective_name != "fva_step" or [c_ for c_ in effective(model, f) if c_[0][0][0] == "<bounds>"]]
                if not log:
                    problems.append(f"{what} returns {out!r} without solving a cycle-free problem: the plain optimum of an internal reaction may rest on a thermodynamically infeasible cycle (the shortcut is for boundary reactions only, whatever the bounds and the direction)")
                    continue
                if keeps and out != current:
                    problems.append(f"{what} returns {out!r} although the cycle-free problem kept the optimum {current!r}")
                if model._stack or any((x.lower_bound, x.upper_bound) != model.original_bounds[x.id] for x in model.reactions):
                    problems.append(f"{what}: the model is left modified (bounds or an open context)")
                elif model.solver.objective.name != "fva_step" or model.solver.objective.direction != direction:
                    problems.append(f"{what}: the objective of the FVA step is not restored (objective {model.solver.objective.name}, direction {model.solver.objective.direction})")
    if problems:
        ctx.bad(rule, fn, fn.node, problems[0] + (f" (+{len(problems) - 1} more)" if len(problems) > 1 else ""))
    else:
        ctx.ok(rule, fn, "loopless step", f"{n} scenarios (internal / boundary, forward / backward / forced reactions, both directions): the optimum of an internal reaction is returned only after a cycle-free problem kept it; the model is left as it was (evaluated)")
