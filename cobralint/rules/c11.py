"""C11 - JSON / YAML / dict / pickle round trips return the same model (tables and sites)."""
from __future__ import annotations

import ast
from typing import Dict, List, Optional, Set

from .. import AnalysisError, SkipClause
from ..absint import EvalRaise, EvalReturn, Evaluator, Opaque, Unknown
from ..program import FuncInfo, ancestors, enclosing_stmt, norm, walk_local
from . import c02, c12

EXPLANATION = (
    "Decided from tables and sites: (keys) for each class the key tables are literal, every optional key has a "
    "default, the written keys cover the attributes the property lists, and the reader either sets a key "
    "generically or handles it explicitly (skipped keys are handled elsewhere); objective direction has no key - "
    "known finding K6; (bounds) a reaction read from a dict gets both bounds in one assignment, and a stored "
    "bound of 0 stays 0 (evaluated for missing / zero / non-zero entries); (defaults) readers never hand the "
    "module-level default objects to instances; (fixtype) _fix_type, evaluated on representative values, converts "
    "only the top-level value and leaves nested None untouched; infinities are written as strings and JSON is "
    "dumped with allow_nan=False; (variants) every string/file variant goes through model_to_dict/model_from_dict "
    "and passes `sort` on; (state/owner) the pickle blank/restore pairing (C12.state) and the ownership of loaded "
    "genes (C02.owner). NOT decided: value-level identity (float text, None vs ''), YAML library behaviour."
)
ASSUMPTIONS = ["json/simplejson and ruamel.yaml round-trip plain dict/list/str/float values", "setattr(obj, key, value) reaches the attribute of that name"]

WANT = {
    "reaction": {"id", "name", "metabolites", "lower_bound", "upper_bound", "gene_reaction_rule", "objective_coefficient", "subsystem", "notes", "annotation"},
    "metabolite": {"id", "name", "compartment", "charge", "formula", "notes", "annotation"},
    "gene": {"id", "name", "notes", "annotation"},
    "model": {"id", "name", "compartments", "notes", "annotation", "objective_direction"},
}
TABLES = {
    "reaction": ("_REQUIRED_REACTION_ATTRIBUTES", "_ORDERED_OPTIONAL_REACTION_KEYS", "_OPTIONAL_REACTION_ATTRIBUTES"),
    "metabolite": ("_REQUIRED_METABOLITE_ATTRIBUTES", "_ORDERED_OPTIONAL_METABOLITE_KEYS", "_OPTIONAL_METABOLITE_ATTRIBUTES"),
    "gene": ("_REQUIRED_GENE_ATTRIBUTES", "_ORDERED_OPTIONAL_GENE_KEYS", "_OPTIONAL_GENE_ATTRIBUTES"),
    "model": (None, "_ORDERED_OPTIONAL_MODEL_KEYS", "_OPTIONAL_MODEL_ATTRIBUTES"),
}
MOD = "cobra.io.dict"


def _computed(unit, name, prog=None):
    """The value the module's own top-level statements give the name (tables derived from one another)."""
    from ..interp import Interp

    if prog is None:
        return None
    return Interp(prog, (), [], {}, globals_={})._module_env(unit).get(name)


def _lit_list(unit, name, prog=None) -> List[str]:
    v = unit.globals.get(name)
    if not v or not isinstance(v[-1], (ast.List, ast.Tuple)):
        got = _computed(unit, name, prog)
        if isinstance(got, (list, tuple)) and all(isinstance(x, str) for x in got):
            return list(got)
        raise AnalysisError(f"io.dict.{name} cannot be computed as a list of keys")
    return [e.value for e in v[-1].elts if isinstance(e, ast.Constant)]


def _lit_dict_keys(unit, name, prog=None) -> List[str]:
    v = unit.globals.get(name)
    if not v or not isinstance(v[-1], ast.Dict):
        got = _computed(unit, name, prog)
        if isinstance(got, dict) and all(isinstance(x, str) for x in got):
            return list(got)
        raise AnalysisError(f"io.dict.{name} cannot be computed as a table of defaults")
    return [k.value for k in v[-1].keys if isinstance(k, ast.Constant)]


def check_direction(ctx) -> None:
    """Objective direction (K6): nothing that model_to_dict does (itself or through the package functions it calls)
    mentions the direction of the objective."""
    prog = ctx.prog
    to = prog.func(MOD, "model_to_dict")
    seen, todo, txt = set(), [to], []
    while todo:
        f = todo.pop()
        if f.qualname in seen or len(seen) > 40:
            continue
        seen.add(f.qualname)
        txt.append(" ".join(ast.unparse(f.node).split()))
        for c in walk_local(f.node):
            if isinstance(c, ast.Call):
                for callee, _recv in ctx.inf.call_targets(f, c):
                    if callee.unit is to.unit:
                        todo.append(callee)
    if any("direction" in t for t in txt):
        ctx.ok("C11.direction", to, "objective direction", "the objective direction is written")
    else:
        ctx.bad("C11.direction", to, "objective direction", "the objective direction has no key in the dict/JSON/YAML form: a minimisation model is loaded as a maximisation")


def check_keys(ctx) -> None:
    prog = ctx.prog
    unit = prog.unit(MOD)
    written: Dict[str, Set[str]] = {}
    for kind, (req, order, opt) in TABLES.items():
        required = _lit_list(unit, req, prog) if req else ["id"]
        ordered = _lit_list(unit, order, prog)
        optional = _lit_dict_keys(unit, opt, prog)
        if set(ordered) == set(optional):
            ctx.ok("C11.keys", None, f"{order} / {opt}", f"{kind}: every optional key that is written has a default and vice versa")
        else:
            diff = sorted(set(ordered) ^ set(optional))
            ctx.bad("C11.keys", None, order, f"{kind}: the ordered optional keys and the defaults table disagree on {diff}: such a key is never written (or raises KeyError when written)", file=unit.rel)
        if len(set(required)) != len(required) or len(set(ordered)) != len(ordered) or set(required) & set(ordered):
            ctx.bad("C11.keys", None, order, f"{kind}: a key is listed twice", file=unit.rel)
        written[kind] = set(required) | set(ordered)
        missing = WANT[kind] - written[kind] - {"objective_direction"}
        if missing:
            ctx.bad("C11.keys", None, order, f"{kind}: {sorted(missing)} (named in the property) is not written at all: it is lost in every dict/JSON/YAML round trip", file=unit.rel)
        else:
            ctx.ok("C11.keys", None, f"{kind} coverage", f"written keys cover {sorted(WANT[kind] - {'objective_direction'})}")
    # writers use the tables
    for kind, fname in (("reaction", "_reaction_to_dict"), ("metabolite", "_metabolite_to_dict"), ("gene", "_gene_to_dict"), ("model", "model_to_dict")):
        fn = prog.func(MOD, fname)
        src = " ".join(ast.unparse(fn.node).split())
        req, order, opt = TABLES[kind]
        ok = (req is None or req in src) and order in src and opt in src and "_update_optional" in src
        if ok:
            ctx.ok("C11.keys", fn, f"{fname} tables", "writer iterates the required keys and the optional tables of its own kind")
        else:
            ctx.bad("C11.keys", fn, fn.node, f"{fname} does not write from the key tables of its own kind")
    # readers: generic setattr, explicit handling of skipped keys
    rf = prog.func(MOD, "_reaction_from_dict")
    skip = set()
    for n in walk_local(rf.node):
        if isinstance(n, ast.Compare) and len(n.ops) == 1 and isinstance(n.ops[0], ast.In) and isinstance(n.comparators[0], (ast.Set, ast.List, ast.Tuple)):
            for a in ancestors(n):
                if isinstance(a, ast.If) and a.test is n and any(isinstance(x, ast.Continue) for x in a.body):
                    skip |= {e.value for e in n.comparators[0].elts if isinstance(e, ast.Constant)}
    handled_elsewhere = {"lower_bound", "upper_bound", "objective_coefficient"}
    derived = {"reversibility", "reaction"}
    lost = (skip & written["reaction"]) - handled_elsewhere
    if lost:
        ctx.bad("C11.keys", rf, rf.node, f"the reader skips {sorted(lost)}, which the writer writes and nothing else restores")
    else:
        ctx.ok("C11.keys", rf, "skipped keys", f"skipped keys {sorted(skip)} are bounds / objective coefficient (handled explicitly) or derived values")
    generic = [n for n in walk_local(rf.node) if isinstance(n, ast.Call) and norm(n.func) == "setattr" and len(n.args) == 3 and norm(n.args[1]) == "k"]
    if generic:
        ctx.ok("C11.keys", rf, generic[0], "every other key is set generically")
    else:
        ctx.bad("C11.keys", rf, rf.node, "keys other than the explicitly handled ones are no longer set on the new reaction")
    for fname in ("_metabolite_from_dict", "gene_from_dict"):
        fn = prog.func(MOD, fname)
        loops = [n for n in walk_local(fn.node) if isinstance(n, ast.For) and ".items()" in norm(n.iter)]
        ok = False
        for lp in loops:
            if isinstance(lp.target, ast.Tuple) and len(lp.body) == 1:
                c = lp.body[0]
                if isinstance(c, ast.Expr) and isinstance(c.value, ast.Call) and norm(c.value.func) == "setattr" and norm(c.value.args[1]) == lp.target.elts[0].id and norm(c.value.args[2]) == lp.target.elts[1].id:
                    ok = True
        if ok:
            ctx.ok("C11.keys", fn, loops[0], "all stored keys are set on the new object, unconditionally")
        else:
            ctx.bad("C11.keys", fn, fn.node, f"{fname} does not set every stored key on the new object")
    mf = prog.func(MOD, "model_from_dict")
    keys = set()
    for n in walk_local(mf.node):
        if isinstance(n, ast.Compare) and isinstance(n.ops[0], ast.In) and isinstance(n.comparators[0], (ast.Set, ast.List, ast.Tuple)) and norm(n.left) == "k":
            keys |= {e.value for e in n.comparators[0].elts if isinstance(e, ast.Constant)}
    need = written["model"]
    if need <= keys:
        ctx.ok("C11.keys", mf, "model attributes", f"model-level keys {sorted(need)} are restored")
    else:
        ctx.bad("C11.keys", mf, mf.node, f"model-level keys {sorted(need - keys)} are written but not restored")
    oc = [n for n in walk_local(mf.node) if isinstance(n, ast.Call) and norm(n.func) == "set_objective"]
    src = " ".join(ast.unparse(mf.node).split())
    if oc and "objective_coefficient" in src and "get_by_id(rxn['id'])" in src:
        ctx.ok("C11.keys", mf, oc[0], "objective coefficients are restored through set_objective, keyed by reaction id")
    else:
        ctx.bad("C11.keys", mf, mf.node, "objective coefficients are not restored from the stored values")


def check_bounds(ctx) -> None:
    prog = ctx.prog
    fn = prog.func(MOD, "_reaction_from_dict")
    single = [n for n in walk_local(fn.node) if isinstance(n, ast.Assign) and isinstance(n.targets[0], ast.Attribute) and n.targets[0].attr in ("lower_bound", "upper_bound")]
    single += [n for n in walk_local(fn.node) if isinstance(n, ast.Call) and norm(n.func) == "setattr" and len(n.args) == 3 and isinstance(n.args[1], ast.Constant) and n.args[1].value in ("lower_bound", "upper_bound")]
    both = [n for n in walk_local(fn.node) if isinstance(n, ast.Assign) and isinstance(n.targets[0], ast.Attribute) and n.targets[0].attr == "bounds"]
    ctor = [n for n in walk_local(fn.node) if isinstance(n, ast.Call) and norm(n.func) == "Reaction" and any(k.arg in ("lower_bound", "upper_bound") for k in n.keywords)]
    generic_sets_bounds = _generic_setattr_reaches_bounds(fn)
    if single or generic_sets_bounds:
        site = single[0] if single else fn.node
        ctx.bad("C11.bounds", fn, site, "the two bounds of a loaded reaction are set one at a time through the validating setters: a saved pair such as (2000, 3000) cannot be loaded because each bound is checked against the default of the other")
    elif both or ctor:
        ctx.ok("C11.bounds", fn, (both or ctor)[0], "both bounds are set in one validated assignment")
    else:
        ctx.bad("C11.bounds", fn, fn.node, "the stored bounds are not applied to the loaded reaction")
    # a stored 0 stays 0
    if both:
        val = both[0].value
        recv = norm(both[0].targets[0].value)
        problems = []
        for stored, want in (({}, (-1.5, 2.5)), ({"lower_bound": 0, "upper_bound": 0}, (0.0, 0.0)), ({"lower_bound": -7, "upper_bound": 9}, (-7.0, 9.0)), ({"lower_bound": "-inf", "upper_bound": "inf"}, (float("-inf"), float("inf")))):
            def on_attr(ev, a: ast.Attribute):
                if norm(a.value) == recv and a.attr == "lower_bound":
                    return -1.5
                if norm(a.value) == recv and a.attr == "upper_bound":
                    return 2.5
                return NotImplemented

            def on_call(ev, c: ast.Call):
                f = c.func
                if isinstance(f, ast.Attribute) and f.attr == "get" and norm(f.value) == "reaction":
                    key = ev.eval(c.args[0])
                    default = ev.eval(c.args[1]) if len(c.args) > 1 else None
                    return stored.get(key, default)
                return NotImplemented

            def on_subscript(ev, s: ast.Subscript):
                if norm(s.value) == "reaction":
                    k = ev.eval(s.slice)
                    if k in stored:
                        return stored[k]
                    raise EvalRaise("KeyError", s)
                return NotImplemented

            try:
                ev = Evaluator({}, on_attr=on_attr, on_call=on_call, on_subscript=on_subscript)
                for nm in [x.id for x in ast.walk(val) if isinstance(x, ast.Name)]:
                    owner, defs = ctx.inf.lookup_name(fn, nm)
                    if len(defs) == 1 and defs[0].kind == "assign" and isinstance(defs[0].value, ast.AST) and nm not in fn.params:
                        try:
                            ev.env[nm] = ev.eval(defs[0].value)
                        except Unknown:
                            pass
                got = ev.eval(val)
            except EvalRaise as exc:
                got = f"raises {exc.exc_type}"
            except Unknown as exc:
                raise AnalysisError(f"C11.bounds: the bounds expression of _reaction_from_dict cannot be evaluated: {exc}")
            if got != want:
                problems.append(f"stored {stored or 'no bounds'}: loaded {got} (expected {want})")
        if problems:
            ctx.bad("C11.bounds", fn, both[0], "; ".join(problems[:2]))
        else:
            ctx.ok("C11.bounds", fn, both[0], "missing -> defaults, 0 -> 0, numbers and 'inf' strings -> floats (4 cases)")


def _generic_setattr_reaches_bounds(fn: FuncInfo) -> bool:
    """setattr(new_reaction, k, v) reachable with k in {lower_bound, upper_bound}?"""
    skip = set()
    for n in walk_local(fn.node):
        if isinstance(n, ast.Compare) and isinstance(n.ops[0], ast.In) and isinstance(n.comparators[0], (ast.Set, ast.List, ast.Tuple)):
            skip |= {e.value for e in n.comparators[0].elts if isinstance(e, ast.Constant)}
    generic = [n for n in walk_local(fn.node) if isinstance(n, ast.Call) and norm(n.func) == "setattr" and len(n.args) == 3 and isinstance(n.args[1], ast.Name)]
    return bool(generic) and not ({"lower_bound", "upper_bound"} <= skip)


def check_defaults(ctx) -> None:
    prog = ctx.prog
    for fname in ("_metabolite_from_dict", "gene_from_dict", "_reaction_from_dict", "model_from_dict"):
        fn = prog.func(MOD, fname)
        uses = [n for n in walk_local(fn.node) if isinstance(n, ast.Name) and n.id.startswith("_OPTIONAL_")]
        if uses:
            ctx.bad("C11.defaults", fn, enclosing_stmt(uses[0]), f"the reader takes values from the module-level table {uses[0].id}: the mutable defaults ({{}} / []) become shared between all loaded objects, so editing one object's notes changes what later loads and saves produce")
        else:
            ctx.ok("C11.defaults", fn, None, "reader does not hand module-level default objects to instances")


def _check_bounds_written(ctx, rt: FuncInfo) -> None:
    """_reaction_to_dict evaluated over a stand-in reaction: a non-finite bound is written as a string (JSON has no
    infinity and the writers use allow_nan=False), a finite one as the number itself; both keys are written."""
    from ..absint import EvalRaise as _ER, Unknown as _U
    from ..interp import Interp

    class _M:
        def __init__(self, mid):
            self.id = mid

        def __str__(self):
            return self.id

    class _R:
        pass

    problems = []
    n = 0
    for lb, ub in ((float("-inf"), float("inf")), (-5.0, float("inf")), (float("-inf"), 0.0), (-1000.0, 1000.0), (0, 7), (float("nan"), 3.0)):
        r = _R()
        r.id, r.name, r.lower_bound, r.upper_bound, r.gene_reaction_rule = "R1", "reaction one", lb, ub, "g1 and g2"
        a, b = _M("a_c"), _M("b_c")
        r.metabolites = {b: 1.0, a: -2.0}
        r.objective_coefficient, r.subsystem, r.notes, r.annotation = 0, "", {}, {}
        it = Interp(ctx.prog, (_M, _R), ["cobra.io.dict._fix_type", "cobra.io.dict._update_optional"], {}, globals_={})
        try:
            out = it.call(rt, [r], {})
        except _U as exc:
            raise AnalysisError(f"C11.fixtype: _reaction_to_dict cannot be evaluated: {exc}")
        except _ER as exc:
            problems.append(f"bounds ({lb}, {ub}): raises {exc.exc_type}")
            continue
        n += 1
        if not isinstance(out, dict):
            raise AnalysisError("C11.fixtype: _reaction_to_dict did not return a dict")
        for key, val in (("lower_bound", lb), ("upper_bound", ub)):
            got = out.get(key, "<missing>")
            if type(got).__name__ == "Opaque":
                raise AnalysisError(f"C11.fixtype: _reaction_to_dict: the value written for {key} could not be evaluated ({got!r})")
            finite = not (isinstance(val, float) and (val != val or val in (float("inf"), float("-inf"))))
            if finite and not (isinstance(got, (int, float)) and not isinstance(got, bool) and got == val):
                problems.append(f"{key}={val!r} is written as {got!r}")
            if not finite and not (isinstance(got, str) and got.lower().lstrip("+-") in ("inf", "nan", "infinity") and (got.startswith("-") == (val == float("-inf")))):
                problems.append(f"the non-finite {key}={val!r} is written as {got!r}, not as a string: JSON export with allow_nan=False fails for it")
        if out.get("metabolites") != {"a_c": -2.0, "b_c": 1.0}:
            problems.append(f"the stoichiometry is written as {out.get('metabolites')!r}")
    if problems:
        ctx.bad("C11.fixtype", rt, "infinite bounds", "; ".join(problems[:2]))
    else:
        ctx.ok("C11.fixtype", rt, "infinite bounds", f"{n} bound pairs: non-finite bounds are written as strings, finite ones as numbers; stoichiometry keyed by metabolite id")


def check_fixtype(ctx) -> None:
    prog = ctx.prog
    fn = prog.func(MOD, "_fix_type")
    p = fn.pos_params[0]

    def run(value):
        def on_call(ev, c: ast.Call):
            if isinstance(c.func, ast.Name) and c.func.id == "_fix_type":
                inner = ev.eval(c.args[0])
                return run(inner)
            return NotImplemented

        def on_attr(ev, a: ast.Attribute):
            if norm(a) == f"{p}.__class__.__name__":
                return type(value).__name__
            return NotImplemented

        try:
            Evaluator({p: value}, on_call=on_call, on_attr=on_attr).run(fn.node.body)
        except EvalReturn as r:
            return r.value
        return None

    problems = []
    cases = [
        ("top-level None", None, ""), ("string", "x", "x"), ("float", 1.5, 1.5), ("int", 3, 3),
        ("dict with nested None", {"b": None, "a": 1}, {"a": 1, "b": None}),
        ("set", {"k"}, ["k"]),
        ("dict with nested list holding None", {"k": [None, 1]}, {"k": [None, 1]}),
    ]
    for label, value, want in cases:
        try:
            got = run(value)
        except (Unknown, EvalRaise) as exc:
            raise AnalysisError(f"C11.fixtype: _fix_type cannot be evaluated on {label}: {exc}")
        if isinstance(got, dict):
            got = dict(got)
        if "<opaque" in repr(got):
            raise AnalysisError(f"C11.fixtype: _fix_type on {label} could not be evaluated ({got!r})")
        if got != want:
            problems.append(f"{label}: {value!r} -> {got!r} (expected {want!r})")
    if problems:
        ctx.bad("C11.fixtype", fn, fn.node, "; ".join(problems[:2]) + ": nested values are altered on their way through a round trip")
    else:
        ctx.ok("C11.fixtype", fn, "_fix_type value table", f"{len(cases)} representative values: only the top-level value is converted; nested None survives")
    rt = prog.func(MOD, "_reaction_to_dict")
    _check_bounds_written(ctx, rt)
    _check_allow_nan(ctx)


def _check_allow_nan(ctx) -> None:
    """to_json / save_json_model evaluated with a recording json stand-in: the serialiser is called with
    allow_nan=False (pretty or not), the caller's keyword arguments are passed on, the dict comes from model_to_dict."""
    from ..absint import EvalRaise as _ER, Unknown as _U
    from ..interp import Interp

    prog = ctx.prog

    class _Json:
        def __init__(self):
            self.calls = []

        def dumps(self, obj, **kw):
            self.calls.append(("dumps", obj, kw))
            return "<text>"

        def dump(self, obj, fp, **kw):
            self.calls.append(("dump", obj, kw))

    class _File:
        pass

    for fname, variants in (("to_json", [{}]), ("save_json_model", [{"pretty": False}, {"pretty": True}])):
        fn = prog.func("cobra.io.json", fname)
        bad = []
        for kw in variants:
            js = _Json()
            it = Interp(prog, (_Json, _File), [], {"cobra.io.dict.model_to_dict": lambda it_, ev, c, a, k: {"reactions": [], "sort": k.get("sort")}}, globals_={"json": js})
            it.missing_attr_raises = False
            args = [object()] if fname == "to_json" else [object(), _File()]
            try:
                it.call(fn, args, dict(kw, sort=True, ensure_ascii=False))
            except _U as exc:
                raise AnalysisError(f"C11.fixtype: {fname} cannot be evaluated: {exc}")
            except _ER as exc:
                bad.append(f"{kw}: raises {exc.exc_type}")
                continue
            if len(js.calls) != 1:
                bad.append(f"{kw}: {len(js.calls)} serialiser calls")
                continue
            _, obj, opts = js.calls[0]
            if opts.get("allow_nan", True) is not False:
                bad.append(f"{kw or 'default'}: the serialiser is called with allow_nan={opts.get('allow_nan', 'left at its default (True)')}: NaN/Infinity tokens produce a document other JSON readers reject")
            if opts.get("ensure_ascii", None) is not False:
                bad.append(f"{kw or 'default'}: the caller's keyword arguments are not passed on")
            if opts.get("default") is not None:
                # a hook for the values json cannot represent (numpy scalars): what it returns is what is stored
                hook = opts["default"]

                class _Scalar(_File):
                    def item(self):
                        return 2

                    def __str__(self):
                        return "2"

                    __repr__ = __str__

                    def __int__(self):
                        return 2

                    def __float__(self):
                        return 2.0

                it.native = tuple(it.native) + (_Scalar,)
                if type(hook).__name__ == "Opaque" and getattr(hook, "label", "") in ("str", "repr", "int", "float"):
                    hook = {"str": str, "repr": repr, "int": int, "float": float}[hook.label]  # a builtin handed over by name
                try:
                    stored = hook(_Scalar()) if callable(hook) else it.call_value(hook, [_Scalar()], {}, None, fn.node)
                except _ER:
                    stored = None  # the hook refuses: nothing is saved
                except _U as exc:
                    raise AnalysisError(f"C11.fixtype: the `default` hook of {fname} cannot be evaluated: {exc}")
                if isinstance(stored, str):
                    bad.append(f"{kw or 'default'}: the serialiser gets a `default` hook that turns a value json cannot represent (a numpy integer 2) into the text {stored!r}: the file is written, and the reader returns a string where the model had a number (a coefficient \"-1\" fails in the solver, a charge comes back as text)")
            if not (isinstance(obj, dict) and obj.get("sort") is True and "version" in obj):
                bad.append(f"{kw or 'default'}: the document is not model_to_dict(model, sort=sort) plus the version key")
        if bad:
            ctx.bad("C11.fixtype", fn, fn.node, "; ".join(bad[:2]))
        else:
            ctx.ok("C11.fixtype", fn, "allow_nan=False", "non-finite numbers are rejected instead of written as invalid JSON; caller options passed on (evaluated)")


def check_variants(ctx) -> None:
    prog = ctx.prog
    writers = [("cobra.io.json", "to_json"), ("cobra.io.json", "save_json_model"), ("cobra.io.yaml", "to_yaml"), ("cobra.io.yaml", "save_yaml_model")]
    readers = [("cobra.io.json", "from_json"), ("cobra.io.json", "load_json_model"), ("cobra.io.yaml", "from_yaml"), ("cobra.io.yaml", "load_yaml_model")]
    for mod, name in writers:
        fn = prog.func(mod, name)
        calls = [n for n in walk_local(fn.node) if isinstance(n, ast.Call) and norm(n.func) == "model_to_dict"]
        if calls and any(k.arg == "sort" and norm(k.value) == "sort" for k in calls[0].keywords) and norm(calls[0].args[0]) == "model":
            ctx.ok("C11.variants", fn, calls[0], "goes through model_to_dict and passes `sort` on")
        else:
            ctx.bad("C11.variants", fn, calls[0] if calls else fn.node, f"{name} does not serialise through model_to_dict(model, sort=sort): this variant writes a different document than its siblings")
    for mod, name in readers:
        fn = prog.func(mod, name)
        rets = [n for n in walk_local(fn.node) if isinstance(n, ast.Return)]
        if rets and all(isinstance(r.value, ast.Call) and norm(r.value.func) == "model_from_dict" for r in rets):
            ctx.ok("C11.variants", fn, rets[0], "every path returns model_from_dict(<parsed document>)")
        else:
            ctx.bad("C11.variants", fn, fn.node, f"{name} does not build the model through model_from_dict on every path")


def check_objective(ctx) -> None:
    """model_from_dict: the objective is rebuilt from every reaction whose stored coefficient is non-zero - of either
    sign (finite domain over the sign of the coefficient) - and with that coefficient."""
    from ..absint import Evaluator, Unknown, EvalRaise

    fn = ctx.prog.func("cobra.io.dict", "model_from_dict")
    comps = [n for n in walk_local(fn.node) if isinstance(n, (ast.ListComp, ast.DictComp, ast.GeneratorExp)) and "objective_coefficient" in norm(n) and n.generators and n.generators[0].ifs]
    if not comps:
        raise SkipClause("model_from_dict: the selection of objective reactions is not in a familiar spelling (decided by C11.roundtrip)")
    for comp in comps:
        gen = comp.generators[0]
        var = gen.target.id if isinstance(gen.target, ast.Name) else None
        wrong = []
        for label, rxn, want in (("positive", {"id": "R", "objective_coefficient": 1.0}, True), ("negative", {"id": "R", "objective_coefficient": -0.05}, True),
                                 ("zero", {"id": "R", "objective_coefficient": 0}, False), ("absent", {"id": "R"}, False)):
            def on_call(ev, c):
                f = c.func
                if isinstance(f, ast.Attribute) and f.attr == "get":
                    recv = ev.eval(f.value)
                    if isinstance(recv, dict):
                        return recv.get(*[ev.eval(a) for a in c.args])
                return NotImplemented
            try:
                got = all(Evaluator({var: rxn}, on_call=on_call).truth(t) for t in gen.ifs)
            except (Unknown, EvalRaise) as exc:
                raise AnalysisError(f"model_from_dict: the objective filter cannot be evaluated: {exc}")
            if got != want:
                wrong.append(f"a reaction with a {label} objective coefficient is {'kept' if got else 'dropped'}")
        if wrong:
            ctx.bad("C11.keys", fn, enclosing_stmt(comp), "; ".join(wrong) + ": the loaded objective differs from the saved one")
        else:
            ctx.ok("C11.keys", fn, enclosing_stmt(comp), "objective reactions = stored coefficient non-zero (positive and negative), zero/absent skipped")
    vals = [n for n in walk_local(fn.node) if isinstance(n, ast.DictComp) and "objective_coefficient" in norm(n.value)]
    if vals and norm(vals[0].value).replace('"', "'") in ("rxn['objective_coefficient']",):
        ctx.ok("C11.keys", fn, enclosing_stmt(vals[0]), "the stored coefficient itself is used", nontrivial=False)
    elif vals:
        ctx.bad("C11.keys", fn, enclosing_stmt(vals[0]), f"the objective coefficient is loaded as `{norm(vals[0].value)}`, not as the stored value")


def check_stateless_yaml(ctx) -> None:
    """The YAML string writer keeps nothing between calls: the buffer it returns the text from is created in the call."""
    fn = ctx.prog.func("cobra.io.yaml", "CobraYAML.dump")
    rets = [n for n in walk_local(fn.node) if isinstance(n, ast.Return) and n.value is not None and "getvalue" in norm(n.value)]
    if not rets:
        raise AnalysisError("CobraYAML.dump: the return of the buffer's text was not found")
    for r in rets:
        recv = r.value.func.value if isinstance(r.value, ast.Call) and isinstance(r.value.func, ast.Attribute) else None
        fresh = False
        if isinstance(recv, ast.Name):
            defs = [n for n in walk_local(fn.node) if isinstance(n, ast.Assign) and any(isinstance(t, ast.Name) and t.id == recv.id for t in n.targets)]
            fresh = bool(defs) and all(isinstance(d.value, ast.Call) and norm(d.value.func).split(".")[-1] == "StringIO" and not d.value.args for d in defs)
        if fresh:
            ctx.ok("C11.variants", fn, r, "the text is returned from a buffer created in this call")
        else:
            ctx.bad("C11.variants", fn, r, f"the text is returned from `{norm(recv)}`, which is not a buffer created in this call: the module-level serialiser is shared by all to_yaml calls, so the remains of an earlier, longer document end up in the string and it cannot be loaded")
    cls = ctx.prog.cls("CobraYAML")
    for name, ms in cls.methods.items():
        for m in ms:
            for n in walk_local(m.node):
                if isinstance(n, ast.Assign) and any(isinstance(t, ast.Attribute) and isinstance(t.value, ast.Name) and t.value.id == (m.self_name or "self") for t in n.targets) and isinstance(n.value, ast.Call) and "StringIO" in norm(n.value.func):
                    ctx.bad("C11.variants", m, n, "the serialiser object keeps an output buffer between calls")


def check_id_reassign(ctx) -> None:
    """The loaders hand every stored attribute back through setattr - the identifier too, which is None for a model
    that was never named. Evaluated on a stand-in: assigning an object the identifier it already has is accepted
    (None included) and changes nothing; a new string identifier is taken; anything else that is no string is
    rejected."""
    from ..interp import Interp

    prog = ctx.prog
    ci = prog.cls("Object")
    setters = [m for m in ci.methods.get("id", []) if getattr(m, "prop_kind", None) == "setter"]
    if not setters:
        raise AnalysisError("C11.variants: Object.id has no setter")
    fn = setters[0]

    class _O:
        def __init__(self, id_):
            self._id = id_
            self._model = None

        @property
        def id(self):
            return self._id

    problems = []
    n = 0
    for cur in (None, "e_coli", ""):
        for new in (None, "e_coli", "other", "", 7):
            o = _O(cur)
            it = Interp(prog, (_O,), [], {})
            try:
                it.call(fn, [new], {}, selfobj=o)
                got = ("value", o._id)
            except EvalRaise as exc:
                got = ("raise", exc.exc_type)
            except Unknown as exc:
                raise AnalysisError(f"C11.variants: the id setter cannot be evaluated: {exc}")
            n += 1
            if new == cur:
                want = ("value", cur)
            elif isinstance(new, str):
                want = ("value", new)
            else:
                want = ("raise", None)
            good = got == want or (want[0] == "raise" and got[0] == "raise")
            if not good:
                problems.append(f"object with id {cur!r}: assigning id = {new!r} {'raises ' + str(got[1]) if got[0] == 'raise' else 'leaves id ' + repr(got[1])}, expected {'the id ' + repr(want[1]) if want[0] == 'value' else 'a rejection'}" + (" (the loaders re-assign the stored id, None for a model without a name: loading such a model fails)" if new == cur else ""))
    if problems:
        ctx.bad("C11.variants", fn, fn.node, problems[0] + (f" (+{len(problems) - 1} more)" if len(problems) > 1 else ""))
    else:
        ctx.ok("C11.variants", fn, "id setter", f"{n} cases: re-assigning the stored identifier (None included) is accepted and changes nothing (evaluated)")


def check_exact_numbers(ctx) -> None:
    """The writers of the dict / JSON / YAML formats hand numbers to the library (repr: the shortest text that reads
    back as the same double). A number turned into text by the package itself with a precision below 17 significant
    digits (`f"{x:.15g}"`, `"%.6g" % x`, `format(x, ".10e")`), with a fixed number of decimals, or rounded (`round(x,
    n)`) comes back as another number. Rule: no such conversion in cobra.io.dict / json / yaml outside messages
    (raise, warn, logging). The precision is resolved through constants (`sys.float_info.dig` is 15)."""
    import re as _re

    prog = ctx.prog
    known = {"sys.float_info.dig": 15, "float_info.dig": 15, "sys.float_info.mant_dig": 53, "DBL_DIG": 15}
    spec_re = _re.compile(r"\.(\d+)([gGeEfF%])")

    def spec_text(node) -> Optional[str]:
        if node is None:
            return ""
        if isinstance(node, ast.Constant) and isinstance(node.value, str):
            return node.value
        if isinstance(node, ast.JoinedStr):
            out = ""
            for v in node.values:
                if isinstance(v, ast.Constant):
                    out += str(v.value)
                elif isinstance(v, ast.FormattedValue):
                    t = norm(v.value)
                    if t in known:
                        out += str(known[t])
                    elif isinstance(v.value, ast.Constant):
                        out += str(v.value.value)
                    else:
                        return None
            return out
        return None

    def lossy(spec: Optional[str]) -> Optional[str]:
        if spec is None:
            return None
        m = spec_re.search(spec)
        if not m:
            if spec.strip() and spec.strip()[-1:] in "fFeEgG%" and "." not in spec:
                return f"the format `{spec}` keeps 6 digits"
            return None
        digits, kind = int(m.group(1)), m.group(2)
        if kind in "fF%":
            return f"the format `{spec}` keeps {digits} decimals"
        if (kind in "gG" and digits < 17) or (kind in "eE" and digits < 16):
            return f"the format `{spec}` keeps {digits if kind in 'gG' else digits + 1} significant digits, a double needs up to 17"
        return None

    scanned = 0
    for mod in ("cobra.io.dict", "cobra.io.json", "cobra.io.yaml"):
        try:
            unit = prog.unit(mod)
        except Exception:  # noqa: BLE001
            raise AnalysisError(f"C11.exact: module {mod} not found")
        message_nodes = set()
        for n in ast.walk(unit.tree):
            if isinstance(n, ast.Raise) or (isinstance(n, ast.Call) and norm(n.func).split(".")[-1] in ("warn", "warning", "info", "debug", "error", "critical", "exception", "print")):
                message_nodes.update(id(x) for x in ast.walk(n))
        funcs = [f for f in prog.all_funcs() if f.unit is unit]
        scanned += len(funcs) + 1
        for n in ast.walk(unit.tree):
            if id(n) in message_nodes:
                continue
            why = None
            if isinstance(n, ast.FormattedValue) and n.format_spec is not None:
                st = spec_text(n.format_spec)
                why = lossy(st) if st is not None else f"a format `{norm(n.format_spec, 40)}` that cannot be resolved"
            elif isinstance(n, ast.Call) and isinstance(n.func, ast.Name) and n.func.id == "format" and len(n.args) == 2:
                why = lossy(spec_text(n.args[1]))
            elif isinstance(n, ast.Call) and isinstance(n.func, ast.Attribute) and n.func.attr == "format" and isinstance(n.func.value, ast.Constant) and isinstance(n.func.value.value, str):
                for spec in _re.findall(r"\{[^{}:]*:([^{}]*)\}", n.func.value.value):
                    why = why or lossy(spec)
            elif isinstance(n, ast.BinOp) and isinstance(n.op, ast.Mod) and isinstance(n.left, ast.Constant) and isinstance(n.left.value, str):
                for m_ in _re.finditer(r"%[-+ #0]*\d*(\.\d+)?([gGeEfF])", n.left.value):
                    why = why or lossy((m_.group(1) or "") + m_.group(2))
            elif isinstance(n, ast.Call) and norm(n.func).split(".")[-1] in ("round", "around", "round_") and n.args:
                why = f"`{norm(n, 50)}` rounds"
            if why:
                owner = next((f for f in funcs if any(x is n for x in ast.walk(f.node))), None)
                ctx.bad("C11.exact", owner or funcs[0], n, f"{mod.split('.')[-1]}: a number is turned into text by the package itself - {why}: the value that is read back differs from the one the model held (0.1 + 0.2, 1/3, 1000/3 ...); the library's own number output (repr) reads back exactly")
    fn = prog.func("cobra.io.dict", "_fix_type")
    ctx.ok("C11.exact", fn, "numbers are written by the library", f"{scanned} functions and module bodies of cobra.io.dict / json / yaml: no number is formatted with a precision or rounded outside messages")


def run(ctx) -> None:
    from .c10 import check_readers_not_memoised

    ctx.rule("C11.reread", "T4: the functions that read a document from the file system / the parser are not memoised on the file name", floor=2)
    ctx.guard(check_readers_not_memoised, ctx, "C11.reread", ("cobra.io.json", "cobra.io.yaml", "cobra.io.mat"))
    ctx.rule("C11.exact", "T2: the writers never turn a number into text with fewer than 17 significant digits (format specs resolved through constants), nor round it", floor=1)
    ctx.guard(check_exact_numbers, ctx)
    from . import replayform as _rp

    ctx.rule("C02.effect", "bounded evaluation: what a reaction reports as its objective coefficient (the number the writers store) is what the objective holds (shared with C02)", floor=1)
    ctx.guard(_rp.check_effects, ctx, "C02.effect")
    ctx.rule("C11.keys", "T7: writer/reader key tables agree and cover the attributes the property lists", floor=15)
    ctx.rule("C11.direction", "T7: objective direction is serialised", floor=1)
    ctx.rule("C11.bounds", "T6/finite domain: bounds are loaded atomically and a stored 0 stays 0", floor=2)
    ctx.rule("C11.defaults", "T8: readers never share module-level default objects", floor=4)
    ctx.rule("C11.fixtype", "finite domain: _fix_type converts only the top-level value; infinities as strings; allow_nan=False", floor=4)
    ctx.rule("C11.variants", "T5: all string/file variants go through model_to_dict / model_from_dict", floor=8)
    ctx.rule("C12.state", "T7: pickle blank/restore pairing (shared with C12)", floor=7)
    ctx.rule("C02.owner", "T1: loaded objects belong to the model (shared with C02)", floor=9)
    from . import ioform

    ctx.rule("C11.roundtrip", "finite evaluation: model_from_dict(model_to_dict(m)) says what m said; the dict is JSON-representable, not consumed, reproduced by a second trip", floor=1)
    n0, d0 = len(ctx.findings), len(ctx.deferred)
    ctx.guard(ioform.check_roundtrip, ctx, "C11.roundtrip")
    ctx.rule("C11.construct", "finite evaluation: the Reaction constructor the readers start from succeeds under every admissible configuration of the default bounds", floor=1)
    ctx.guard(ioform.check_construct, ctx, "C11.construct")
    roundtrip_failed = len(ctx.findings) > n0 or len(ctx.deferred) > d0
    # The structural reading of the key tables, of the bounds handling and of the defaults explains what the evaluated
    # round trip decides: its reports are issued when the round trip is found wrong as well (or could not be
    # evaluated). The objective direction (K6) is not part of the evaluated round trip and is always read.
    check_direction(ctx)
    held = []
    real_bad = ctx.bad
    ctx.bad = lambda *a, **k: (real_bad(*a, **k) if a and a[0] == "C11.direction" else held.append((a, k)))  # type: ignore[method-assign]
    try:
        check_keys(ctx)
        check_bounds(ctx)
        check_defaults(ctx)
    except AnalysisError as exc:
        if roundtrip_failed:
            ctx.defer(str(exc))
        else:
            ctx.note(f"structural reading skipped ({exc}); the evaluated round trip decides")
    finally:
        del ctx.bad
    for a, k in held:
        if roundtrip_failed:
            ctx.bad(*a, **k)
        else:
            ctx.note(f"structural reading not confirmed by the evaluated round trip (no report): {a[0]} {a[3] if len(a) > 3 else ''}"[:300])
    ctx.guard(check_objective, ctx)
    ctx.guard(check_stateless_yaml, ctx)
    check_fixtype(ctx)
    check_variants(ctx)
    ctx.guard(check_id_reassign, ctx)
    c12.check_state(ctx)
    c02.check_owner(ctx)
