"""C15 - DictList evaluated operation by operation against a plain list with a uniqueness rule.

Every DictList method is evaluated by the analyser's interpreter (not by Python: the repository's code is never
imported or run) on a stand-in that is a real ``list`` carrying a ``_dict``; ``list.X(self, ...)`` calls of the
evaluated code act on that list. The check is inductive: from *every* coherent start state of the small scope
(lists of 0..3 elements) and for every operation with every argument of the scope (every index from -len-2 to len+2,
a family of slices, new / duplicate / present / absent elements and ids) the evaluated outcome must be

* the outcome of the same operation on a plain Python list with the uniqueness rule,
* a coherent list again (``_dict == {element.id: position}``, ids unique),
* and, when the operation raises, the unchanged start state.

The observers (get_by_id, index, ``in``, has_id) are evaluated on every coherent state of the scope as well. Since the
operations only compare positions with each other and with the length, and ids with each other, the small scope
exhausts the orderings those comparisons can distinguish. No shape of the code is prescribed.
"""
from __future__ import annotations

import ast
import itertools
from typing import Any, Callable, Dict, List, Optional, Sequence, Tuple

from .. import AnalysisError
from ..absint import EvalRaise, Unknown
from ..interp import Closure, FuncRef, Interp, PartialRef
from ..program import norm

MODULE = "cobra.core.dictlist"


class _S:
    pass


class El(_S):
    def __init__(self, id_, tag=""):
        self.id = id_
        self.tag = tag
        self.name = f"name of {id_}"

    def __repr__(self):
        return f"<{self.id}{self.tag}>"


class _Super(_S):
    def __init__(self, obj):
        self._obj = obj

    def __getattr__(self, name):
        f = getattr(list, name)
        return lambda *a, **k: f(self._obj, *a, **k)


def build(prog):
    """(interp, stand-in class, method table)."""
    ci = prog.cls("DictList")
    methods: Dict[str, Any] = {name: fns[0] for name, fns in ci.methods.items()}
    holder: Dict[str, Any] = {}

    def call(fn, selfobj, args, kwargs):
        return holder["it"].call(fn, list(args), dict(kwargs), selfobj=selfobj)

    class Bound(_S):
        def __init__(self, obj, fn):
            self.obj, self.fn = obj, fn

        def __call__(self, *a, **k):
            return call(self.fn, self.obj, a, k)

    ns: Dict[str, Any] = {}

    def __getattribute__(self, name):
        if name in methods and not (name.startswith("__") and name.endswith("__")):
            return Bound(self, methods[name])
        return list.__getattribute__(self, name)

    ns["__getattribute__"] = __getattribute__
    ns["__hash__"] = None

    def route(name):
        fn = methods[name]

        def dunder(self, *a, **k):
            if name == "__getattr__":
                try:
                    return call(fn, self, a, k)
                except EvalRaise as exc:
                    if exc.exc_type == "AttributeError":
                        raise AttributeError(*a)
                    raise
            return call(fn, self, a, k)

        dunder.__name__ = name
        return dunder

    for name in methods:
        if name.startswith("__") and name.endswith("__") and name not in ("__getattribute__", "__dir__", "__class__", "__new__", "__init_subclass__"):
            ns[name] = route(name)
    DL = type("DictListStandIn", (_S, list), ns)

    builtin = {"str": str, "int": int, "float": float, "bool": bool, "list": list, "dict": dict, "tuple": tuple, "set": set, "frozenset": frozenset, "slice": slice, "DictList": DL}

    def _isinstance(it_, ev, c, args, kwargs):
        names = [norm(x).split(".")[-1] for x in (c.args[1].elts if isinstance(c.args[1], ast.Tuple) else [c.args[1]])]
        known = tuple(builtin[n] for n in names if n in builtin)
        v = args[0]
        if isinstance(v, (El, DL, Bound)) or v is None or type(v) in (str, int, float, bool, list, dict, tuple, set, frozenset, slice, range):
            return isinstance(v, known) if known else False
        raise Unknown("isinstance on a value outside the DictList domain")

    def _list_prim(name):
        def stub(it_, ev, c, args, kwargs):
            fixed = []
            for a in args:
                fixed.append(a)
            if name == "sort" and "key" in kwargs and isinstance(kwargs["key"], (FuncRef, PartialRef, Closure)) or (name == "sort" and kwargs.get("key") is not None and not callable(kwargs.get("key"))):
                k = kwargs["key"]
                kwargs = dict(kwargs)
                kwargs["key"] = lambda x: it_.call_value(k, [x], {}, ev, c)
            elif name == "sort" and kwargs.get("key") is not None and type(kwargs["key"]).__name__ == "LocalFunc":
                k = kwargs["key"]
                kwargs = dict(kwargs)
                kwargs["key"] = lambda x: it_.call_value(k, [x], {}, ev, c)
            return it_._native_call(getattr(list, name), fixed, kwargs, c)

        return stub

    stubs: Dict[str, Callable] = {"isinstance": _isinstance, "super": lambda it_, ev, c, a, k: _Super(a[1] if len(a) > 1 else ev.env.get("self"))}
    for name in ("append", "extend", "insert", "pop", "remove", "reverse", "sort", "index", "count", "clear", "__getitem__", "__setitem__", "__delitem__", "__init__", "__iter__", "__len__", "__contains__", "__iadd__", "__add__", "copy"):
        stubs[f"list.{name}"] = _list_prim(name)
    for mod in ("cobra.core.dictlist", "cobra.core", "cobra"):
        stubs[f"{mod}.DictList"] = lambda it_, ev, c, a, k: DL(*a, **k)
    follow = [f"{MODULE}.DictList.{n}" for n in methods]
    # helpers the methods were factored into (module level or private methods) belong to the implementation
    follow += [f.qualname for f in prog.all_funcs() if f.qualname.startswith(MODULE + ".") and f.qualname not in follow and f.parent is None]
    it = Interp(prog, (_S,), follow, stubs, globals_={}, max_depth=14)
    it.missing_attr_raises = True
    holder["it"] = it
    return it, DL, methods


# --------------------------------------------------------------------------------------- reference
def coherent(dl) -> Optional[str]:
    items = list.__iter__(dl)
    want = {}
    for pos, el in enumerate(items):
        if el.id in want:
            return f"id {el.id!r} occurs at positions {want[el.id]} and {pos}"
        want[el.id] = pos
    d = list.__getattribute__(dl, "__dict__").get("_dict")
    if d != want:
        return f"_dict is {d}, the contents are {[e for e in list.__iter__(dl)]} (expected {want})"
    return None


def contents(dl) -> List[El]:
    return list(list.__iter__(dl))


class Case:
    def __init__(self, op: str, args: Sequence[Any], show: str, expect: Callable[[List[El]], Tuple]):
        self.op, self.args, self.show, self.expect = op, list(args), show, expect


def _unique(items: List[El]) -> bool:
    ids = [x.id for x in items]
    return len(ids) == len(set(ids))


def reference_cases(state: List[El], new: El, new2: El, dup: Optional[El]) -> List[Case]:
    """The operations of the property with every argument of the scope, and what a plain list with the uniqueness rule
    does: ('ok', resulting list, result check) / ('raise', allowed exception names) / ('either', ...) ."""
    n = len(state)
    L = list(state)
    out: List[Case] = []
    ids = [x.id for x in L]

    def ok(res, result=None):
        return ("ok", res, result)

    def add_like(xs):
        res = L + list(xs)
        return ok(res) if _unique(res) else ("raise", {"ValueError"})

    elems_new = [[new], [new, new2], []]
    elems_bad = [[dup]] if dup is not None else []
    elems_bad += [[new, El(new.id, "'")]]
    if dup is not None:
        elems_bad += [[new, dup], [dup, new]]
    # append / add / insert
    for x in [new] + ([dup] if dup is not None else []) + (L[:1]):
        out.append(Case("append", [x], f"append({x!r})", lambda L_, x=x: add_like([x])))
        out.append(Case("add", [x], f"add({x!r})", lambda L_, x=x: add_like([x])))
        for i in range(-n - 2, n + 3):
            def exp(L_, x=x, i=i):
                res = list(L)
                res.insert(i, x)
                return ok(res) if _unique(res) else ("raise", {"ValueError"})
            out.append(Case("insert", [i, x], f"insert({i}, {x!r})", exp))
    for xs in elems_new + elems_bad:
        out.append(Case("extend", [list(xs)], f"extend({xs!r})", lambda L_, xs=xs: add_like(xs)))
        out.append(Case("__iadd__", [list(xs)], f"+= {xs!r}", lambda L_, xs=xs: add_like(xs) + ("self",) if add_like(xs)[0] == "ok" else add_like(xs)))
        out.append(Case("__add__", [list(xs)], f"+ {xs!r}", lambda L_, xs=xs: ("new", L + list(xs)) if _unique(L + list(xs)) else ("raise", {"ValueError"})))

        def un(L_, xs=xs):
            res = list(L)
            for x in xs:
                if x.id not in [y.id for y in res]:
                    res.append(x)
            return ok(res)
        out.append(Case("union", [list(xs)], f"union({xs!r})", un))
    # pop / remove / del / -= / -
    out.append(Case("pop", [], "pop()", lambda L_: ok(L[:-1], ("is", L[-1])) if L else ("raise", {"IndexError"})))
    for i in range(-n - 2, n + 3):
        def exp_pop(L_, i=i):
            if -n <= i < n:
                res = list(L)
                v = res.pop(i)
                return ok(res, ("is", v))
            return ("raise", {"IndexError"})
        out.append(Case("pop", [i], f"pop({i})", exp_pop))

        def exp_del(L_, i=i):
            if -n <= i < n:
                res = list(L)
                del res[i]
                return ok(res)
            return ("raise", {"IndexError"})
        out.append(Case("__delitem__", [i], f"del [{i}]", exp_del))

        def exp_get(L_, i=i):
            if -n <= i < n:
                return ok(list(L), ("is", L[i]))
            return ("raise", {"IndexError"})
        out.append(Case("__getitem__", [i], f"[{i}]", exp_get))
        for y in [new] + ([dup] if dup is not None else []) + L[:2]:
            def exp_set(L_, i=i, y=y):
                if not (-n <= i < n):
                    return ("raise", {"IndexError", "ValueError"}) if not _unique([z for z in L] + [y]) else ("raise", {"IndexError"})
                res = list(L)
                res[i] = y
                return ok(res) if _unique(res) else ("raise", {"ValueError"})
            out.append(Case("__setitem__", [i, y], f"[{i}] = {y!r}", exp_set))
    absent = El("zz")
    for x in L + [absent] + ([dup] if dup is not None else []):
        def exp_rm(L_, x=x):
            if any(y is x for y in L):
                return ok([y for y in L if y is not x])
            return ("raise", {"ValueError", "KeyError"})
        out.append(Case("remove", [x], f"remove({x!r})", exp_rm))
    for key in ids + ["zz"]:
        def exp_rm_id(L_, key=key):
            if key in ids:
                return ok([y for y in L if y.id != key])
            return ("raise", {"ValueError", "KeyError"})
        out.append(Case("remove", [key], f"remove({key!r})", exp_rm_id))
    subs = [[absent], L[:1] + [absent], [absent] + L[:1], L[:1] + L[:1], L[-1:] + [absent]]
    for r in range(0, min(n, 3) + 1):
        subs += [list(p) for p in itertools.permutations(L, r)]
    for xs in subs:
        def exp_sub(L_, xs=xs, inplace=False):
            if all(any(y is x for y in L) for x in xs) and len({id(x) for x in xs}) == len(xs):
                return [y for y in L if not any(y is x for x in xs)]
            return None
        out.append(Case("__isub__", [list(xs)], f"-= {xs!r}", lambda L_, xs=xs, f=exp_sub: ok(f(L_, xs), "self") + ("self",) if f(L_, xs) is not None else ("raise", {"ValueError", "KeyError"})))
        out.append(Case("__sub__", [list(xs)], f"- {xs!r}", lambda L_, xs=xs, f=exp_sub: ("new", f(L_, xs)) if f(L_, xs) is not None else ("raise", {"ValueError", "KeyError"})))
    # slices
    slices = [slice(a, b, c) for a in (None, 0, 1, -1, -2) for b in (None, 1, 2, -1) for c in (None, 2, -1)] + [slice(5, None), slice(0, 0), slice(None, None, 3), slice(None, None, -2)]
    for s in slices:
        out.append(Case("__getitem__", [s], f"[{_ss(s)}]", lambda L_, s=s: ("new", L[s])))

        def exp_dels(L_, s=s):
            res = list(L)
            del res[s]
            return ok(res)
        out.append(Case("__delitem__", [s], f"del [{_ss(s)}]", exp_dels))
        for ys in ([new], [new, new2], [], [new, El(new.id, "'")]) + (([dup],) if dup is not None else ()):
            def exp_sets(L_, s=s, ys=ys):
                res = list(L)
                try:
                    res[s] = list(ys)
                except ValueError:
                    return ("raise", {"ValueError"})
                if not _unique(res):
                    return ("raise", {"ValueError"})
                clash = {y.id for y in ys} & set(ids) or not _unique(list(ys))
                if clash:
                    # unique afterwards, but an assigned id was present before (in the part that is replaced): the
                    # plain list with the uniqueness rule accepts it, rejecting it unchanged is within the property too
                    return ("either", res, {"ValueError"})
                return ok(res)
            out.append(Case("__setitem__", [s, list(ys)], f"[{_ss(s)}] = {ys!r}", exp_sets))
    # whole-list operations
    out.append(Case("reverse", [], "reverse()", lambda L_: ok(list(reversed(L)))))
    out.append(Case("sort", [], "sort()", lambda L_: ok(sorted(L, key=lambda x: x.id))))
    out.append(Case("__copy__", [], "copy.copy()", lambda L_: ("new", list(L))))
    return out


def _ss(s: slice) -> str:
    return ":".join("" if x is None else str(x) for x in ((s.start, s.stop) if s.step is None else (s.start, s.stop, s.step)))


# ----------------------------------------------------------------------------------------- harness
class ModelReport:
    def __init__(self):
        self.cases = 0
        self.states = 0
        self.problems: List[Tuple[str, str]] = []  # (method, message)
        self.ops_seen: Dict[str, int] = {}

    def bad(self, method: str, msg: str):
        if sum(1 for m, _ in self.problems if m == method) < 2:
            self.problems.append((method, msg))


def _fresh_state(DL, k: int, order: Optional[Sequence[int]] = None):
    names = ["a", "b", "c", "d"][:k]
    els = [El(x) for x in names]
    if order is not None:
        els = [els[i] for i in order]
    dl = DL.__new__(DL)
    list.__init__(dl)
    list.extend(dl, els)
    list.__getattribute__(dl, "__dict__")["_dict"] = {e.id: i for i, e in enumerate(els)}
    return dl, els


def run_model(prog) -> ModelReport:
    it, DL, methods = build(prog)
    rep = ModelReport()

    def evaluate(dl, op, args, kwargs=None):
        fn = methods.get(op)
        if fn is None:
            return ("missing", op)
        try:
            return ("value", it.call(fn, list(args), dict(kwargs or {}), selfobj=dl))
        except EvalRaise as exc:
            return ("raise", exc.exc_type)
        except Unknown as exc:
            raise AnalysisError(f"C15.model: DictList.{op} cannot be evaluated: {exc}")
        except RecursionError:
            raise AnalysisError(f"C15.model: DictList.{op}: evaluation does not terminate")

    shapes: List[Tuple[int, Optional[Sequence[int]]]] = [(0, None), (1, None), (2, None), (3, None), (4, None), (3, (2, 0, 1)), (2, (1, 0))]
    for k, order in shapes:
        dl0, els0 = _fresh_state(DL, k, order)
        rep.states += 1
        new, new2 = El("n"), El("m")
        dup = El(els0[0].id, "'") if els0 else None
        cases = reference_cases(els0, new, new2, dup)
        dl, els = dl0, els0
        for case in cases:
            # back to the start state (same element objects: the operations do not change elements)
            list.clear(dl)
            list.extend(dl, els)
            list.__getattribute__(dl, "__dict__").clear()
            list.__getattribute__(dl, "__dict__")["_dict"] = {e.id: i for i, e in enumerate(els)}
            case.args = [list(a) if isinstance(a, list) else a for a in case.args]
            if case.op not in methods:
                if case.op in ("add", "union", "__copy__"):
                    rep.bad(case.op, f"DictList.{case.op} is missing")
                    continue
                # inherited from list: evaluate the list primitive itself (it bypasses the index)
                try:
                    res = getattr(list, case.op)(dl, *case.args)
                    got = ("value", res)
                except (IndexError, ValueError, KeyError) as exc:
                    got = ("raise", type(exc).__name__)
            else:
                got = evaluate(dl, case.op, case.args)
            rep.cases += 1
            rep.ops_seen[case.op] = rep.ops_seen.get(case.op, 0) + 1
            want = case.expect(els)
            where = f"{case.show} on {els!r}"
            _judge(rep, case, got, want, dl, els, DL, where)
        # observers on this coherent state
        dl, els = _fresh_state(DL, k, order)
        _observers(rep, evaluate, dl, els, DL)
        # construction, pickling, bulk insert without check, replace on id
        _construction(rep, it, DL, methods, evaluate, els)
    # sequences: a state reached by one operation of the implementation itself (the id index then holds its keys in the
    # order the implementation left them, not in list order), and every operation of the scope from there
    firsts = [("insert", lambda e, p, q: [0, p], "insert(0, p)"), ("insert", lambda e, p, q: [1, p], "insert(1, p)"), ("__setitem__", lambda e, p, q: [0, p], "[0] = p"), ("__setitem__", lambda e, p, q: [1, p], "[1] = p"),
              ("pop", lambda e, p, q: [0], "pop(0)"), ("__delitem__", lambda e, p, q: [1], "del [1]"), ("remove", lambda e, p, q: [e[1]], "remove(b)"), ("reverse", lambda e, p, q: [], "reverse()"),
              ("__isub__", lambda e, p, q: [[e[0]]], "-= [a]"), ("__setitem__", lambda e, p, q: [slice(0, 2), [p, q]], "[0:2] = [p, q]"), ("__delitem__", lambda e, p, q: [slice(0, 2)], "del [0:2]"),
              ("extend", lambda e, p, q: [[p, q]], "extend([p, q])"), ("sort", lambda e, p, q: [], "sort()")]
    for op1, mk, show1 in firsts:
        if op1 not in methods:
            continue
        dl, els = _fresh_state(DL, 3, (2, 0, 1) if op1 == "sort" else None)
        p_, q_ = El("p"), El("q")
        got = evaluate(dl, op1, mk(els, p_, q_))
        if got[0] != "value" or coherent(dl):
            continue  # judged among the single operations above
        els1 = contents(dl)
        index1 = list(list.__getattribute__(dl, "__dict__")["_dict"].items())
        rep.states += 1
        new, new2 = El("n"), El("m")
        dup = El(els1[0].id, "'") if els1 else None
        for case in reference_cases(els1, new, new2, dup):
            if case.op not in methods:
                continue
            list.clear(dl)
            list.extend(dl, els1)
            list.__getattribute__(dl, "__dict__").clear()
            list.__getattribute__(dl, "__dict__")["_dict"] = dict(index1)
            case.args = [list(a) if isinstance(a, list) else a for a in case.args]
            got = evaluate(dl, case.op, case.args)
            rep.cases += 1
            _judge(rep, case, got, case.expect(els1), dl, els1, DL, f"{case.show} on {els1!r} (reached by {show1} on {els!r})")
        list.clear(dl)
        list.extend(dl, els1)
        list.__getattribute__(dl, "__dict__").clear()
        list.__getattribute__(dl, "__dict__")["_dict"] = dict(index1)
        _observers(rep, evaluate, dl, els1, DL)
    # an identifier is any string, the empty one included: an element whose identifier is falsy is found like any other
    els = [El(""), El("a")]
    dl = DL.__new__(DL)
    list.__init__(dl)
    list.extend(dl, els)
    list.__getattribute__(dl, "__dict__")["_dict"] = {e.id: i for i, e in enumerate(els)}
    rep.states += 1
    _observers(rep, evaluate, dl, els, DL)
    return rep


def _judge(rep: ModelReport, case: Case, got, want, dl, start: List[El], DL, where: str) -> None:
    now = contents(dl)
    same = len(now) == len(start) and all(a is b for a, b in zip(now, start))
    inc = coherent(dl)
    kind = want[0]
    if got[0] == "raise":
        if kind in ("raise", "either") and got[1] in (want[1] if kind == "raise" else want[2]):
            if not same or inc:
                rep.bad(case.op, f"{where} raises {got[1]} but leaves the list changed: contents {now}, {inc or 'index coherent'} (an operation that raises must leave the list unchanged)")
            return
        if kind in ("raise", "either"):
            rep.bad(case.op, f"{where} raises {got[1]}, expected {sorted(want[1] if kind == 'raise' else want[2])}")
            return
        rep.bad(case.op, f"{where} raises {got[1]}, a plain list with the uniqueness rule gives {want[1]!r}")
        return
    if got[0] != "value":
        rep.bad(case.op, f"{where}: {got}")
        return
    if kind == "raise":
        rep.bad(case.op, f"{where} succeeds (contents now {now}), a plain list with the uniqueness rule raises {sorted(want[1])}")
        return
    if kind == "new":
        res = got[1]
        if not same or inc:
            rep.bad(case.op, f"{where} must not change the list it is applied to: contents {now}, {inc or 'index coherent'}")
        if not isinstance(res, DL) or res is dl:
            rep.bad(case.op, f"{where} does not return a new DictList (got {type(res).__name__})")
            return
        rc = contents(res)
        if len(rc) != len(want[1]) or not all(a is b for a, b in zip(rc, want[1])):
            rep.bad(case.op, f"{where} returns {rc}, list semantics give {want[1]}")
        elif coherent(res):
            rep.bad(case.op, f"{where} returns a list whose index is wrong: {coherent(res)}")
        elif list.__getattribute__(res, "__dict__").get("_dict") is list.__getattribute__(dl, "__dict__").get("_dict"):
            rep.bad(case.op, f"{where} returns a list that shares its id index with the original")
        return
    expect = want[1]
    if len(now) != len(expect) or not all(a is b for a, b in zip(now, expect)):
        rep.bad(case.op, f"{where} leaves {now}, a plain list with the uniqueness rule gives {expect}")
        return
    if inc:
        rep.bad(case.op, f"after {where} the id index does not mirror the list: {inc}")
        return
    check = want[2] if len(want) > 2 else None
    if isinstance(check, tuple) and check[0] == "is" and got[1] is not check[1]:
        rep.bad(case.op, f"{where} returns {got[1]!r}, expected {check[1]!r}")
    if (len(want) > 3 and want[3] == "self") or check == "self":
        if got[1] is not dl:
            rep.bad(case.op, f"{where} does not return the list itself (an augmented assignment would rebind the name to {got[1]!r})")


def _observers(rep: ModelReport, evaluate, dl, els: List[El], DL) -> None:
    before = (contents(dl), dict(list.__getattribute__(dl, "__dict__")["_dict"]))
    absent = El("zz")
    twin = El(els[0].id, "'") if els else None
    for pos, el in enumerate(els):
        for op, args, want in (
            ("get_by_id", [el.id], ("is", el)), ("index", [el], ("eq", pos)), ("index", [el.id], ("eq", pos)),
            ("__contains__", [el], ("eq", True)), ("__contains__", [el.id], ("eq", True)), ("has_id", [el.id], ("eq", True)),
        ):
            got = evaluate(dl, op, args)
            rep.cases += 1
            good = got[0] == "value" and (got[1] is want[1] if want[0] == "is" else (got[1] == want[1] and type(got[1]) is type(want[1])))
            if not good:
                rep.bad(op, f"{op}({args[0]!r}) on {els!r} gives {got[1]!r}{' (raised)' if got[0] == 'raise' else ''}, expected {want[1]!r}")
    for op, args, want in (
        ("get_by_id", ["zz"], ("raise", {"KeyError"})), ("index", ["zz"], ("raise", {"ValueError"})), ("index", [absent], ("raise", {"ValueError"})),
        ("__contains__", ["zz"], ("eq", False)), ("__contains__", [absent], ("eq", False)), ("has_id", ["zz"], ("eq", False)),
    ) + ((("index", [twin], ("raise", {"ValueError"})),) if twin is not None else ()):
        got = evaluate(dl, op, args)
        rep.cases += 1
        if want[0] == "raise":
            if got[0] != "raise" or got[1] not in want[1]:
                rep.bad(op, f"{op}({args[0]!r}) on {els!r} gives {got}, expected {sorted(want[1])} to be raised")
        elif got != ("value", want[1]):
            rep.bad(op, f"{op}({args[0]!r}) on {els!r} gives {got[1]!r}, expected {want[1]!r}")
    after = (contents(dl), dict(list.__getattribute__(dl, "__dict__")["_dict"]))
    if len(before[0]) != len(after[0]) or not all(a is b for a, b in zip(before[0], after[0])) or before[1] != after[1]:
        rep.bad("get_by_id", f"the lookups (get_by_id / index / in / has_id) change the list {els!r}")


def _construction(rep: ModelReport, it, DL, methods, evaluate, els: List[El]) -> None:
    def make(*args):
        try:
            return ("value", DL(*args))
        except EvalRaise as exc:
            return ("raise", exc.exc_type)
        except Unknown as exc:
            raise AnalysisError(f"C15.model: DictList(...) cannot be evaluated: {exc}")

    def same(dl, want) -> Optional[str]:
        c = contents(dl)
        if len(c) != len(want) or not all(a is b for a, b in zip(c, want)):
            return f"contents {c}, expected {want}"
        return coherent(dl)

    rep.cases += 4
    got = make()
    if got[0] != "value" or same(got[1], []):
        rep.bad("__init__", f"DictList() gives {got if got[0] != 'value' else same(got[1], [])}")
    got = make(list(els))
    if got[0] != "value" or same(got[1], els):
        rep.bad("__init__", f"DictList({els!r}) gives {got if got[0] != 'value' else same(got[1], els)}")
    if got[0] == "value":
        src = got[1]
        got2 = make(src)
        if got2[0] != "value" or same(got2[1], els):
            rep.bad("__init__", f"DictList(<DictList {els!r}>) gives {got2 if got2[0] != 'value' else same(got2[1], els)}")
        elif els and list.__getattribute__(got2[1], "__dict__")["_dict"] is list.__getattribute__(src, "__dict__")["_dict"]:
            rep.bad("__init__", "DictList(<DictList>) shares the id index with its source: changing one list corrupts the lookups of the other")
    if els:
        twice = list(els) + [El(els[0].id, "'")]
        got = make(twice)
        if got[0] != "raise":
            rep.bad("__init__", f"DictList({twice!r}) accepts a duplicate id")
    # pickling: cls(*args); items appended through extend/append; then __setstate__(state)
    if "__reduce__" in methods:
        dl, _ = _state_from(DL, els)
        r = evaluate(dl, "__reduce__", [])
        rep.cases += 1
        if r[0] == "value" and isinstance(r[1], tuple) and len(r[1]) >= 2:
            red = r[1]
            try:
                new = DL(*red[1]) if red[0] is DL else None
            except EvalRaise as exc:
                new = None
            if new is None:
                rep.bad("__reduce__", f"__reduce__ does not name the list class itself as the constructor (got {red[0]!r})")
            else:
                items = list(red[3]) if len(red) > 3 and red[3] is not None else []
                try:
                    if items:
                        new.extend(items)
                    if len(red) > 2 and red[2] is not None:
                        if "__setstate__" in methods:
                            new.__setstate__(red[2])
                        else:
                            list.__getattribute__(new, "__dict__").update(red[2])
                except EvalRaise as exc:
                    rep.bad("__reduce__", f"unpickling {els!r} raises {exc.exc_type}")
                    return
                except Unknown as exc:
                    raise AnalysisError(f"C15.model: unpickling cannot be evaluated: {exc}")
                why = same(new, els)
                if why:
                    rep.bad("__setstate__", f"after a pickle round trip of {els!r}: {why}")
                elif els and list.__getattribute__(new, "__dict__")["_dict"] is list.__getattribute__(dl, "__dict__")["_dict"]:
                    rep.bad("__getstate__", "the unpickled list shares the id index object with the original")
        elif r[0] == "raise":
            rep.bad("__reduce__", f"__reduce__ on {els!r} raises {r[1]}")
    # _replace_on_id
    if "_replace_on_id" in methods and els:
        dl, cur = _state_from(DL, els)
        twin = El(cur[-1].id, "'")
        r = evaluate(dl, "_replace_on_id", [twin])
        rep.cases += 1
        want = cur[:-1] + [twin]
        if r[0] != "value" or same(dl, want):
            rep.bad("_replace_on_id", f"_replace_on_id({twin!r}) on {cur!r}: {r if r[0] != 'value' else same(dl, want)}")
    # _extend_nocheck with fresh elements (its callers hand it elements of a unique list)
    if "_extend_nocheck" in methods:
        for extra in ([El("x"), El("y")], []):
            dl, cur = _state_from(DL, els)
            r = evaluate(dl, "_extend_nocheck", [list(extra)])
            rep.cases += 1
            if r[0] != "value" or same(dl, cur + extra):
                rep.bad("_extend_nocheck", f"_extend_nocheck({extra!r}) on {cur!r}: {r if r[0] != 'value' else same(dl, cur + extra)}")
        # ... handed over as a one-shot iterator (callers pass generator expressions)
        for extra in ([El("x"), El("y")], [El("z")]):
            dl, cur = _state_from(DL, els)
            r = evaluate(dl, "_extend_nocheck", [iter(list(extra))])
            rep.cases += 1
            if r[0] != "value" or same(dl, cur + extra):
                rep.bad("_extend_nocheck", f"_extend_nocheck(<iterator over {extra!r}>) on {cur!r}: {r if r[0] != 'value' else same(dl, cur + extra)}")
    if "extend" in methods:
        dl, cur = _state_from(DL, els)
        extra = [El("x"), El("y")]
        r = evaluate(dl, "extend", [iter(list(extra))])
        rep.cases += 1
        if r[0] != "value" or same(dl, cur + extra):
            rep.bad("extend", f"extend(<iterator over {extra!r}>) on {cur!r}: {r if r[0] != 'value' else same(dl, cur + extra)}")
    # sort through every argument of its signature: whatever the order, the index follows the elements
    if "sort" in methods and len(els) > 1:
        by_id_desc = lambda x, y: (x.id < y.id) - (x.id > y.id)  # noqa: E731
        for label, a, k in (("sort(cmp=<descending ids>)", [], {"cmp": by_id_desc}), ("sort(<descending ids>) (positional)", [by_id_desc], {}),
                            ("sort(key=<reversed id>)", [], {"key": lambda x: x.id[::-1]}), ("sort(key=<reversed id>, reverse=True)", [], {"key": lambda x: x.id[::-1], "reverse": True})):
            dl, cur = _state_from(DL, els)
            r = evaluate(dl, "sort", list(a), dict(k))
            rep.cases += 1
            now = list(list.__iter__(dl))
            if r[0] != "value":
                rep.bad("sort", f"{label} on {cur!r}: {r}")
            elif sorted(now, key=id) != sorted(cur, key=id):
                rep.bad("sort", f"{label} on {cur!r} changes the elements: {now!r}")
            elif same(dl, now):
                rep.bad("sort", f"{label} on {cur!r}: {same(dl, now)}")
    # sort with the documented options
    if "sort" in methods and len(els) > 1:
        dl, cur = _state_from(DL, els)
        r = evaluate(dl, "sort", [], {"reverse": True})
        rep.cases += 1
        want = sorted(cur, key=lambda x: x.id, reverse=True)
        if r[0] != "value" or same(dl, want):
            rep.bad("sort", f"sort(reverse=True) on {cur!r}: {r if r[0] != 'value' else same(dl, want)}")
    # get_by_any
    if "get_by_any" in methods and els:
        dl, cur = _state_from(DL, els)
        r = evaluate(dl, "get_by_any", [[0, cur[-1].id, cur[0], -1]])
        rep.cases += 1
        want = [cur[0], cur[-1], cur[0], cur[-1]]
        if r[0] != "value" or not isinstance(r[1], list) or len(r[1]) != 4 or not all(a is b for a, b in zip(r[1], want)):
            rep.bad("get_by_any", f"get_by_any([0, {cur[-1].id!r}, {cur[0]!r}, -1]) on {cur!r} gives {r[1]!r}, expected {want}")
        # an identifier is a string whatever it looks like: one that consists of digits is not a position
        digits = [El("0"), El("7"), El("1")]
        dl2 = DL.__new__(DL)
        list.__init__(dl2)
        list.extend(dl2, digits)
        list.__getattribute__(dl2, "__dict__")["_dict"] = {e.id: i for i, e in enumerate(digits)}
        r = evaluate(dl2, "get_by_any", [["1", 1, "0", "7"]])
        rep.cases += 1
        want = [digits[2], digits[1], digits[0], digits[1]]
        if r[0] != "value" or not isinstance(r[1], list) or len(r[1]) != 4 or not all(a is b for a, b in zip(r[1], want)):
            rep.bad("get_by_any", f"get_by_any(['1', 1, '0', '7']) on the elements with the identifiers '0', '7', '1' gives {r[1]!r}, expected {want}: a string is an identifier, an integer a position")
        r = evaluate(dl2, "get_by_any", ["1"])
        rep.cases += 1
        if r[0] != "value" or not isinstance(r[1], list) or len(r[1]) != 1 or r[1][0] is not digits[2]:
            rep.bad("get_by_any", f"get_by_any('1') on the elements with the identifiers '0', '7', '1' gives {r[1]!r}, expected the element whose identifier is '1'")
    # list_attr / query (results are new coherent lists)
    if "query" in methods and els:
        dl, cur = _state_from(DL, els)
        try:
            r = evaluate(dl, "query", ["a|c"])
        except AnalysisError:
            r = None
        if r is not None:
            rep.cases += 1
            want = [x for x in cur if x.id in ("a", "c")]
            if r[0] != "value" or not isinstance(r[1], DL) or same(r[1], want):
                rep.bad("query", f"query('a|c') on {cur!r}: {r if r[0] != 'value' or not isinstance(r[1], DL) else same(r[1], want)}")
            elif same(dl, cur):
                rep.bad("query", f"query changes the list it searches: {same(dl, cur)}")


def _state_from(DL, els: List[El]):
    dl = DL.__new__(DL)
    list.__init__(dl)
    cur = list(els)
    list.extend(dl, cur)
    list.__getattribute__(dl, "__dict__")["_dict"] = {e.id: i for i, e in enumerate(cur)}
    return dl, cur
